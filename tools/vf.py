"""dev tool: python3-vt tools/vf.py <qualname> [-v]"""
import sys, time, os
sys.path.insert(0, os.path.dirname(os.path.dirname(os.path.abspath(__file__))))
from pyvc.executor import Executor
from pyvc import backend, check
check.load_contracts()
ex = Executor()
t0 = time.time()
rep = ex.generate(sys.argv[1])
print(rep.status, rep.reason, 'paths', rep.paths, 'obls', len(rep.obligations), 'gen %.1fs' % (time.time() - t0))
pat = [a[2:] for a in sys.argv if a.startswith('k=')]
if pat:
    rep.obligations = [o for o in rep.obligations if any(p_ in o.id for p_ in pat)]
t0 = time.time()
backend.solve_all(rep.obligations, timeout_ms=int(os.environ.get('TO', '20000')))
for ob in rep.obligations:
    if ob.result['status'] != 'unsat' or '-v' in sys.argv:
        print(ob.result['status'], ob.result.get('backend'), ob.result.get('variant'), [(t['backend'], t['status'], round(t['time'],1)) for t in ob.result.get('tried', [])], '%.2f' % ob.result['time'], ob.id, 'L%s' % ob.lineno, '|', ob.info.get('claim', '')[:90])
        if ob.result['status'] == 'sat' and '-m' in sys.argv:
            print('   MODEL', (ob.result.get('model') or '')[:600])
print('solve %.1fs' % (time.time() - t0), 'all unsat' if all(o.result['status'] == 'unsat' for o in rep.obligations) else 'NOT ALL')
