"""dev tool: python3-vt tools/vf.py <qualname> [-v]"""
import sys, time, os
sys.path.insert(0, os.path.dirname(os.path.dirname(os.path.abspath(__file__))))
from pyvc.executor import Executor
from pyvc import backend, check
check.load_contracts()
ex = Executor()
t0 = time.time()
rep = ex.generate(sys.argv[1])
print(rep.status, rep.reason, 'paths', rep.paths, 'obls', len(rep.obligations), 'gen %.1fs' % (time.time() - t0))
t0 = time.time()
backend.solve_all(rep.obligations, timeout_ms=int(os.environ.get('TO', '20000')))
for ob in rep.obligations:
    if ob.result['status'] != 'unsat' or '-v' in sys.argv:
        print(ob.result['status'], ob.result.get('backend'), '%.2f' % ob.result['time'], ob.id, 'L%s' % ob.lineno, '|', ob.info.get('claim', '')[:90])
        if ob.result['status'] == 'sat':
            print('   MODEL', (ob.result.get('model') or '')[:600])
print('solve %.1fs' % (time.time() - t0), 'all unsat' if all(o.result['status'] == 'unsat' for o in rep.obligations) else 'NOT ALL')
