#!/bin/bash
# dev: quick run of checks on a seeded change (no test-suite / demo confirmation):  tools/sq.sh <seed-dir> <prop> [vcheck args]
d=$(mktemp -d /tmp/zc_sq_XXXX); sd=$(realpath $1); shift; p=$1; shift
mkdir -p $d && cp -r /repo/src $d/ && (cd $d && git init -q . 2>/dev/null; git -C $d apply $sd/patch.diff) || { echo "patch failed"; rm -rf $d; exit 9; }
(cd /verif && VERIF_REPO=$d ./vcheck $p "$@" | grep -v '^WARNING' | cut -c1-420 | head -${SQ_LINES:-14})
rm -rf $d
