"""dev: verify every function registered for the given properties (or all)."""
import sys, os, time
sys.path.insert(0, os.path.dirname(os.path.dirname(os.path.abspath(__file__))))
import multiprocessing as mp
from pyvc import check
P = check.load_contracts()
def work(q):
    from pyvc.executor import Executor
    from pyvc import backend
    t0=time.time()
    ex = Executor(); rep = ex.generate(q)
    backend.solve_all(rep.obligations, timeout_ms=int(os.environ.get('TO','15000')), procs=1)
    bad=[(o.id, o.result['status']) for o in rep.obligations if o.result['status']!='unsat']
    return q, rep.status, rep.reason, len(rep.obligations), bad, time.time()-t0
if __name__=='__main__':
    props = sys.argv[1:] or list(P.PROPS)
    funcs=[]
    for p in props:
        for f in P.PROPS[p].get('functions',[]):
            if f not in funcs: funcs.append(f)
    with mp.get_context('fork').Pool(16) as pool:
        for q,st,reason,n,bad,t in pool.imap_unordered(work, funcs):
            print('%-55s %-10s %3d obls %5.1fs %s %s' % (q, st, n, t, reason or '', '' if not bad else bad))
