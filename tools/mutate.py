"""dev: apply a textual edit to a scratch copy of the tree and run checks against it.
usage: python3 tools/mutate.py <file under src/ZConfig> <old> <new> -- <prop> [<prop>...]"""
import os, shutil, subprocess, sys, tempfile
args = sys.argv[1:]
i = args.index('--')
f, old, new = args[:i]
props = args[i + 1:]
d = tempfile.mkdtemp(prefix='zc_mut_')
try:
    shutil.copytree('/repo/src', os.path.join(d, 'src'))
    p = os.path.join(d, 'src', 'ZConfig', f)
    s = open(p).read()
    assert old in s, 'pattern not found'
    open(p, 'w').write(s.replace(old, new, 1))
    env = dict(os.environ, VERIF_REPO=d)
    for pr in props:
        r = subprocess.run(['./vcheck', pr, '--tier', 'quick'] + (['--no-standin'] if os.environ.get('NOSTANDIN') else []),
                           cwd='/verif', env=env, capture_output=True, text=True)
        print(pr, 'exit', r.returncode)
        print('\n'.join(l for l in r.stdout.splitlines() if not l.startswith('WARNING'))[:1500])
        if r.returncode not in (0, 1):
            print(r.stderr[-800:])
finally:
    shutil.rmtree(d)
