"""Regenerate MANIFEST.json from contracts/props.py and tools/manifest_texts.py."""
import json, os, sys
HERE = os.path.dirname(os.path.dirname(os.path.abspath(__file__)))
sys.path.insert(0, HERE)
import contracts.props as P
from tools.manifest_texts import TEXTS, NOT_APPLICABLE

ids = [json.loads(l)['id'] for l in open(os.path.join(HERE, 'properties.jsonl'))]
checks = []
for pid in ids:
    if pid not in P.PROPS or pid not in TEXTS:
        continue
    t = TEXTS[pid]
    checks.append({
        'property_id': pid,
        'quick_cmd': './vcheck %s --tier quick' % pid,
        'thorough_cmd': './vcheck %s --tier thorough' % pid,
        'evidence_file': 'evidence/%s.json' % pid,
        'replay_cmd_template': './vcheck replay {path}',
        'engine': 'pyvc',
        'level_claimed': {'category': t['category'], 'text': t['text'], 'design_ref': t.get('design_ref', 'DESIGN.md section 5, ' + pid)},
        'level_note': t['note'],
        'technique': t['technique'],
    })
claimed = {c['property_id'] for c in checks}
na = [{'property_id': i, 'reason': NOT_APPLICABLE.get(i, 'check not built yet (framework under construction; DESIGN.md section 8 build order)')}
      for i in ids if i not in claimed]
m = {
    'version': 1,
    'setup_cmd': 'python3-vt -m pyvc.selftest',
    'hooks': {'guard': 'ZCONFIG_VERIF',
              'enable': 'no source hooks: contracts are sidecar files under /verif/contracts; the verifier re-reads /repo/src (or $VERIF_REPO/src) on every run',
              'baseline_off_cmd': 'cd /repo && /venv/bin/python -m pytest -ra -q -p no:cacheprovider --timeout=900 --continue-on-collection-errors',
              'source_commits': [], 'add_only': True},
    'engines': [{'name': 'pyvc', 'path': 'pyvc/', 'serves_properties': sorted(claimed),
                 'kind_free_text': 'home-built contract-based deductive verifier for a Python subset: re-reads the real function bodies with ast on every run, symbolic execution against sidecar contracts (pre/post, exceptional post, loop invariants, frames, ownership), VCs discharged by z3 5.1 / cvc5 1.0.3; regular-expression obligations by leftmost-first automata for all string lengths; bounded stand-ins (labelled bounded) at the observation points'}],
    'checks': checks,
    'notes': 'See DESIGN.md. Exit codes of ./vcheck: 0 held, 1 violation (VIOLATION line + replay file), 3 checker fault. known_findings.json lists recorded genuine defects.',
    'not_applicable': na,
}
json.dump(m, open(os.path.join(HERE, 'MANIFEST.json'), 'w'), indent=1)
print('checks:', sorted(claimed))
