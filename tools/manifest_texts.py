TEXTS = {
 'C04': {
  'category': 'proof',
  'technique': 'contract-based deductive verification of substitution.py (symbolic execution of the real AST, VCs to cvc5/z3) + automaton equivalence for the name regex',
  'text': 'The real bodies of substitution._split, substitute and isname are re-read from /repo on every run and verified, for all strings and all mappings, against specification functions written from the statement (split_spec/split_err: the four constructs and the four malformed cases; subst_spec: left-to-right fold without rescanning; loop invariant prepend(result, Subst(rest)) == Subst(s) with variant len(rest)). The exceptional postconditions fix the error class, .source and .name. The regex _name_re is proved (all lengths, leftmost-first semantics) to match exactly a letter/underscore start and to end at the maximal munch, which is the assumed contract of _name_match.',
  'note': 'Assumed: os.getenv(n) returns the environment value or None; dict.get; CPython re implements leftmost-first matching; str.lower is uninterpreted (shared by code and spec); the identity clause "returned as is" is proved as equality of values, not object identity; name_len (native definition) vs the marker regex spec is cross-checked exhaustively to length 5 in the self-test. A bounded stand-in (exhaustive strings to length 6 over the 10-letter alphabet vs an independent reference) runs alongside and is reported under bounded, never as proof.',
 },
}
NOT_APPLICABLE = {}
