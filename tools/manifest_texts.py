"""Per-property manifest texts.  `proved` lists what the obligations cover; everything else the
property says is decided only by the bounded stand-in (labelled bounded in the evidence)."""

COMMON_NOTE = (' Trusted base: the home-built verifier pyvc (self-tests, mutants and the cross-check of two solver '
               'families are the mitigation), z3 5.1 / cvc5 1.0.3, CPython and its re engine; Python semantics '
               'assumed as listed in the evidence (mathematical ints, str as code-point sequences, uninterpreted '
               'str.lower/strip with stated axioms, value semantics for uniquely owned containers). The bounded '
               'stand-in compares the real code at the observation point with an independent executable reference '
               'over a stated finite input space; it is reported under coverage.bounded and never counted as proof.')


def T(category, technique, text, note):
    return {'category': category, 'technique': technique, 'text': text, 'note': note + COMMON_NOTE}


PV = 'contract-based deductive verification (pyvc: symbolic execution of the real AST against sidecar contracts, VCs to cvc5/z3)'
BOUNDED_ONLY = ('No function of this property is under a discharged contract yet: the run is decided by the bounded '
                'stand-in only (differential check of the real code against an independent executable reference at the '
                'observation point, stated bound in the evidence). Level other, not proof.')

TEXTS = {
 'C01': T('proof', PV + '; bounded stand-in for the matcher functions not yet under contract',
          'Proved for all inputs and heaps: the slot search SectionType.getsectioninfo returns the first child, in schema order, '
          'that reacts to a header (type, name) exactly as the specification slot_case/slot_search says (fixed name claims by name '
          'then type; */+ slot claims by type or registered implementer; name rule), with the loop invariant "remaining search == '
          'whole search"; the name rule isAllowedName/allowUnnamed; ismulti/issection/isabstract; gettype (unknown type rejected), '
          'getsubtype; ValueInfo.convert (ValueError -> DataConversionError). The key routing, slot filling and completion logic of '
          'matcher.py (addValue, addSection, finish) is NOT under contract yet and is decided by the bounded stand-in '
          '(150 000 generated schema/text pairs per quick run against an independent reference).',
          'Assumed: datatype and key-type callables are pure functions that return or raise ValueError; the representation '
          'invariant children_wf of section types (established by schema construction, C10) is assumed at entry. Readings where the '
          'statement is silent (DESIGN.md 4/5): slots are searched in schema order and the first slot that claims by type decides.'),
 'C02': T('other', 'bounded stand-in (differential vs independent reference); one function under contract',
          'Only ValueInfo.convert (converted value = datatype(value), conversion error carries value and position) is proved. The '
          'value tree itself (matcher.finish/constuct, SectionValue) is decided by the bounded stand-in: recursive comparison of '
          'getSectionAttributes()/values/name/type with an independent reference tree for ~110 000 accepted texts per quick run, '
          'including aliasing of default containers.',
          'Reading: the default attribute name is the normalised key name with "-" -> "_" (case of the attribute name is left '
          'unspecified by the statement).'),
 'C03': T('proof', PV + ' + leftmost-first automaton equivalence for the two line regexes (all string lengths)',
          'All 13 functions of cfgparser.ZConfigParser are verified against the line grammar written from the statement: nextline '
          '(strip, line count), the dispatch of parse (ghost assertions at every branch: skip only blank/# lines, </ closer, < opener, '
          '% directive, else key/value, with the exact slices handed on), handle_key_value (key = maximal run of non-whitespace '
          'non-parenthesis characters, absent value = "", value $-expanded, recorded with line and URL), handle_directive (exactly '
          'define/import/include, each with an argument), start_section/end_section (lower-cased type and name, empty form = open + '
          'close, stack push/pop, closer must match the innermost open type), parse (own empty stack on entry, all sections closed and '
          'input exhausted on normal exit, loop invariant and variant). The regexes _keyvalue_rx and _section_start_rx are proved, for '
          'strings of every length and with CPython\'s leftmost-first semantics, to match exactly the specified shapes and to place every '
          'group boundary where the specification primitives kv_key/kv_value/sec_type/sec_name say.',
          'Assumed: readline() returns the next line incl. its newline or ""; the interface contracts of the parser context and of '
          'section.addValue (proved separately for the real loader/matcher only where listed). The fold "whole text = sequence of '
          'line steps" is not mechanised as one theorem; the per-line contracts and the dispatch assertions carry it, and the bounded '
          'stand-in (5.6 M texts per quick run) checks it end to end.'),
 'C04': T('proof', PV + ' + automaton equivalence for the name regex',
          'The real bodies of substitution._split, substitute and isname are verified, for all strings and all mappings, against '
          'specification functions written from the statement (split_spec/split_err: the four constructs and the four malformed cases; '
          'subst_spec: left-to-right fold without rescanning; loop invariant prepend(result, Subst(rest)) == Subst(s), variant '
          'len(rest)). Exceptional postconditions fix the error class, .source and .name. The regex _name_re is proved (all lengths, '
          'leftmost-first) to match exactly a letter/underscore start and to end at the maximal munch.',
          'Assumed: os.getenv(n) is the environment value or None; dict.get; "returned as is" is proved as equality of values, not '
          'object identity.'),
 'C05': T('proof', PV,
          'handle_define is verified against DefineStep from the statement: name = lower-cased first word, legal substitution name, '
          'value expanded once with the definitions read so far, accepted iff the name is new or the NEW EXPANDED value equals the '
          'current one, namespace updated with the expanded value (whole-map postcondition), rejected with the namespace unchanged and '
          'line/URL set. ZConfigParser.__init__ keeps the defines argument BY REFERENCE and creates a fresh empty namespace only for '
          'None; handle_include passes the same dict object on; substitute looks names up lower-cased.',
          'The loader side (top-level parser gets None, included parsers the caller\'s dict: ConfigLoader.includeConfiguration/'
          '_parse_resource) is not under contract yet; "definitions never carry over between loads" and the include levels are '
          'decided by the bounded stand-in (all sequences of up to 5 define/use/include items, each run twice).'),
 'C06': T('other', PV + ' for the parser side; bounded relational stand-in for the property itself',
          'Proved code-side clauses: handle_include calls includeConfiguration(current section, urljoin(URL of the including '
          'resource, expanded argument), the same defines object); every parser starts with its own empty stack, refuses to pop below '
          'it and ends with it empty. The frame lemma "include = inlining" over the specification is not mechanised and '
          'ConfigLoader.includeConfiguration is not under contract; the property is decided by the relational stand-in '
          '(real load of the cut-up files vs real load of the inlined text, 50 000 cases per quick run).',
          'Assumed: urllib urljoin implements RFC 3986 resolution; file system.'),
 'C07': T('other', PV + ' (safety + escape obligations) for cfgparser/substitution; bounded mutation stand-in for the rest',
          'For the 13 parser functions, substitute/_split and ValueInfo.convert every primitive that can raise an internal error '
          '(subscripts, unpacking, attribute of None, dict lookup, pop, dynamic getattr dispatch, comparisons with None) is proved '
          'unable to, and the raises clauses are proved complete: only exceptions of the ConfigurationError family escape. The matcher, '
          'loader, cmdline and validator functions are not under contract yet; they are covered by the bounded stand-in (230 000 '
          'mutated texts, override lists and include graphs per quick run).',
          'Assumed: context/matcher interface contracts raise only ConfigurationError; recursion depth not modelled.'),
 'C08': T('proof', PV,
          'Proved: error() raises ConfigurationSyntaxError carrying the current line and the resource URL; replace() decorates both '
          'substitution errors with line and URL; handle_key_value, handle_define, start_section and end_section re-raise or translate '
          'every configuration error with .lineno == current line and .url == resource URL, except that a DataConversionError that '
          'already has a position (the line of the VALUE that failed) keeps it; the empty form <t/> goes through the same translation '
          'as </t>; ValueInfo stores the position it is given and convert() raises DataConversionError with exactly that position, '
          'the value and the original exception. nextline counts lines per resource.',
          'The matcher side (BaseMatcher.addValue storing the position, constuct\'s placeholders) is assumed through the interface '
          'contract Sink.addValue and checked by the bounded stand-in (46 000 single-fault injections per quick run).'),
 'C09': T('proof', PV + ' + automaton language equivalence for the regex datatypes + binding obligations on the live registry',
          'Regex datatypes (basic-key, identifier, dotted-name, dotted-suffix, ipaddr-or-hostname): the live pattern under '
          '"prefix match then compare with the whole string" accepts exactly the specified language and loses no string of its plain '
          'language - for strings of every length. Function contracts proved for all inputs: RegularExpressionConversion.__call__, '
          'BasicKeyConversion.__call__ (lower-cased), asBoolean (exactly the six words, any case), integer, '
          'RangeCheckedConversion.__call__ (in range or ValueError), SuffixMultiplier.__call__ (loop invariant over the suffix '
          'table), IpaddrOrHostname.__call__. Binding obligations tie these to the stock registry (port range 0..65535, suffix '
          'tables, default hosts, classes). inet-address, socket-address, timedelta, float, string-list are NOT under contract: '
          'bounded stand-in only (17 M strings per quick run).',
          'Assumed: int()/float() grammar is CPython\'s; socket.inet_pton defines valid IPv6. Whether a one-character host name is a '
          'host name is left open by the statement and is not compared.'),
 'C10': T('other', 'bounded stand-in only', BOUNDED_ONLY + ' 110 generated rule-satisfying schema documents, every single '
          'rule-violating edit at every position, sampled pairs.', 'xml.sax assumed.'),
 'C11': T('other', 'bounded stand-in only', BOUNDED_ONLY + ' 1600 composed-vs-expanded scenarios x 40 texts.', 'xml.sax, import system assumed.'),
 'C12': T('other', PV + ' for the slot search; bounded stand-in for %import',
          'Proved: an abstract slot takes a section iff its type name is a key of the slot type\'s implementer table '
          '(getsectioninfo/slot_case, getsubtype, hassubtype), for a fixed-name slot additionally the looked-up type must carry that '
          'name; unknown type names are rejected by gettype. The registration side (schema.start_sectiontype), the refusal of the '
          'abstract type itself (ConfigLoader.startSection) and %import (createDerivedSchema, importSchemaComponent) are not under '
          'contract: bounded stand-in (46 000 load sequences per quick run). Known finding KF-C12-import-shared is open.',
          'Import system assumed.'),
 'C13': T('other', 'bounded stand-in only', BOUNDED_ONLY + ' Sequences of up to 6 operations against one schema object vs fresh schemas, '
          'with a structural digest of the schema. Known finding KF-C13-import-shared is open.', ''),
 'C14': T('other', 'bounded stand-in only', BOUNDED_ONLY + ' 90 000 (text, overrides) pairs: real load with overrides vs real load of the '
          'hand-edited text.', ''),
 'C15': T('other', PV + ' for the parser-side clauses; bounded relational stand-in for the property',
          'Proved code-side clauses: lines are stripped, blank/# lines skipped (parse dispatch), section type, name, closer type and '
          'define names are lower-cased before use, <t/> performs exactly open + close. The specification-level lemmas (rewrites '
          'commute with Events) are not mechanised; the relational stand-in decides the property (79 000 rewritten texts per quick run).',
          ''),
 'C16': T('other', 'bounded stand-in only', BOUNDED_ONLY + ' 480 000 handler placements / maps per quick run.', ''),
 'C17': T('other', 'bounded stand-in only', BOUNDED_ONLY + ' 1.7 M texts: str() + reload must be a fixed point.', ''),
 'C18': T('other', 'bounded stand-in only', BOUNDED_ONLY + ' 75 000 loads over directory layouts x four ways of naming the resource; all strings '
          'to length 6 for the URL helpers.', 'urllib, os.path, file system assumed.'),
 'C19': T('other', 'bounded stand-in only (exhaustive fault enumeration)', BOUNDED_ONLY + ' Every single failure point over 4 504 scenarios, exhaustive.',
          ''),
 'C20': T('other', 'bounded stand-in only', BOUNDED_ONLY + ' Level spellings, handler option combinations, 1 706 formats, 2 500 operation histories.',
          'logging package assumed.'),
}
NOT_APPLICABLE = {}
