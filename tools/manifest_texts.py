"""Per-property manifest texts.  `proved` lists what the obligations cover; everything else the
property says is decided only by the bounded stand-in (labelled bounded in the evidence)."""

COMMON_NOTE = (' Trusted base: the home-built verifier pyvc (self-tests, mutants and the cross-check of two solver '
               'families are the mitigation), z3 5.1 / cvc5 1.0.3, CPython and its re engine; Python semantics '
               'assumed as listed in the evidence (mathematical ints, str as code-point sequences, uninterpreted '
               'str.lower/strip with stated axioms, value semantics for uniquely owned containers). The bounded '
               'stand-in compares the real code at the observation point with an independent executable reference '
               'over a stated finite input space; it is reported under coverage.bounded and never counted as proof.')


def T(category, technique, text, note):
    return {'category': category, 'technique': technique, 'text': text, 'note': note + COMMON_NOTE}


PV = 'contract-based deductive verification (pyvc: symbolic execution of the real AST against sidecar contracts, VCs to cvc5/z3)'
BOUNDED_ONLY = ('No function of this property is under a discharged contract yet: the run is decided by the bounded '
                'stand-in only (differential check of the real code against an independent executable reference at the '
                'observation point, stated bound in the evidence). Level other, not proof.')

STANDIN = ' The bounded stand-in (differential run of the real code against an independent executable reference, stated bound in the evidence) additionally runs on every check as a cross-check and decides the clauses listed as not under contract.'

TEXTS = {
 'C01': T('other', PV + '; bounded stand-in as a cross-check',
          'Proved for all inputs and heaps satisfying the representation invariant of section types: the slot search '
          'getsectioninfo (first child in schema order that reacts to the header; fixed name claims by name then type, */+ slot by '
          'type or registered implementer; name rule); key routing BaseMatcher.addValue (key-type normalisation, declared key or '
          'wildcard, a section name is not a key, single-valued key / wildcard entry not filled twice, value and position recorded '
          'in file order, whole-map postcondition); addSection (name reuse, single slot full); createChildMatcher / '
          'SectionMatcher.__init__ (name rule, unnamed only for *); BaseMatcher.finish (completion: raises ConfigurationError iff '
          'some child is incomplete = first_incomplete(...) >= 0, defaults filled in exactly as complete_slot says, loop invariant '
          'over the children); BaseMatcher.constuct (every collected value of every child is converted under its declared datatype, or a '
          'DataConversionError carrying a position is raised; five loops with invariants; no AttributeError / TypeError possible because '
          'unfinished matchers hold collected values only - matcher invariant MI-unconverted-until-finished); ConfigLoader.startSection (unknown or abstract type refused), endSection (finish then addSection '
          'under the header type and name), loadResource (new matcher per load, result built only after finish()). Matcher '
          'invariants (slot kinds per child kind) are proved preserved by every one of these functions.',
          'That finish() is called at most once per matcher (`not self.finished`, a ghost flag) is proved through the parser: stack '
          'invariants of ZConfigParser (containers on the stack are open and pairwise different), start_section / end_section / parse. '
          'Not mechanised: the correspondence between the interface contract ParserContext.endSection and ConfigLoader.endSection '
          '(parameter names differ). Assumed: datatype '
          'and key-type callables are pure functions that return or raise ValueError; the representation invariant of section types '
          '(children well-formed, attributes distinct, key children have a datatype and unconverted defaults) holds for schemas produced by the schema loader (proved for the info.py constructors and the element handlers of schema.py, C10).' + STANDIN),
 'C02': T('other', PV + ' for defaults / attributes / conversion / section value; bounded stand-in as a cross-check',
          'Proved: every attribute starts empty in the kind-specific shape (matcher __init__); values are recorded in file order per '
          'attribute and nothing else changes (addValue / addSection whole-map postconditions); finish() fills in the schema defaults '
          'exactly where the text gave nothing (complete_slot; wildcard-key defaults all-or-nothing) and hands constuct that state '
          '(ghost assertion at the call); getdefault returns a COPY (ownership obligation); SectionValue / createValue expose exactly '
          'the attributes of the matcher, the section name and the matcher (type); SchemaMatcher.finish applies the schema datatype '
          'to the top-level value; ValueInfo.convert = datatype(value) or DataConversionError with the value and its position; '
          'BaseMatcher.constuct: for every child the slot after conversion is conv_ok of the completed slot - a single key its converted '
          'value or None, a multikey its converted values in file order, a wildcard key / multikey the mapping with the same keys in the '
          'same order to converted value(s) (schema defaults only when the text gave no key at all), a section slot the section value '
          'passed through the datatype of the section\'s own type, a multisection those in file order; the attribute names are unchanged.',
          'The bounded stand-in (~110 000 accepted texts per quick '
          'run against an independent reference tree) cross-checks the whole tree. '
          'Attribute-name derivation (schema.get_name_info) is not under contract.' + STANDIN),
 'C03': T('proof', PV + ' + leftmost-first automaton equivalence for the two line regexes (all string lengths)',
          'All 13 functions of cfgparser.ZConfigParser are verified against the line grammar written from the statement: nextline '
          '(strip, line count), the dispatch of parse (ghost assertions at every branch: skip only blank/# lines, </ closer, < opener, '
          '% directive, else key/value, with the exact slices handed on), handle_key_value (key = maximal run of non-whitespace '
          'non-parenthesis characters, absent value = "", value $-expanded, recorded with line and URL), handle_directive (exactly '
          'define/import/include, each with an argument), start_section/end_section (lower-cased type and name, empty form = open + '
          'close, stack push/pop, closer must match the innermost open type), parse (own empty stack on entry, all sections closed and '
          'input exhausted on normal exit, loop invariant and variant). The regexes _keyvalue_rx and _section_start_rx are proved, for '
          'strings of every length and with CPython\'s leftmost-first semantics, to match exactly the specified shapes and to place every '
          'group boundary where the specification primitives kv_key/kv_value/sec_type/sec_name say.',
          'Assumed: readline() returns the next line incl. its newline or ""; the interface contracts of the parser context and of '
          'section.addValue. The fold "whole text = sequence of line steps" is carried by the per-line contracts and the dispatch '
          'assertions, not stated as one theorem.' + STANDIN),
 'C04': T('proof', PV + ' + automaton equivalence for the name regex',
          'The real bodies of substitution._split, substitute and isname are verified, for all strings and all mappings, against '
          'specification functions written from the statement (split_spec/split_err: the four constructs and the four malformed cases; '
          'subst_spec: left-to-right fold without rescanning; loop invariant prepend(result, Subst(rest)) == Subst(s), variant '
          'len(rest)). Exceptional postconditions fix the error class, .source and .name. The regex _name_re is proved (all lengths, '
          'leftmost-first) to match exactly a letter/underscore start and to end at the maximal munch. Refuted obligations are '
          'replayed natively (function-level replay harness with environment control).',
          'Assumed: os.getenv(n) is the environment value or None; dict.get; "returned as is" is proved as equality of values, not '
          'object identity.' + STANDIN),
 'C05': T('proof', PV,
          'handle_define is verified against DefineStep from the statement (name = lower-cased first word, legal substitution name, '
          'value expanded once with the definitions read so far, accepted iff the name is new or the NEW EXPANDED value equals the '
          'current one, whole-map postcondition, rejected with the namespace unchanged and line/URL set). ZConfigParser.__init__ keeps '
          'the defines argument BY REFERENCE and creates a fresh empty namespace only for None; handle_include passes the same object '
          'on; ConfigLoader.includeConfiguration and _parse_resource hand exactly that object to the nested parser (ghost assertions '
          'at the calls); ConfigLoader.loadResource starts every load with no definitions (two-argument call of _parse_resource, new '
          'matcher); substitute looks names up lower-cased.',
          'Assumed: the ParserContext interface contract between cfgparser and the loader.' + STANDIN),
 'C06': T('other', PV + ' for the code side; the inclusion lemma over the specification is not mechanised: bounded relational stand-in',
          'Proved code-side clauses: handle_include calls includeConfiguration(current section, urljoin(URL of the including '
          'resource, expanded argument), the same defines object); includeConfiguration normalises that URL, refuses a URL already '
          'on the include stack, reads the fragment INTO THE SAME SECTION with the same definitions through a new parser, restores '
          'the include stack on normal and exceptional exit and leaves no file open; every parser starts with its own empty stack, '
          'refuses to pop below it and ends with it empty.',
          'The frame lemma "include = inlining" over the specification functions is not mechanised; the property itself is decided '
          'by the relational stand-in (real load of the cut-up files vs real load of the inlined text, 50 000 cases per quick run). '
          'Assumed: urllib urljoin implements RFC 3986 resolution; file system.' + STANDIN),
 'C07': T('other', PV + ' (safety + escape obligations) for cfgparser, substitution, cmdline, matcher-facing loader functions; bounded mutation stand-in for the rest',
          'For the 13 parser functions, substitute/_split, ValueInfo.convert, all of cmdline.py, ConfigLoader (loadResource, '
          'startSection, endSection, includeConfiguration, _parse_resource), BaseLoader (openResource, loadURL, loadFile, '
          '_raise_open_error): every primitive that can raise an internal error (subscripts, unpacking arity, attribute of None, dict '
          'lookup, pop, dynamic getattr dispatch, comparisons with None, asserts, %-format arity) is proved unable to, and the raises '
          'clauses are proved complete: only ConfigurationError-family exceptions escape, plus OSError while reading a stream '
          '(environment fault) and a ValueError raised by the schema\'s own top-level datatype (allowed by the statement).',
          'Not under contract: validator.main, openPackageResource, importSchemaComponent, schema parsing: bounded stand-in '
          '(230 000 mutated texts, override lists and include graphs per quick run). Recursion depth not modelled.' + STANDIN),
 'C08': T('proof', PV,
          'Proved: error() raises ConfigurationSyntaxError carrying the current line and the resource URL; replace() decorates both '
          'substitution errors with line and URL; handle_key_value, handle_define, start_section and end_section re-raise or translate '
          'every configuration error with .lineno == current line and .url == resource URL, except that a DataConversionError that '
          'already has a line / URL (those of the VALUE that failed: ghost raised_lineno / raised_url) keeps exactly them - the '
          'parser may only fill in a missing position, never replace one; the empty form <t/> goes through the same translation as '
          '</t>; BaseMatcher.addValue stores exactly the position it is given and reports key-type errors at it; ValueInfo.convert '
          'raises DataConversionError with that position, the value and the original exception; nextline counts lines per resource; '
          'override values are fed with (line, column, source) positions.',
          'Conversion errors raised inside constuct come from ValueInfo.convert (position of the value, proved) or from a section '
          'datatype ((-1, -1, None), as the code says); the bounded stand-in injects 46 000 single faults per quick run.' + STANDIN),
 'C09': T('other', PV + ' + automaton language equivalence for the regex datatypes + binding obligations on the live registry; bounded stand-in as a cross-check',
          'Regex datatypes (basic-key, identifier, dotted-name, dotted-suffix, ipaddr-or-hostname): the live pattern under '
          '"prefix match then compare with the whole string" accepts exactly the specified language and loses no string of its plain '
          'language - for strings of every length. Function contracts proved for all inputs: RegularExpressionConversion.__call__, '
          'BasicKeyConversion.__call__ (lower-cased), asBoolean (exactly the six words, any case), integer, '
          'RangeCheckedConversion.__call__ (in range or ValueError), SuffixMultiplier.__call__ (loop invariant over the suffix '
          'table), IpaddrOrHostname.__call__, InetAddress.__call__ and SocketAddress.__init__ (host / port split with the IPv6 '
          'bracket rule, lower-cased host, default host, address family), null_conversion, string_list (exactly str.split), '
          'float_conversion, existing_directory / existing_path / existing_file / existing_dirpath (the expanded path, or '
          'ValueError, as the file system says), MemoizedConversion.__init__ / __call__ (same result as the wrapped conversion, '
          'failures not remembered; invariant: the memo holds only results of the conversion), timedelta (ValueError for the first '
          'word with a malformed number, TypeError for the first word with an unknown unit letter, ValueError for an interval out '
          'of range, else the interval of the LAST amount given per unit: loop invariant over the words with two recursive folds). '
          'Binding obligations tie these to the stock registry (port range 0..65535, suffix tables, default hosts, classes).',
          'NOT under contract: check_locale (locale module) and the Registry lookups; bounded stand-in (17 M strings per quick run) '
          'as a cross-check of all stock datatypes. Assumed: int() / float() grammar is CPython\'s; str.split; os.path.expanduser / '
          'isdir / exists / dirname describe the file system; datetime.timedelta builds the interval or raises OverflowError; '
          'socket.inet_pton defines valid IPv6.' + STANDIN),
 'C10': T('other', PV + ' for the rules enforced by the info.py constructors and by the element handlers of schema.py; SAX dispatch and XML parsing assumed; bounded stand-in for the document-level statement',
          'Proved (raised as SchemaError when the schema is built, for all inputs): occurrence bounds consistent (BaseInfo.__init__); '
          'unique key names and attribute names per container, inherited ones included (SectionType._add_child / addkey / addsection with '
          'the representation invariant "key map and attribute map cover the children", deriveSectionType copying both maps); unique type '
          'names (addtype, createSectionType); multisections named * or + and carrying an attribute (SectionInfo.__init__, '
          'start_multisection); defaults keyed exactly when the key is a wildcard, one default per key, no colliding default keys after '
          'normalisation (adddefault, add_valueinfo, computedefault = renorm_defaults fold); no default attribute on a required key '
          '(start_key; needed as precondition of addkey); keys never named *, names / attributes / handler names well-formed, '
          'attribute names derived from the key name (get_name_info, get_key_info); required is yes or no (get_required, '
          'get_ordinality); section slots name a type already defined (get_sectiontype); extends names a concrete type, implements an '
          'abstract one (start_sectiontype); abstract types get an unused well-formed name (start_abstracttype).',
          'NOT under contract: startElement / endElement / characters (nesting table, stray text), get_datatype (datatype names), '
          'start_import: bounded stand-in (110 generated rule-satisfying documents, every single rule-violating edit at every '
          'position). The handlers are verified under the precondition that the SAX dispatch put them inside the right element. '
          'Assumptions: xml.sax; key types never normalise a name to "", "*" or "+". Open findings: four KF-C10-*.' + STANDIN),

 'C11': T('other', PV + ' for the operations the composition features perform; the document-expansion lemma is not mechanised: bounded stand-in',
          'Proved: deriveSectionType(base, ...) returns a type whose children are the base children in order - the very same info objects, '
          'except wildcard keys, which are NEW objects with the same declaration whose defaults are the defaults AS WRITTEN re-normalised '
          'under the derived key type (prepare_raw_defaults keeps the written defaults once; computedefault = renorm folds; loop with '
          'copy frames) - with the base key map and attribute map, its own key type / datatype / value type, the base unchanged (frame); '
          'start_sectiontype inherits key type and datatype unless overridden (through the assumed get_sect_typeinfo), registers the '
          'type as implementer only when "implements" is written on it; prefixes compose outward (push_prefix / pop_prefix / '
          'get_classname against new_prefix); start_schema: own key type when declared or nothing to inherit, else the bases\' which '
          'must agree, and a base schema reports to the schema extending it the key type / datatype it ENDS UP with; components are '
          'recorded once (addComponent / hasComponent) and parsed with their own URL into this schema (loadComponent).',
          'The statement "behaves identically to its expansion for every text" is a lemma over these operations that is not '
          'mechanised: bounded stand-in (1600 composed-vs-expanded scenarios x 40 texts). start_import is not under contract. '
          'xml.sax, import system assumed. Open finding KF-C11-keytype-override.' + STANDIN),

 'C12': T('other', PV + ' for the slot search and the loader\'s type check; bounded stand-in for registration and %import',
          'Proved: an abstract slot takes a section iff its type name is a key of the slot type\'s implementer table '
          '(getsectioninfo/slot_case, getsubtype, hassubtype), for a fixed-name slot additionally the looked-up type must carry that '
          'name; unknown type names are rejected by gettype; ConfigLoader.startSection refuses the abstract type itself; '
          'handle_import hands the $-expanded package name to the context.',
          'The registration side (schema.start_sectiontype) and %import (createDerivedSchema, importSchemaComponent) are not under '
          'contract: bounded stand-in (46 000 load sequences per quick run). Known finding KF-C12-import-shared is open. Import '
          'system assumed.' + STANDIN),
 'C13': T('other', PV + ' (frame and ownership obligations of the load path); bounded stand-in for the history clause',
          'Proved: every function of the load path that is under contract (matcher.*, info slot search / getdefault / '
          'ValueInfo, ConfigLoader.*) writes only objects named in its modifies clause - matcher and loader state, never a field of '
          'a section type, info object or abstract type - or objects allocated by the call (frame obligation per heap write and per '
          'call); getdefault results are new containers (ownership obligation); a load creates a new matcher and a new handler list.',
          'importSchemaComponent / createDerivedSchema are not under contract (known finding KF-C13-import-shared); "equal outcome '
          'after any history" is decided by the bounded stand-in (sequences of up to 6 operations against one schema object vs fresh '
          'schemas, with a structural digest of the schema).' + STANDIN),
 'C14': T('other', PV + ' for every function of cmdline.py; the edit-equivalence lemma is not mechanised: bounded relational stand-in',
          'Proved: addOption refuses exactly specifiers without "=" or with an empty path component and records (path split at "/", '
          'value after the first "=", position) verbatim; OptionBag.__init__ sorts items into this section\'s keys (normalised by '
          'the section key type, values in the order given) and items kept for child sections (bag_split fold); get_section_info '
          'consumes exactly the items whose head equals the section NAME (case-normalised) or TYPE (basic-key), in order, heads '
          'removed (sect_taken / sect_kept folds, loop invariants); MatcherMixin.addValue drops a file line iff its NORMALISED key is '
          'overridden and otherwise behaves as BaseMatcher.addValue; createChildMatcher hands the first matching section its bag; '
          'finish_optionbag feeds every override value verbatim through BaseMatcher.addValue with (line, column, source) and '
          'finish() refuses leftovers; createSchemaMatcher wires the cooked bag to the schema matcher. Behavioural subtyping of the '
          'overriding methods is an obligation: it fails for createChildMatcher = known finding KF-C14-override-imported-type.',
          'The lemma "override = edit of the text" over the specification is not mechanised: relational stand-in (90 000 (text, '
          'overrides) pairs, real load with overrides vs real load of the hand-edited text).' + STANDIN),
 'C15': T('other', PV + ' for the parser-side clauses; bounded relational stand-in for the property',
          'Proved code-side clauses: lines are stripped, blank/# lines skipped (parse dispatch), section type, name, closer type and '
          'define names are lower-cased before use, <t/> performs exactly open + close. The specification-level lemmas (rewrites '
          'commute with Events) are not mechanised; the relational stand-in decides the property (79 000 rewritten texts per quick run).',
          '' + STANDIN),
 'C16': T('other', PV + ' for CompositeHandler, the handler-list plumbing and the number of entries; names / values of the per-item entries are decided by the bounded stand-in',
          'Proved: CompositeHandler.__call__ (three loops with invariants): names normalised with the registry\'s basic-key '
          'conversion (norm_map fold), ConfigurationError before any call iff two names normalise to the same key or some entry\'s '
          'name is unmapped, otherwise every entry\'s callable is invoked exactly once, in entry order, with the entry\'s value, '
          'entries mapped to None skipped (ghost call log GHOST.calls == old + calls_from(...)); if a handler raises, the calls made '
          'are a prefix; __len__ == number of entries; child matchers share the parent\'s handler list object; '
          'SchemaMatcher.finish appends the schema-level entry last with the converted top-level value; loadResource builds the '
          'composite handler over the handler list of this load. Binding obligation: Registry().get("basic-key") is the stock '
          'basic-key conversion.',
          'constuct / finish / SchemaMatcher.finish are proved to append exactly one entry per handler-bearing child of the type '
          '(handler_count fold; the earlier entries stay a prefix) plus the schema-level one; WHICH name and value each of those '
          'entries carries (schema order, value identical to the tree\'s) is decided by the bounded stand-in (480 000 handler '
          'placements / maps per quick run).' + STANDIN),
 'C17': T('other', PV + ' for the loader side; the serialiser Section.__str__ is not under contract: bounded stand-in decides the round trip',
          'Proved: the schema-less context records what the parser delivers - addValue appends the value to the list of its key in file '
          'order and changes nothing else, startSection creates an empty section of the given (lower-cased) type and name and appends it '
          'to its container in file order; %define and %include are refused (NotImplementedError), never dropped; the parser-side '
          'clauses the round trip relies on (start_section / end_section / handle_key_value: header shape, empty form, key = maximal '
          'run) are the C03 obligations.',
          'Section.__str__ and the round-trip lemma are not under contract: bounded stand-in (1.7 M texts: str() + reload must be a '
          'fixed point).' + STANDIN),

 'C18': T('other', PV + ' for the URL helpers and every join site; urllib and the file system assumed; bounded stand-in',
          'Proved: url.urlnormalize / urldefrag / urljoin produce the file:/// form (spec file3) and nothing else changes; isPath(s) iff s '
          'has no RFC 3986 scheme or a one-letter one (automaton equivalence for _pathsep_rx); normalizeURL turns a path into "file://" + '
          'pathname2url(abspath(path)), returns the fragment-free URL and raises ConfigurationError iff there is a fragment; '
          '_url_from_file gives no URL for unnamed or <pseudo> files; the parser URL is the URL of its resource; %include is joined '
          'against it (handle_include), schema extends references against the URL of the schema that contains them (start_schema), and '
          'a base schema / component is parsed with ITS OWN url (extendSchema, loadComponent: ghost assertions at the constructor calls).',
          'The agreement of the four ways of naming a file is a consequence of ASSUMED contracts (urllib, os.path, file system); '
          'start_import (import src) is not under contract: bounded stand-in (75 000 loads over directory layouts x four ways of '
          'naming the resource).' + STANDIN),

 'C19': T('other', PV + ' with a ghost counter of open files; SchemaLoader.loadResource / start_import not under contract: exhaustive fault enumeration stand-in',
          'Proved with the ghost GHOST.open_files (every open adds 1, every close of an open file subtracts 1): Resource.close / '
          '__exit__ close the file once; openResource returns exactly one new open resource and closes the raw URL stream on every '
          'path (read failure, decode failure); loadURL, loadFile, ConfigLoader.loadResource, includeConfiguration, _parse_resource, '
          'the parser functions on the way (parse, handle_directive, handle_include, handle_import), SchemaParser.extendSchema and '
          'BaseParser.loadComponent leave the counter unchanged on normal AND on every exceptional exit (loadFile additionally closes '
          'the caller\'s file); includeConfiguration restores its include stack on every exit ("leaves nothing behind").',
          'SchemaLoader.loadResource (cache), schema.parseResource / parseComponent, importSchemaComponent, start_import are not under '
          'contract (assumed interface contract of the context; xml.sax.parse assumed to leave the counter unchanged): bounded '
          'stand-in enumerates every single failure point over 4 504 scenarios. Known finding KF-C19-loader-reuse.' + STANDIN),

 'C20': T('other', PV + ' for level names, create-once factories, <logfile> option checking, the reopen / close registry and logger set-up; logging package assumed; bounded stand-in for formats',
          'Proved: logging_level maps exactly the documented names (any letter case) to the documented numbers and otherwise accepts '
          'exactly integers 0..50; Factory.__call__ calls create() at most once and returns the same object thereafter (ghost '
          'creation counter); FileHandlerFactory.__init__ raises ValueError exactly for the refused option combinations; '
          'LoggerFactoryBase.create returns THE logger of the configured name with the configured level, has called every handler '
          'factory and adds at most one handler per handler section; LoggerFactory.create sets the propagate flag; reopenFiles acts on '
          'exactly the handlers still alive among the registered weak references, once each, in order (ghost log), over a snapshot of '
          'the registry; closeFiles empties the registry; _remove_from_reopenable removes a reference once or ignores it.',
          'Not decided by contracts (DESIGN 7): formatter rendering / format validation, the order of the handlers of a logger, '
          'effects on streams, the handler classes with *args / **kw constructors, the logging package itself: bounded stand-in '
          '(level spellings, handler option combinations, 1 706 formats, 2 500 operation histories). Two known findings open.' + STANDIN),

}
NOT_APPLICABLE = {}
