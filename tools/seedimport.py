"""dev: import confirmed seeded changes produced by independent sub-agents (each worked in its own
scratch worktree with only the property text) into /verif/seeded/<id>/.
usage: python3 tools/seedimport.py <outdir> <seed-id> <property> [--needs "..."]"""
import json, os, shutil, subprocess, sys
HERE = os.path.dirname(os.path.dirname(os.path.abspath(__file__)))
src, sid, prop = sys.argv[1:4]
dst = os.path.join(HERE, 'seeded', sid)
os.makedirs(dst, exist_ok=True)
for f in ('patch.diff', 'demo.py'):
    shutil.copy(os.path.join(src, f), os.path.join(dst, f))
notes = open(os.path.join(src, 'notes.md')).read() if os.path.exists(os.path.join(src, 'notes.md')) else ''
r = subprocess.run([sys.executable, os.path.join(HERE, 'tools', 'seedcheck.py'), dst, prop, '--confirm-only'],
                   capture_output=True, text=True)
txt = r.stdout[r.stdout.index('{'):]
conf = json.loads(txt)
files = sorted(set(l[6:].strip() for l in open(os.path.join(dst, 'patch.diff')) if l.startswith('+++ b/')))
meta = {'id': sid, 'property': prop, 'origin': 'independent sub-agent given only the property text and a scratch worktree',
        'files_changed': files, 'what_it_is_and_what_it_needs_to_manifest': notes.strip(),
        'confirmed': conf.get('confirmed'),
        'what_was_run': {
            'apply': 'git apply patch.diff on a scratch worktree of /repo HEAD (tools/seedcheck.py)',
            'test_suite_on_changed_tree': conf.get('tests'),
            'demo_exit_on_changed_tree': conf.get('demo_changed_exit'),
            'demo_exit_on_unchanged_tree': conf.get('demo_unchanged_exit'),
            'demo_output_on_changed_tree': conf.get('demo_changed_tail')},
        'detection': 'see seeded/RESULTS.json (written by tools/seedrun.py)'}
json.dump(meta, open(os.path.join(dst, 'meta.json'), 'w'), indent=1, ensure_ascii=False)
print(sid, 'confirmed' if meta['confirmed'] else 'NOT CONFIRMED', files)
