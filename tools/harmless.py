"""Self-test (DESIGN 10.7): property-preserving edits of the tree must NOT raise an alarm.
usage: python3 tools/harmless.py [edit-id ...]      -> writes seeded/HARMLESS.json
Each edit is applied to a scratch copy of /repo/src (never to /repo); the repository's test suite must
still pass on it; then ./vcheck <property> runs against the copy.  Expected: exit 0 (obligations that
can no longer be generated or discharged are `undecided`, the bounded stand-in decides)."""
import json, os, re, shutil, subprocess, sys, tempfile
HERE = os.path.dirname(os.path.dirname(os.path.abspath(__file__)))

# id: (file under src/ZConfig, [(regex, replacement, count)], [properties], what)
EDITS = {
    'H01-split-suffix-none': ('substitution.py', [(r"return s\[:i \+ 1\], None, None, s\[i \+ 2:\], None",
                                                   "return s[:i + 1], None, None, (s[i + 2:] or None), None", 1)], ['C04', 'C05'],
                              "_split returns None instead of '' as the rest after a trailing '$$' (substitute stops either way)"),
    'H02-rename-loop-local': ('substitution.py', [(r'\brest\b', 'tail', 0)], ['C04'], 'local renamed'),
    'H03-cfg-rename-local': ('cfgparser.py', [(r'\bline\b', 'ln', 0)], ['C03'], 'local renamed in parse()'),
    'H04-matcher-rename-local': ('matcher.py', [(r'\brealkey\b', 'rkey', 0)], ['C01'], 'local renamed in addValue()'),
    'H05-comment-shift': ('matcher.py', [(r'^import ZConfig\n', '# a comment\n# another\n\nimport ZConfig\n', 1)], ['C02'],
                          'comment lines added: every line number below shifts'),
    'H06-error-text': ('cfgparser.py', [(r'"malformed section header"', '"badly formed section header"', 1)], ['C03', 'C08'],
                       'wording of a syntax-error message changed'),
    'H07-swap-independent': ('info.py', [(r'(        self\.value = value\n)((?:        #.*\n)*)(        self\.position = position\n)',
                                          r'\3\2\1', 1)], ['C08'], 'two independent assignments of ValueInfo.__init__ swapped'),
    'H08-iterate-pairs': ('matcher.py', [(r'        for i in range\(len\(self\.type\)\):\n            k, ci = self\.type\[i\]\n',
                                          '        for k, ci in self.type:\n', 1)], ['C01'],
                          'index loop in addValue rewritten as iteration over the pairs'),
    'H09-early-return': ('datatypes.py', [(r'(def asBoolean\(s\):\n(?:    """.*?"""\n)?)', r'\1    s = str(s)\n', 1)], ['C09'],
                         'asBoolean converts its argument to str first (it already is one)'),
    'H10-url-local': ('loader.py', [(r'\bpathname\b', 'fspath', 0)], ['C18'], 'local renamed in loader.py'),
    'H11-constuct-rename-local': ('matcher.py', [(r'\bst\b', 'sdef', 0)], ['C02'], 'local renamed in constuct()'),
    'H12-constuct-extra-if': ('matcher.py', [(r'(            attr = ci\.attribute\n)(            if ci\.ismulti\(\):\n                if ci\.issection\(\):\n                    v = \[\]\n)',
                                              r'\1            if attr is None:  # defensive\n                continue\n\2', 1)], ['C02', 'C16'],
                              'a defensive (dead) test inserted in the loop of constuct(): statement ordinals used by the ghost assertions shift'),
    'H13-parser-rename-local': ('cfgparser.py', [(r'\bprevsection\b', 'outer', 0)], ['C03', 'C07'], 'local renamed in end_section()'),
}


def main():
    want = sys.argv[1:]
    outp = os.path.join(HERE, 'seeded', 'HARMLESS.json')
    results = json.load(open(outp)) if os.path.exists(outp) else {}
    for name, (f, subs, props, what) in EDITS.items():
        if want and name not in want:
            continue
        d = tempfile.mkdtemp(prefix='zc_h_')
        try:
            shutil.copytree('/repo/src', os.path.join(d, 'src'))
            p = os.path.join(d, 'src', 'ZConfig', f)
            s = open(p).read()
            s0 = s
            for a, b, n in subs:
                s = re.sub(a, b, s, count=n, flags=re.M | re.S)
            rec = {'file': f, 'what': what, 'applied': s != s0, 'checks': {}}
            open(p, 'w').write(s)
            r = subprocess.run(['/venv/bin/python', '-m', 'pytest', '-q', '-p', 'no:cacheprovider', os.path.join(d, 'src')],
                               env=dict(os.environ, PYTHONPATH=os.path.join(d, 'src')), capture_output=True, text=True, cwd=d)
            tail = [l for l in r.stdout.splitlines() if ' passed' in l][-1:]
            rec['tests'] = tail[0] if tail else r.stdout[-200:]
            env = dict(os.environ, VERIF_REPO=d)
            for pr in props:
                r = subprocess.run(['./vcheck', pr, '--tier', 'quick'], cwd=HERE, env=env, capture_output=True, text=True)
                lines = [l for l in r.stdout.splitlines() if not l.startswith('WARNING')]
                rec['checks'][pr] = {'exit': r.returncode, 'summary': lines[0] if lines else '',
                                     'notes': [l.strip()[:260] for l in lines[1:6]]}
                print(name, pr, 'exit', r.returncode, '|', (lines[0] if lines else '')[:100], flush=True)
                for l in lines[1:4]:
                    print('    ', l.strip()[:220])
            rec['ok'] = rec['applied'] and all(c['exit'] == 0 for c in rec['checks'].values())
            results[name] = rec
            json.dump(results, open(outp, 'w'), indent=1, ensure_ascii=False)
        finally:
            shutil.rmtree(d)


if __name__ == '__main__':
    main()
