"""dev / self-test: confirm a seeded change and run checks against it on a scratch worktree.

usage: python3 tools/seedcheck.py <dir with patch.diff + demo.py> <prop> [<prop> ...] [--confirm-only]

1. scratch git worktree of /repo HEAD outside /repo and /verif, patch applied;
2. repository test suite on it (must still be 353 passed, only test_schema_only failing);
3. the demonstration: exit 1 on the changed tree, exit 0 on /repo;
4. ./vcheck <prop> with VERIF_REPO=<scratch>, once without the bounded stand-in (which named
   obligation fails?) and once with it;
5. the worktree is removed.
Prints one JSON object."""
import json
import os
import re
import subprocess
import sys
import tempfile

HERE = os.path.dirname(os.path.dirname(os.path.abspath(__file__)))
PY = '/venv/bin/python'


def run(cmd, env=None, cwd=None, timeout=3600):
    e = dict(os.environ)
    if env:
        e.update(env)
    p = subprocess.run(cmd, capture_output=True, text=True, env=e, cwd=cwd, timeout=timeout)
    return p.returncode, p.stdout, p.stderr


def main():
    args = [a for a in sys.argv[1:] if not a.startswith('--')]
    confirm_only = '--confirm-only' in sys.argv
    d = os.path.abspath(args[0])
    props = args[1:]
    out = {'dir': d}
    wt = tempfile.mkdtemp(prefix='zc_seed_')
    os.rmdir(wt)
    rc, o, e = run(['git', '-C', '/repo', 'worktree', 'add', '--detach', wt, 'HEAD'])
    assert rc == 0, e
    try:
        rc, o, e = run(['git', '-C', wt, 'apply', os.path.join(d, 'patch.diff')])
        out['applies'] = rc == 0
        if rc != 0:
            out['apply_err'] = e[-500:]
            return out
        rc, o, e = run([PY, '-m', 'pytest', '-q', '-p', 'no:cacheprovider'],
                       env={'PYTHONPATH': os.path.join(wt, 'src')}, cwd=wt)
        tail = [l for l in o.splitlines() if ' passed' in l][-1:]
        failed = [l for l in o.splitlines() if l.startswith('FAILED')]
        out['tests'] = tail[0] if tail else o[-300:]
        # the pinned baseline: 353 pass, test_validator::test_schema_only fails for environmental reasons
        out['tests_ok'] = bool(re.search(r'\b353 passed', out['tests'])) and all('test_schema_only' in l for l in failed)
        rc1, o1, e1 = run([PY, os.path.join(d, 'demo.py')], env={'PYTHONPATH': os.path.join(wt, 'src')}, cwd='/tmp')
        rc0, o0, e0 = run([PY, os.path.join(d, 'demo.py')], env={'PYTHONPATH': '/repo/src'}, cwd='/tmp')
        out['demo_changed_exit'] = rc1
        out['demo_unchanged_exit'] = rc0
        out['demo_changed_tail'] = (o1 + e1)[-400:]
        out['confirmed'] = bool(out['tests_ok'] and rc1 == 1 and rc0 == 0)
        if confirm_only:
            return out
        out['checks'] = {}
        for p in props:
            res = {}
            for mode, extra in (('obligations-only', ['--no-standin']), ('with-standin', [])):
                rc, o, e = run([os.path.join(HERE, 'vcheck'), p, '--tier', 'quick'] + extra,
                               env={'VERIF_REPO': wt}, cwd=HERE)
                lines = [l for l in o.splitlines() if not l.startswith('WARNING')]
                res[mode] = {'exit': rc, 'summary': lines[0] if lines else '',
                             'violations': [l for l in lines if l.startswith('VIOLATION') or l.startswith('   ')][:8],
                             'undecided': [l for l in lines if 'UNDECIDED' in l][:6],
                             'faults': [l for l in lines if 'FAULT' in l][:4] + ([e[-300:]] if rc not in (0, 1) else [])}
                if mode == 'obligations-only' and rc == 1:
                    res['with-standin'] = 'skipped (already caught by a named obligation)'
                    break
            out['checks'][p] = res
        return out
    finally:
        run(['git', '-C', '/repo', 'worktree', 'remove', '--force', wt])
        print(json.dumps(out, indent=1))


if __name__ == '__main__':
    main()
