"""dev: python3-vt tools/dump.py <qualname> <substring of obligation id> -> writes /tmp/ob_<n>.smt2 (full, light, coi)"""
import sys, os
sys.path.insert(0, os.path.dirname(os.path.dirname(os.path.abspath(__file__))))
from pyvc.executor import Executor
from pyvc import backend, check
check.load_contracts()
ex = Executor()
rep = ex.generate(sys.argv[1])
n = 0
for ob in rep.obligations:
    if sys.argv[2] in ob.id:
        for kind, f in (('full', ob.formula()), ('light', ob.formula(light=True)), ('coi', ob.formula_coi())):
            path = '/tmp/ob_%d_%s.smt2' % (n, kind)
            open(path, 'w').write(backend.to_smt2(f))
            print(path, ob.id, len(f), 'terms')
        if '-p' in sys.argv:
            for t in ob.pc:
                print('  PC', str(t)[:300].replace('\n', ' '))
            print('  CLAIM', str(ob.claim)[:6000])
        n += 1
