"""dev: (re)generate the table of DESIGN.md section 10.5 from seeded/RESULTS.json and seeded/*/meta.json.
usage: python3 tools/seedtable.py          -> rewrites the text between the two markers in DESIGN.md"""
import json, os, re
HERE = os.path.dirname(os.path.dirname(os.path.abspath(__file__)))
res = json.load(open(os.path.join(HERE, 'seeded', 'RESULTS.json')))
rows = []
tally = {}
for sid in sorted(res):
    r = res[sid]
    mp = os.path.join(HERE, 'seeded', sid, 'meta.json')
    if not os.path.exists(mp):
        continue
    meta = json.load(open(mp))
    files = ', '.join(os.path.basename(f) for f in meta.get('files_changed', []))
    notes = meta.get('what_it_is_and_what_it_needs_to_manifest', '')
    by = r.get('caught_by', '?')
    tally[by] = tally.get(by, 0) + 1
    what = ''
    ob = r.get('obligations_only') or {}
    ws = r.get('with_standin')
    if by == 'named obligation':
        v = [l.strip() for l in ob.get('violations', []) if not l.startswith('VIOLATION')]
        ids = []
        for l in v:
            m = re.match(r'([\w.]+#[^@ ]+)', l)
            if m and m.group(1) not in ids:
                ids.append(m.group(1))
        what = '; '.join('`%s`' % i for i in ids[:3]) + (' (+%d)' % (len(ids) - 3) if len(ids) > 3 else '')
        n_input = sum(1 for l in ob.get('violations', []) if l.startswith('VIOLATION') and 'no-failing-input-found' not in l)
        what += ' - %s' % ('with a failing input replayed on the real code' if n_input else 'no-failing-input-found')
    elif by == 'bounded stand-in only':
        v = [l.strip() for l in (ws or {}).get('violations', []) if not l.startswith('VIOLATION')]
        what = (v[0][:140] if v else '') + ' - obligations: ' + '; '.join(
            json.loads(u.split('UNDECIDED', 1)[1]).get('reason', '')[:90] for u in ob.get('undecided', [])[:1]) \
            if ob.get('undecided') else (v[0][:160] if v else '')
    else:
        what = 'not detected'
    rows.append('| %s | %s | %s | %s |' % (sid, files, by, what.replace('|', '\\|')))
txt = ['<!-- seedtable:begin -->',
       '| seed | file(s) changed | caught by | failing obligation(s) / stand-in signature |',
       '|---|---|---|---|'] + rows + ['',
       'Totals: ' + ', '.join('%s: %d' % kv for kv in sorted(tally.items())) + ' (of %d confirmed seeded changes).' % len(rows),
       '<!-- seedtable:end -->']
p = os.path.join(HERE, 'DESIGN.md')
s = open(p).read()
if '<!-- seedtable:begin -->' in s:
    s = re.sub(r'<!-- seedtable:begin -->.*?<!-- seedtable:end -->', lambda m: '\n'.join(txt), s, flags=re.S)
else:
    s = s.replace('### 10.6 Known findings', '\n'.join(txt) + '\n\n### 10.6 Known findings', 1)
open(p, 'w').write(s)
print('\n'.join(txt[-3:]))
