"""Self-test (DESIGN 3.5): run the checks against every seeded change under /verif/seeded/.
usage: python3 tools/seedrun.py [seed-id ...]     -> writes seeded/RESULTS.json
Each seed is applied to a scratch worktree (never to /repo), confirmed (test suite + demonstration)
and checked with ./vcheck <property>, first obligations only, then with the bounded stand-in."""
import json, os, subprocess, sys
HERE = os.path.dirname(os.path.dirname(os.path.abspath(__file__)))
SEEDS = os.path.join(HERE, 'seeded')
want = sys.argv[1:]
resp = os.path.join(SEEDS, 'RESULTS.json')
results = json.load(open(resp)) if os.path.exists(resp) else {}
for sid in sorted(os.listdir(SEEDS)):
    d = os.path.join(SEEDS, sid)
    if not os.path.isdir(d) or (want and sid not in want):
        continue
    meta = json.load(open(os.path.join(d, 'meta.json')))
    r = subprocess.run([sys.executable, os.path.join(HERE, 'tools', 'seedcheck.py'), d, meta['property']],
                       capture_output=True, text=True)
    try:
        out = json.loads(r.stdout[r.stdout.index('{'):])
    except Exception:
        results[sid] = {'error': (r.stdout + r.stderr)[-500:]}
        continue
    chk = out.get('checks', {}).get(meta['property'], {})
    ob = chk.get('obligations-only', {})
    ws = chk.get('with-standin')
    caught_by = 'named obligation' if ob.get('exit') == 1 else (
        'bounded stand-in only' if isinstance(ws, dict) and ws.get('exit') == 1 else 'MISSED')
    results[sid] = {'property': meta['property'], 'confirmed': out.get('confirmed'), 'caught_by': caught_by,
                    'obligations_only': {'exit': ob.get('exit'), 'summary': ob.get('summary'),
                                         'violations': ob.get('violations', [])[:6], 'undecided': ob.get('undecided', [])[:3],
                                         'faults': ob.get('faults', [])[:2]},
                    'with_standin': ws if isinstance(ws, str) else {'exit': ws.get('exit'), 'summary': ws.get('summary'),
                                                                    'violations': ws.get('violations', [])[:6]} if ws else None}
    print(sid, caught_by, '|', (ob.get('summary') or '')[:90], flush=True)
    json.dump(results, open(resp, 'w'), indent=1, ensure_ascii=False)
