"""Contracts for ZConfig/datatypes.py (property C09; key normalisers also C01/C14/C16)."""
from pyvc.api import Clause, Loop, Raise, assumed, contract, inline, model, prim, spec_module
import spec.dt as D

spec_module(D)

# --- assumed: built-ins -----------------------------------------------------
prim('int_ok', 'str -> bool', native=D.int_ok)
prim('int_of', 'str -> int', native=D.int_of)
assumed('builtins.int', params={'x': 'str'}, returns='int', pure=True,
        ensures=[Clause('result == int_of(x)')],
        raises=[Raise('ValueError', when='not int_ok(x)')],
        notes="int(str) returns an int or raises ValueError; its accepted grammar is CPython's")

# --- regular-expression conversions --------------------------------------------
model('re.Pattern', fields={}, external=True)
model('rxmatch:any', fields={'g_0': 'str', 'end': 'int'}, external=True)
prim('rx_whole', 'Ref[re.Pattern], str -> bool',
     native=lambda rx, s: (lambda m: bool(m) and m.group() == s)(rx.match(s)))
assumed('re.Pattern.match', params={'self': 'Ref[re.Pattern]', 'string': 'str'},
        returns='Opt[Ref[rxmatch:any]]', fresh_result=True,
        ensures=[Clause('rx_whole(self, string) == (result is not None and result.g_0 == string)')],
        notes='definition of rx_whole: "prefix match whose text is the whole string"; which strings that '
              'is for each stock pattern is decided by the automaton obligations rx:datatypes.*')

model('datatypes.RegularExpressionConversion', fields={'_rx': 'Ref[re.Pattern]'})
contract('datatypes.RegularExpressionConversion.__call__',
         params={'value': 'str'}, returns='str',
         ensures=[Clause('result == value', carries='C09', label='returns-input')],
         raises=[Raise('ValueError', when='not rx_whole(self._rx, value)', carries='C09', label='no-match')])

contract('datatypes.BasicKeyConversion.__call__',
         params={'value': 'str'}, returns='str',
         ensures=[Clause('result == value.lower()', carries='C09', label='lower-cased')],
         raises=[Raise('ValueError', when='not rx_whole(self._rx, value)', carries='C09', label='no-match')])

# --- boolean -------------------------------------------------------------------------
contract('datatypes.asBoolean', params={'s': 'str'}, returns='bool',
         ensures=[Clause('result == (bool_spec(s.lower()) == 1)', carries='C09', label='truth-words')],
         raises=[Raise('ValueError', when='bool_spec(s.lower()) == 0', carries='C09', label='not-a-boolean')])

# --- integer and range check -----------------------------------------------------------
contract('datatypes.integer', params={'value': 'str'}, returns='int',
         ensures=[Clause('result == int_of(value)', carries='C09')],
         raises=[Raise('ValueError', when='not int_ok(value)', carries='C09', label='not-int')])

prim('conv_raises', 'Fun[conv_int], str -> bool')
prim('conv_val', 'Fun[conv_int], str -> int')
assumed('fun:conv_int', params={'fn': 'Fun[conv_int]', 'x': 'str'}, returns='int', pure=True,
        ensures=[Clause('result == conv_val(fn, x)')],
        raises=[Raise('ValueError', when='conv_raises(fn, x)')],
        notes='an integer-valued conversion function: returns or raises ValueError')
model('datatypes.RangeCheckedConversion',
      fields={'_min': 'Opt[int]', '_max': 'Opt[int]', '_conversion': 'Fun[conv_int]'})
contract('datatypes.RangeCheckedConversion.__call__',
         params={'value': 'str'}, returns='int',
         ensures=[Clause('result == conv_val(self._conversion, value)', carries='C09', label='value'),
                  Clause('in_range(result, self._min, self._max)', carries='C09', label='in-range')],
         raises=[Raise('ValueError',
                       when='conv_raises(self._conversion, value) or '
                            'not in_range(conv_val(self._conversion, value), self._min, self._max)',
                       carries='C09', label='out-of-range-or-unconvertible')])

# --- suffix multipliers (byte-size, time-interval) --------------------------------------
model('datatypes.SuffixMultiplier',
      fields={'_d': 'Map[str,int]', '_default': 'int', '_keysz': 'int'},
      invariant=[Clause('self._keysz >= 1', label='keysz-positive'),
                 Clause('forall(lambda j: implies(0 <= j and j < len(keys(self._d)), '
                        'len(keys(self._d)[j]) == self._keysz))', label='keys-same-size')])
contract('datatypes.SuffixMultiplier.__call__',
         params={'v': 'str'}, returns='int',
         ensures=[Clause('implies(v.lower()[-self._keysz:] in self._d, '
                         'result == int_of(v.lower()[:-self._keysz]) * self._d[v.lower()[-self._keysz:]])',
                         carries='C09', label='suffix-multiplies'),
                  Clause('implies(v.lower()[-self._keysz:] not in self._d, '
                         'result == int_of(v.lower()) * self._default)', carries='C09', label='no-suffix-default')],
         raises=[Raise('ValueError',
                       when='(v.lower()[-self._keysz:] in self._d and not int_ok(v.lower()[:-self._keysz])) or '
                            '(v.lower()[-self._keysz:] not in self._d and not int_ok(v.lower()))',
                       carries='C09', label='not-an-integer')],
         loops=[Loop(invariant=[Clause('forall(lambda j: implies(0 <= j and j < _i0, '
                                       'keys(self._d)[j] != v[-self._keysz:]))', label='no-earlier-suffix')],
                     locals={})])

# --- ipaddr-or-hostname ---------------------------------------------------------------------
prim('ipv6_ok', 'str -> bool',
     native=lambda s: __import__('pyvc.natives', fromlist=['x']).ipv6_ok(s))
assumed('socket.inet_pton', params={'family': 'Opaque[AddressFamily]', 'addr': 'str'}, returns='Opaque[bytes]',
        raises=[Raise('OSError', when='not ipv6_ok(addr)')],
        notes='socket.inet_pton(AF_INET6, s) succeeds iff s is a valid IPv6 text: this DEFINES validity (C09)')
contract('datatypes.IpaddrOrHostname.__call__',
         params={'value': 'str'}, returns='str',
         ensures=[Clause('result == value.lower()', carries='C09', label='lower-cased')],
         raises=[Raise('ValueError',
                       when="not rx_whole(self._rx, value) or (':' in value.lower() and not ipv6_ok(value.lower()))",
                       carries='C09', label='rejects')])
