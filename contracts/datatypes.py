"""Contracts for ZConfig/datatypes.py (property C09; key normalisers also C01/C14/C16)."""
from pyvc.api import Clause, Loop, Raise, assumed, contract, inline, model, prim, spec_module
import spec.dt as D

spec_module(D)

# --- assumed: built-ins -----------------------------------------------------
prim('int_ok', 'str -> bool', native=D.int_ok)
prim('int_of', 'str -> int', native=D.int_of)
assumed('builtins.int', params={'x': 'str'}, returns='int', pure=True,
        ensures=[Clause('result == int_of(x)')],
        raises=[Raise('ValueError', when='not int_ok(x)')],
        notes="int(str) returns an int or raises ValueError; its accepted grammar is CPython's")

# --- regular-expression conversions --------------------------------------------
model('re.Pattern', fields={}, external=True)
model('rxmatch:any', fields={'g_0': 'str', 'end': 'int'}, external=True)
prim('rx_whole', 'Ref[re.Pattern], str -> bool',
     native=lambda rx, s: (lambda m: bool(m) and m.group() == s)(rx.match(s)))
assumed('re.Pattern.match', params={'self': 'Ref[re.Pattern]', 'string': 'str'},
        returns='Opt[Ref[rxmatch:any]]', fresh_result=True,
        ensures=[Clause('rx_whole(self, string) == (result is not None and result.g_0 == string)')],
        notes='definition of rx_whole: "prefix match whose text is the whole string"; which strings that '
              'is for each stock pattern is decided by the automaton obligations rx:datatypes.*')

model('datatypes.RegularExpressionConversion', fields={'_rx': 'Ref[re.Pattern]'})
contract('datatypes.RegularExpressionConversion.__call__',
         params={'value': 'str'}, returns='str',
         ensures=[Clause('result == value', carries='C09,C10', label='returns-input')],
         raises=[Raise('ValueError', when='not rx_whole(self._rx, value)', carries='C09,C10', label='no-match')])

contract('datatypes.BasicKeyConversion.__call__',
         params={'value': 'str'}, returns='str',
         ensures=[Clause('result == value.lower()', carries='C09,C10', label='lower-cased')],
         raises=[Raise('ValueError', when='not rx_whole(self._rx, value)', carries='C09,C10', label='no-match')])

# --- boolean -------------------------------------------------------------------------
contract('datatypes.asBoolean', params={'s': 'str'}, returns='bool',
         ensures=[Clause('result == (bool_spec(s.lower()) == 1)', carries='C09', label='truth-words')],
         raises=[Raise('ValueError', when='bool_spec(s.lower()) == 0', carries='C09', label='not-a-boolean')])

# --- integer and range check -----------------------------------------------------------
contract('datatypes.integer', params={'value': 'str'}, returns='int',
         ensures=[Clause('result == int_of(value)', carries='C09')],
         raises=[Raise('ValueError', when='not int_ok(value)', carries='C09', label='not-int')])

prim('conv_raises', 'Fun[conv_int], str -> bool')
prim('conv_val', 'Fun[conv_int], str -> int')
assumed('fun:conv_int', params={'fn': 'Fun[conv_int]', 'x': 'str'}, returns='int', pure=True,
        ensures=[Clause('result == conv_val(fn, x)')],
        raises=[Raise('ValueError', when='conv_raises(fn, x)')],
        notes='an integer-valued conversion function: returns or raises ValueError')
model('datatypes.RangeCheckedConversion',
      fields={'_min': 'Opt[int]', '_max': 'Opt[int]', '_conversion': 'Fun[conv_int]'})
contract('datatypes.RangeCheckedConversion.__call__',
         params={'value': 'str'}, returns='int',
         ensures=[Clause('result == conv_val(self._conversion, value)', carries='C09', label='value'),
                  Clause('in_range(result, self._min, self._max)', carries='C09', label='in-range')],
         raises=[Raise('ValueError',
                       when='conv_raises(self._conversion, value) or '
                            'not in_range(conv_val(self._conversion, value), self._min, self._max)',
                       carries='C09', label='out-of-range-or-unconvertible')])

# --- suffix multipliers (byte-size, time-interval) --------------------------------------
model('datatypes.SuffixMultiplier',
      fields={'_d': 'Map[str,int]', '_default': 'int', '_keysz': 'int'},
      invariant=[Clause('self._keysz >= 1', label='keysz-positive'),
                 Clause('forall(lambda j: implies(0 <= j and j < len(keys(self._d)), '
                        'len(keys(self._d)[j]) == self._keysz))', label='keys-same-size')])
contract('datatypes.SuffixMultiplier.__call__',
         params={'v': 'str'}, returns='int',
         ensures=[Clause('implies(v.lower()[-self._keysz:] in self._d, '
                         'result == int_of(v.lower()[:-self._keysz]) * self._d[v.lower()[-self._keysz:]])',
                         carries='C09', label='suffix-multiplies'),
                  Clause('implies(v.lower()[-self._keysz:] not in self._d, '
                         'result == int_of(v.lower()) * self._default)', carries='C09', label='no-suffix-default')],
         raises=[Raise('ValueError',
                       when='(v.lower()[-self._keysz:] in self._d and not int_ok(v.lower()[:-self._keysz])) or '
                            '(v.lower()[-self._keysz:] not in self._d and not int_ok(v.lower()))',
                       carries='C09', label='not-an-integer')],
         loops=[Loop(invariant=[Clause('forall(lambda j: implies(0 <= j and j < _i0, '
                                       'keys(self._d)[j] != v[-self._keysz:]))', label='no-earlier-suffix')],
                     locals={})])

# --- ipaddr-or-hostname ---------------------------------------------------------------------
prim('ipv6_ok', 'str -> bool',
     native=lambda s: __import__('pyvc.natives', fromlist=['x']).ipv6_ok(s))
assumed('socket.inet_pton', params={'family': 'Opaque[AddressFamily]', 'addr': 'str'}, returns='Opaque[bytes]',
        raises=[Raise('OSError', when='not ipv6_ok(addr)')],
        notes='socket.inet_pton(AF_INET6, s) succeeds iff s is a valid IPv6 text: this DEFINES validity (C09)')
contract('datatypes.IpaddrOrHostname.__call__',
         params={'value': 'str'}, returns='str',
         ensures=[Clause('result == value.lower()', carries='C09', label='lower-cased')],
         raises=[Raise('ValueError',
                       when="not rx_whole(self._rx, value) or (':' in value.lower() and not ipv6_ok(value.lower()))",
                       carries='C09', label='rejects')])

# --- inet-address family ---------------------------------------------------------------------
prim('before_last', 'str, str -> str', args=['s', 'sep'],
     axioms=['implies(sep in s, result + sep + after_last(s, sep) == s)'],
     native=lambda s, sep: s.rsplit(sep, 1)[0])
prim('after_last', 'str, str -> str', args=['s', 'sep'],
     axioms=["implies(sep in s and len(sep) == 1, sep not in result)"],
     native=lambda s, sep: s.rsplit(sep, 1)[-1])
prim('word_count', 'str -> int', args=['s'], axioms=['result >= 0', "implies(s == '', result == 0)"],
     native=lambda s: len(s.split()))
assumed('str.rsplitsep2', params={'self': 'str', 'sep': 'str', 'maxsplit': 'int'}, returns='Seq[str]', pure=True,
        requires=[Clause('maxsplit == 1')],
        ensures=[Clause('implies(sep in self, len(result) == 2 and result[0] == before_last(self, sep) and '
                        'result[1] == after_last(self, sep))'),
                 Clause('implies(sep not in self, len(result) == 1 and result[0] == self)')],
        notes='str.rsplit(sep, 1): split at the LAST occurrence of sep')
assumed('str.split', params={'self': 'str'}, returns='Seq[str]', pure=True,
        ensures=[Clause('len(result) == word_count(self)')], notes='str.split(): the whitespace-separated words')
assumed('datatypes.port_number', params={'value': 'str'}, returns='int', pure=True,
        ensures=[Clause('result == int_of(value) and port_ok(value)')],
        raises=[Raise('ValueError', when='not port_ok(value)')],
        notes='the bound method RangeCheckedConversion(integer, 0, 65535).__call__: proved for the class '
              '(RangeCheckedConversion.__call__), tied to this instance by bind:datatypes:port-number-*')
model('datatypes.InetAddress', fields={'DEFAULT_HOST': 'str'})
contract('datatypes.InetAddress.__call__', params={'s': 'str'}, returns='Tuple[str, Opt[int]]',
         ensures=[Clause('inet_spec(s, self.DEFAULT_HOST)[0] == 0 and result[0] == inet_spec(s, self.DEFAULT_HOST)[1]',
                         carries='C09', label='host-lower-cased-brackets-removed-default-host-supplied'),
                  Clause('(result[1] is not None) == inet_spec(s, self.DEFAULT_HOST)[2] and '
                         'implies(result[1] is not None, val(result[1]) == inet_spec(s, self.DEFAULT_HOST)[3])',
                         carries='C09', label='port-after-the-last-colon-unless-unbracketed-ipv6')],
         raises=[Raise('ValueError', when='inet_spec(s, self.DEFAULT_HOST)[0] == 1', carries='C09',
                       label='bad-port-or-not-a-host-name')])

# --- socket-address ----------------------------------------------------------------------------
from pyvc.api import ext_value
ext_value('socket.AF_INET', 'Opaque[AddressFamily]')
ext_value('socket.AF_INET6', 'Opaque[AddressFamily]')
ext_value('socket.AF_UNIX', 'Opaque[AddressFamily]')
ext_value('os.sep', 'str', '/')
assumed('getattr:socket.AF_UNIX', params={}, returns='Opt[Opaque[AddressFamily]]', pure=True,
        ensures=[Clause("result == ext('socket.AF_UNIX')")], notes='socket.AF_UNIX (present on POSIX)')
model('datatypes.SocketAddress', fields={'family': 'Opt[Opaque[AddressFamily]]', 'address': 'AddrVal'})
from pyvc.types import TUnion, define_type, parse_type
define_type('AddrVal', TUnion('AddrVal', [('path', parse_type('str')), ('inet', parse_type('Tuple[str, Opt[int]]'))]))
assumed('datatypes.inet_address', params={'s': 'str'}, returns='Tuple[str, Opt[int]]', pure=True,
        ensures=[Clause("inet_spec(s, '')[0] == 0 and result[0] == inet_spec(s, '')[1] and "
                        "(result[1] is not None) == inet_spec(s, '')[2]")],
        raises=[Raise('ValueError', when="inet_spec(s, '')[0] == 1")],
        notes="the module instance InetAddress('') on POSIX: proved for the class (InetAddress.__call__), tied to the "
              'instance by bind:datatypes:default-hosts')
inline('datatypes.SocketAddress._parse_address')
contract('datatypes.SocketAddress.__init__', params={'s': 'str'},
         ensures=[Clause("implies('/' in s, is_alt(self.address, 'path') and alt(self.address, 'path') == s)", carries='C09',
                         label='a-text-with-a-slash-is-a-unix-path'),
                  Clause("implies('/' in s, self.family == ext('socket.AF_UNIX'))", carries='C09', label='unix-family'),
                  Clause("implies('/' not in s, inet_spec(s, '')[0] == 0 and is_alt(self.address, 'inet') and "
                         "alt(self.address, 'inet')[0] == inet_spec(s, '')[1])", carries='C09', label='otherwise-an-inet-address'),
                  Clause("implies('/' not in s, self.family == (ext('socket.AF_INET6') if ':' in inet_spec(s, '')[1] else ext('socket.AF_INET')))",
                         carries='C09', label='a-colon-in-the-host-means-ipv6')],
         raises=[Raise('ValueError', when="'/' not in s and inet_spec(s, '')[0] == 1", carries='C09', label='bad-inet-address')])
