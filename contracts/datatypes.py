"""Contracts for ZConfig/datatypes.py (property C09; key normalisers also C01/C14/C16)."""
from pyvc.api import Clause, Loop, Raise, assumed, contract, inline, model, prim, spec_module
import spec.dt as D

spec_module(D)

# --- assumed: built-ins -----------------------------------------------------
prim('int_ok', 'str -> bool', native=D.int_ok)
prim('int_of', 'str -> int', native=D.int_of)
assumed('builtins.int', params={'x': 'str'}, returns='int', pure=True,
        ensures=[Clause('result == int_of(x)')],
        raises=[Raise('ValueError', when='not int_ok(x)')],
        notes="int(str) returns an int or raises ValueError; its accepted grammar is CPython's")

# --- regular-expression conversions --------------------------------------------
model('re.Pattern', fields={}, external=True)
model('rxmatch:any', fields={'g_0': 'str', 'end': 'int'}, external=True)
prim('rx_whole', 'Ref[re.Pattern], str -> bool',
     native=lambda rx, s: (lambda m: bool(m) and m.group() == s)(rx.match(s)))
assumed('re.Pattern.match', params={'self': 'Ref[re.Pattern]', 'string': 'str'},
        returns='Opt[Ref[rxmatch:any]]', fresh_result=True,
        ensures=[Clause('rx_whole(self, string) == (result is not None and result.g_0 == string)')],
        notes='definition of rx_whole: "prefix match whose text is the whole string"; which strings that '
              'is for each stock pattern is decided by the automaton obligations rx:datatypes.*')

model('datatypes.RegularExpressionConversion', fields={'_rx': 'Ref[re.Pattern]'})
contract('datatypes.RegularExpressionConversion.__call__',
         params={'value': 'str'}, returns='str',
         ensures=[Clause('result == value', carries='C09,C10', label='returns-input')],
         raises=[Raise('ValueError', when='not rx_whole(self._rx, value)', carries='C09,C10', label='no-match')])

contract('datatypes.BasicKeyConversion.__call__',
         params={'value': 'str'}, returns='str',
         ensures=[Clause('result == value.lower()', carries='C09,C10', label='lower-cased')],
         raises=[Raise('ValueError', when='not rx_whole(self._rx, value)', carries='C09,C10', label='no-match')])

# --- boolean -------------------------------------------------------------------------
contract('datatypes.asBoolean', params={'s': 'str'}, returns='bool',
         ensures=[Clause('result == (bool_spec(s.lower()) == 1)', carries='C09', label='truth-words')],
         raises=[Raise('ValueError', when='bool_spec(s.lower()) == 0', carries='C09', label='not-a-boolean')])

# --- integer and range check -----------------------------------------------------------
contract('datatypes.integer', params={'value': 'str'}, returns='int',
         ensures=[Clause('result == int_of(value)', carries='C09')],
         raises=[Raise('ValueError', when='not int_ok(value)', carries='C09', label='not-int')])

prim('conv_raises', 'Fun[conv_int], str -> bool')
prim('conv_val', 'Fun[conv_int], str -> int')
assumed('fun:conv_int', params={'fn': 'Fun[conv_int]', 'x': 'str'}, returns='int', pure=True,
        ensures=[Clause('result == conv_val(fn, x)')],
        raises=[Raise('ValueError', when='conv_raises(fn, x)')],
        notes='an integer-valued conversion function: returns or raises ValueError')
model('datatypes.RangeCheckedConversion',
      fields={'_min': 'Opt[int]', '_max': 'Opt[int]', '_conversion': 'Fun[conv_int]'})
contract('datatypes.RangeCheckedConversion.__call__',
         params={'value': 'str'}, returns='int',
         ensures=[Clause('result == conv_val(self._conversion, value)', carries='C09', label='value'),
                  Clause('in_range(result, self._min, self._max)', carries='C09', label='in-range')],
         raises=[Raise('ValueError',
                       when='conv_raises(self._conversion, value) or '
                            'not in_range(conv_val(self._conversion, value), self._min, self._max)',
                       carries='C09', label='out-of-range-or-unconvertible')])

# --- suffix multipliers (byte-size, time-interval) --------------------------------------
model('datatypes.SuffixMultiplier',
      fields={'_d': 'Map[str,int]', '_default': 'int', '_keysz': 'int'},
      invariant=[Clause('self._keysz >= 1', label='keysz-positive'),
                 Clause('forall(lambda j: implies(0 <= j and j < len(keys(self._d)), '
                        'len(keys(self._d)[j]) == self._keysz))', label='keys-same-size')])
contract('datatypes.SuffixMultiplier.__call__',
         params={'v': 'str'}, returns='int',
         ensures=[Clause('implies(v.lower()[-self._keysz:] in self._d, '
                         'result == int_of(v.lower()[:-self._keysz]) * self._d[v.lower()[-self._keysz:]])',
                         carries='C09', label='suffix-multiplies'),
                  Clause('implies(v.lower()[-self._keysz:] not in self._d, '
                         'result == int_of(v.lower()) * self._default)', carries='C09', label='no-suffix-default')],
         raises=[Raise('ValueError',
                       when='(v.lower()[-self._keysz:] in self._d and not int_ok(v.lower()[:-self._keysz])) or '
                            '(v.lower()[-self._keysz:] not in self._d and not int_ok(v.lower()))',
                       carries='C09', label='not-an-integer')],
         loops=[Loop(invariant=[Clause('forall(lambda j: implies(0 <= j and j < _i0, '
                                       'keys(self._d)[j] != v[-self._keysz:]))', label='no-earlier-suffix')],
                     locals={})])

# --- ipaddr-or-hostname ---------------------------------------------------------------------
prim('ipv6_ok', 'str -> bool',
     native=lambda s: __import__('pyvc.natives', fromlist=['x']).ipv6_ok(s))
assumed('socket.inet_pton', params={'family': 'Opaque[AddressFamily]', 'addr': 'str'}, returns='Opaque[bytes]',
        raises=[Raise('OSError', when='not ipv6_ok(addr)')],
        notes='socket.inet_pton(AF_INET6, s) succeeds iff s is a valid IPv6 text: this DEFINES validity (C09)')
contract('datatypes.IpaddrOrHostname.__call__',
         params={'value': 'str'}, returns='str',
         ensures=[Clause('result == value.lower()', carries='C09', label='lower-cased')],
         raises=[Raise('ValueError',
                       when="not rx_whole(self._rx, value) or (':' in value.lower() and not ipv6_ok(value.lower()))",
                       carries='C09', label='rejects')])

# --- inet-address family ---------------------------------------------------------------------
prim('before_last', 'str, str -> str', args=['s', 'sep'],
     axioms=['implies(sep in s, result + sep + after_last(s, sep) == s)'],
     native=lambda s, sep: s.rsplit(sep, 1)[0])
prim('after_last', 'str, str -> str', args=['s', 'sep'],
     axioms=["implies(sep in s and len(sep) == 1, sep not in result)"],
     native=lambda s, sep: s.rsplit(sep, 1)[-1])
prim('word_count', 'str -> int', args=['s'], axioms=['result >= 0', "implies(s == '', result == 0)"],
     native=lambda s: len(s.split()))
assumed('str.rsplitsep2', params={'self': 'str', 'sep': 'str', 'maxsplit': 'int'}, returns='Seq[str]', pure=True,
        requires=[Clause('maxsplit == 1')],
        ensures=[Clause('implies(sep in self, len(result) == 2 and result[0] == before_last(self, sep) and '
                        'result[1] == after_last(self, sep))'),
                 Clause('implies(sep not in self, len(result) == 1 and result[0] == self)')],
        notes='str.rsplit(sep, 1): split at the LAST occurrence of sep')
assumed('str.split', params={'self': 'str'}, returns='Seq[str]', pure=True,
        ensures=[Clause('len(result) == word_count(self)')], notes='str.split(): the whitespace-separated words')
assumed('datatypes.port_number', params={'value': 'str'}, returns='int', pure=True,
        ensures=[Clause('result == int_of(value) and port_ok(value)')],
        raises=[Raise('ValueError', when='not port_ok(value)')],
        notes='the bound method RangeCheckedConversion(integer, 0, 65535).__call__: proved for the class '
              '(RangeCheckedConversion.__call__), tied to this instance by bind:datatypes:port-number-*')
model('datatypes.InetAddress', fields={'DEFAULT_HOST': 'str'})
contract('datatypes.InetAddress.__call__', params={'s': 'str'}, returns='Tuple[str, Opt[int]]',
         ensures=[Clause('inet_spec(s, self.DEFAULT_HOST)[0] == 0 and result[0] == inet_spec(s, self.DEFAULT_HOST)[1]',
                         carries='C09', label='host-lower-cased-brackets-removed-default-host-supplied'),
                  Clause('(result[1] is not None) == inet_spec(s, self.DEFAULT_HOST)[2] and '
                         'implies(result[1] is not None, val(result[1]) == inet_spec(s, self.DEFAULT_HOST)[3])',
                         carries='C09', label='port-after-the-last-colon-unless-unbracketed-ipv6')],
         raises=[Raise('ValueError', when='inet_spec(s, self.DEFAULT_HOST)[0] == 1', carries='C09',
                       label='bad-port-or-not-a-host-name')])

# --- socket-address ----------------------------------------------------------------------------
from pyvc.api import ext_value
ext_value('socket.AF_INET', 'Opaque[AddressFamily]')
ext_value('socket.AF_INET6', 'Opaque[AddressFamily]')
ext_value('socket.AF_UNIX', 'Opaque[AddressFamily]')
ext_value('os.sep', 'str', '/')
assumed('getattr:socket.AF_UNIX', params={}, returns='Opt[Opaque[AddressFamily]]', pure=True,
        ensures=[Clause("result == ext('socket.AF_UNIX')")], notes='socket.AF_UNIX (present on POSIX)')
model('datatypes.SocketAddress', fields={'family': 'Opt[Opaque[AddressFamily]]', 'address': 'AddrVal'})
from pyvc.types import TUnion, define_type, parse_type
define_type('AddrVal', TUnion('AddrVal', [('path', parse_type('str')), ('inet', parse_type('Tuple[str, Opt[int]]'))]))
assumed('datatypes.inet_address', params={'s': 'str'}, returns='Tuple[str, Opt[int]]', pure=True,
        ensures=[Clause("inet_spec(s, '')[0] == 0 and result[0] == inet_spec(s, '')[1] and "
                        "(result[1] is not None) == inet_spec(s, '')[2]")],
        raises=[Raise('ValueError', when="inet_spec(s, '')[0] == 1")],
        notes="the module instance InetAddress('') on POSIX: proved for the class (InetAddress.__call__), tied to the "
              'instance by bind:datatypes:default-hosts')
inline('datatypes.SocketAddress._parse_address')
contract('datatypes.SocketAddress.__init__', params={'s': 'str'},
         ensures=[Clause("implies('/' in s, is_alt(self.address, 'path') and alt(self.address, 'path') == s)", carries='C09',
                         label='a-text-with-a-slash-is-a-unix-path'),
                  Clause("implies('/' in s, self.family == ext('socket.AF_UNIX'))", carries='C09', label='unix-family'),
                  Clause("implies('/' not in s, inet_spec(s, '')[0] == 0 and is_alt(self.address, 'inet') and "
                         "alt(self.address, 'inet')[0] == inet_spec(s, '')[1])", carries='C09', label='otherwise-an-inet-address'),
                  Clause("implies('/' not in s, self.family == (ext('socket.AF_INET6') if ':' in inet_spec(s, '')[1] else ext('socket.AF_INET')))",
                         carries='C09', label='a-colon-in-the-host-means-ipv6')],
         raises=[Raise('ValueError', when="'/' not in s and inet_spec(s, '')[0] == 1", carries='C09', label='bad-inet-address')])

# --- the small stock conversions (C09) ------------------------------------------------------------
import os.path as _osp
contract('datatypes.null_conversion', params={'value': 'str'}, returns='str',
         ensures=[Clause('result == value', carries='C09', label='identity')])

prim('words', 'str -> Seq[str]', native=lambda s: s.split(), args=['s'],
     axioms=['len(result) == word_count(s)',
             'forall(lambda j: implies(0 <= j and j < len(result), len(result[j]) > 0))'])     # words are never empty
assumed('str.split', params={'self': 'str'}, returns='Seq[str]', pure=True,
        ensures=[Clause('result == words(self) and len(result) == word_count(self)')],
        notes='str.split(): the whitespace-separated words, in order (words() IS str.split)')
contract('datatypes.string_list', params={'s': 'str'}, returns='Seq[str]',
         ensures=[Clause('result == words(s)', carries='C09', label='the-whitespace-separated-words-in-order')])

prim('float_ok', 'str -> bool', native=lambda s: __import__('pyvc.natives', fromlist=['x']).float_ok(s))
prim('float_of', 'str -> Opaque[float]', native=lambda s: float(s))
assumed('builtins.float', params={'x': 'str'}, returns='Opaque[float]', pure=True,
        ensures=[Clause('result == float_of(x)')],
        raises=[Raise('ValueError', when='not float_ok(x)')],
        notes="float(str) returns a float or raises ValueError; its accepted grammar is CPython's (inf / nan included: KF-C09-float)")
contract('datatypes.float_conversion', params={'v': 'str'}, returns='Opaque[float]',
         ensures=[Clause('result == float_of(v)', carries='C09', label='the-float-the-text-denotes')],
         raises=[Raise('ValueError', when='not float_ok(v)', carries='C09', label='not-a-float')])

# existing-* : the path with '~' expanded, provided the file system has it (os.path is assumed)
prim('expanduser', 'str -> str', native=_osp.expanduser)
prim('fs_isdir', 'str -> bool', native=_osp.isdir)
prim('fs_exists', 'str -> bool', native=_osp.exists)
prim('path_dirname', 'str -> str', native=_osp.dirname)
assumed('os.path.expanduser', params={'path': 'str'}, returns='str', pure=True, ensures=[Clause('result == expanduser(path)')],
        notes='os.path.expanduser')
assumed('os.path.isdir', params={'s': 'str'}, returns='bool', pure=True, ensures=[Clause('result == fs_isdir(s)')],
        notes='os.path.isdir: the state of the file system at the time of the call')
assumed('os.path.exists', params={'path': 'str'}, returns='bool', pure=True, ensures=[Clause('result == fs_exists(path)')],
        notes='os.path.exists: the state of the file system at the time of the call')
assumed('os.path.dirname', params={'p': 'str'}, returns='str', pure=True, ensures=[Clause('result == path_dirname(p)')],
        notes='os.path.dirname')
contract('datatypes.existing_directory', params={'v': 'str'}, returns='str',
         ensures=[Clause('result == expanduser(v) and fs_isdir(expanduser(v))', carries='C09', label='expanded-path-of-a-directory')],
         raises=[Raise('ValueError', when='not fs_isdir(expanduser(v))', carries='C09', label='no-such-directory')])
contract('datatypes.existing_path', params={'v': 'str'}, returns='str',
         ensures=[Clause('result == expanduser(v) and fs_exists(expanduser(v))', carries='C09', label='expanded-path-that-exists')],
         raises=[Raise('ValueError', when='not fs_exists(expanduser(v))', carries='C09', label='no-such-path')])
contract('datatypes.existing_file', params={'v': 'str'}, returns='str',
         ensures=[Clause('result == expanduser(v) and fs_exists(expanduser(v))', carries='C09', label='expanded-path-that-exists')],
         raises=[Raise('ValueError', when='not fs_exists(expanduser(v))', carries='C09', label='no-such-file')])
contract('datatypes.existing_dirpath', params={'v': 'str'}, returns='str',
         ensures=[Clause("result == expanduser(v) and (path_dirname(expanduser(v)) == '' or fs_isdir(path_dirname(expanduser(v))))",
                         carries='C09', label='expanded-path-whose-directory-exists')],
         raises=[Raise('ValueError', when="path_dirname(expanduser(v)) != '' and not fs_isdir(path_dirname(expanduser(v)))",
                       carries='C09', label='no-such-directory')])

# memoised conversion (locale): the memo only ever holds results of the wrapped conversion
prim('mconv_raises', 'Fun[mconv], str -> bool')
prim('mconv_val', 'Fun[mconv], str -> Opaque[PyVal]')
assumed('fun:mconv', params={'fn': 'Fun[mconv]', 'x': 'str'}, returns='Opaque[PyVal]', pure=True,
        ensures=[Clause('result == mconv_val(fn, x)')],
        raises=[Raise('ValueError', when='mconv_raises(fn, x)')],
        notes='the conversion wrapped by MemoizedConversion: a function of its argument that returns or raises ValueError')
model('datatypes.MemoizedConversion', fields={'_memo': 'Map[str, Opaque[PyVal]]', '_conversion': 'Fun[mconv]'},
      invariant=[Clause("forall('str', lambda x: implies(x in self._memo, not mconv_raises(self._conversion, x) and "
                        "self._memo[x] == mconv_val(self._conversion, x)))", label='memo-holds-only-results-of-the-conversion')])
contract('datatypes.MemoizedConversion.__init__', params={'conversion': 'Fun[mconv]'},
         ensures=[Clause('len(self._memo) == 0 and self._conversion == conversion', carries='C09', label='empty-memo')])
contract('datatypes.MemoizedConversion.__call__', params={'value': 'str'}, returns='Opaque[PyVal]',
         modifies=['self._memo'],
         ensures=[Clause('result == mconv_val(self._conversion, value)', carries='C09',
                         label='same-result-as-the-wrapped-conversion-memoised-or-not'),
                  Clause('self._memo == old(self._memo) or self._memo == updated(old(self._memo), value, result)',
                         carries='C09', label='only-this-result-is-remembered')],
         raises=[Raise('ValueError', when='mconv_raises(self._conversion, value)',
                       then=[Clause('self._memo == old(self._memo)', label='failures-are-not-remembered')],
                       carries='C09', label='failures-pass-through')])

# --- timedelta ---------------------------------------------------------------------------------------
define_type('Num', TUnion('Num', [('i', parse_type('int')), ('f', parse_type('Opaque[float]'))]))
prim('td_make', 'Num, Num, Num, Num, Num -> Opaque[timedelta]')
prim('td_overflows', 'Num, Num, Num, Num, Num -> bool')
assumed('datetime.timedelta', params={'weeks': 'Num', 'days': 'Num', 'hours': 'Num', 'minutes': 'Num', 'seconds': 'Num'},
        returns='Opaque[timedelta]', pure=True,
        ensures=[Clause('result == td_make(weeks, days, hours, minutes, seconds)')],
        raises=[Raise('OverflowError', when='td_overflows(weeks, days, hours, minutes, seconds)')],
        notes='datetime.timedelta(weeks=, days=, hours=, minutes=, seconds=): the interval, or OverflowError for infinite / '
              'too large amounts')
_W = "words(s)"
_UNITS = [('weeks', 'w'), ('days', 'd'), ('hours', 'h'), ('minutes', 'm'), ('seconds', 's')]
_TD_ARGS = ', '.join("td_last(%s, 0, '%s', 0)" % (_W, u) for _, u in _UNITS)
contract('datatypes.timedelta', params={'s': 'str'}, returns='Opaque[timedelta]',
         ensures=[Clause('td_scan(%s, 0) == 0' % _W, carries='C09', label='every-word-is-a-number-and-a-unit-letter'),
                  Clause('result == td_make(%s)' % _TD_ARGS, carries='C09', label='interval-of-the-last-amount-given-per-unit')],
         raises=[Raise('ValueError', when='td_scan(%s, 0) == 1 or (td_scan(%s, 0) == 0 and td_overflows(%s))' % (_W, _W, _TD_ARGS),
                       carries='C09', label='malformed-number-or-out-of-range'),
                 Raise('TypeError', when='td_scan(%s, 0) == 2' % _W, carries='C09', label='unknown-unit-letter')],
         hints=['td_scan(%s, 0)' % _W],
         loops=[Loop(invariant=[Clause('td_scan(%s, _i0) == td_scan(%s, 0)' % (_W, _W), label='remaining-scan-equals-scan')] +
                               [Clause("td_last(%s, _i0, '%s', %s) == td_last(%s, 0, '%s', 0)" % (_W, u, n, _W, u),
                                       label='amount-of-%s-so-far' % n) for n, u in _UNITS],
                     hints=['td_scan(%s, _i0)' % _W] + ["td_last(%s, _i0, '%s', %s)" % (_W, u, n) for n, u in _UNITS],
                     locals=dict([(n, 'Num') for n, _ in _UNITS] + [('val', 'Opaque[float]'), ('suffix', 'str'), ('part', 'str')]))])
