"""Value shapes kept by matchers and info objects (Slot and friends)."""
from pyvc.api import model
from pyvc.types import TNone, TUnion, define_type, parse_type

VI = 'Ref[info.ValueInfo]'
PYVAL = 'Opaque[PyVal]'
model('matcher.SectionValue', fields={'_name': 'Opt[str]', '_matcher': 'Ref[matcher.BaseMatcher]',
                                      '_attributes': 'Seq[str]', '_dict': 'Map[str, Slot]'})
define_type('Item', TUnion('Item', [('vi', parse_type(VI)), ('sv', parse_type('Ref[matcher.SectionValue]')),
                                    ('pv', parse_type(PYVAL))]))
# lists are heterogeneous in Python: one list alternative whose elements are tagged
define_type('VP', TUnion('VP', [('vi', parse_type(VI)), ('pv', parse_type(PYVAL))]))
define_type('MItem', TUnion('MItem', [('vi', parse_type(VI)), ('pv', parse_type(PYVAL)),
                                      ('lst', parse_type('Seq[VP]'))]))
# what a matcher keeps per attribute: nothing yet | one value | one section | a converted value |
# a list (multikey / multisection) | a mapping (wildcard key)
define_type('Slot', TUnion('Slot', [('none', TNone), ('vi', parse_type(VI)),
                                    ('sv', parse_type('Ref[matcher.SectionValue]')), ('pv', parse_type(PYVAL)),
                                    ('lst', parse_type('Seq[Item]')), ('kmap', parse_type('Map[str, MItem]'))]))

