"""Which contracts, regular-expression obligations, lemmas and bounded
stand-ins decide which property; native adapters for replays."""

CONTRACT_MODULES = [
    'contracts.errors',
    'contracts.substitution',
    'contracts.datatypes',
    'contracts.cfgparser',
    'contracts.info',
]

PROPS = {
    'C03': {
        'functions': ['cfgparser.ZConfigParser.__init__', 'cfgparser.ZConfigParser._normalize_case',
                      'cfgparser.ZConfigParser.error', 'cfgparser.ZConfigParser.nextline',
                      'cfgparser.ZConfigParser.replace', 'cfgparser.ZConfigParser.handle_key_value',
                      'cfgparser.ZConfigParser.handle_directive', 'cfgparser.ZConfigParser.handle_define',
                      'cfgparser.ZConfigParser.handle_import', 'cfgparser.ZConfigParser.handle_include',
                      'cfgparser.ZConfigParser.start_section', 'cfgparser.ZConfigParser.end_section',
                      'cfgparser.ZConfigParser.parse'],
        'rx': ['rx:cfgparser._keyvalue_rx', 'rx:cfgparser._section_start_rx'],
        'standin': True,
    },
    'C09': {
        'functions': ['datatypes.RegularExpressionConversion.__call__', 'datatypes.BasicKeyConversion.__call__',
                      'datatypes.asBoolean', 'datatypes.integer', 'datatypes.RangeCheckedConversion.__call__',
                      'datatypes.SuffixMultiplier.__call__', 'datatypes.IpaddrOrHostname.__call__'],
        'rx': ['rx:datatypes.basic-key', 'rx:datatypes.identifier', 'rx:datatypes.dotted-name',
               'rx:datatypes.dotted-suffix', 'rx:datatypes.ipaddr-or-hostname'],
        'bind': ['bind:datatypes'],
        'standin': True,
    },
    'C04': {
        'functions': ['substitution._split', 'substitution.substitute', 'substitution.isname'],
        'rx': ['rx:substitution._name_re'],
        'standin': True,
    },
}


class SharedDict(dict):
    """Native stand-in for Ref[dict:...]: `.items` is the mapping value itself."""
    items = property(lambda self: self)


def _z():
    import ZConfig.substitution
    import ZConfig
    return ZConfig


SUBST_ALPHA = ['$', '{', '}', '(', ')', 'a', 'B', '_', '1', '-']

NATIVE = {
    'substitution._split': {
        'call': lambda s: __import__('ZConfig.substitution').substitution._split(s),
        'domain': {'s': ('str', SUBST_ALPHA, 5)},
    },
    'substitution.isname': {
        'call': lambda s: __import__('ZConfig.substitution').substitution.isname(s),
        'domain': {'s': ('str', ['a', 'B', '_', '1', '-', '$', 'é'], 4)},
    },
    'substitution.substitute': {
        'call': lambda s, mapping: __import__('ZConfig.substitution').substitution.substitute(s, mapping),
        'build': lambda s, mapping: {'s': s, 'mapping': SharedDict(mapping)},
        'domain': {'s': ('str', ['$', '{', '}', '(', 'a', 'B', '-'], 5),
                   'mapping': ('choice', [{}, {'a': 'X$a', 'b': ''}, {'b': '$$'}])},
    },
}
