"""Which contracts, regular-expression obligations, lemmas and bounded
stand-ins decide which property; native adapters for replays."""

CONTRACT_MODULES = [
    'contracts.errors',
    'contracts.substitution',
    'contracts.datatypes',
    'contracts.cfgparser',
    'contracts.info',
    'contracts.matcher',
    'contracts.loader',
    'contracts.cmdline',
    'contracts.logger',
    'contracts.schema',
    'contracts.schemaless',
    'contracts.validator',
]

CFG = 'cfgparser.ZConfigParser.'
CFG_ALL = [CFG + n for n in ('__init__', '_normalize_case', 'error', 'nextline', 'replace', 'handle_key_value',
                             'handle_directive', 'handle_define', 'handle_import', 'handle_include',
                             'start_section', 'end_section', 'parse')]
INFO_MATCH = ['info.SectionInfo.isAllowedName', 'info.SectionInfo.allowUnnamed', 'info.BaseInfo.ismulti',
              'info.BaseInfo.issection', 'info.SectionInfo.issection', 'info.BaseInfo.isabstract',
              'info.SectionType.isabstract', 'info.AbstractType.isabstract',
              'info.SectionType.getsectioninfo', 'info.SectionType.gettype', 'info.AbstractType.getsubtype',
              'info.AbstractType.hassubtype', 'info.SectionType.__len__', 'info.SectionType.__getitem__',
              'info.ValueInfo.__init__', 'info.ValueInfo.convert']
MATCHER = ['matcher.BaseMatcher.__init__', 'matcher.BaseMatcher.addValue', 'matcher.BaseMatcher.addSection',
           'matcher.SectionMatcher.__init__', 'matcher.BaseMatcher.createChildMatcher',
           'matcher.BaseMatcher.finish', 'matcher.BaseMatcher.constuct', 'matcher.SectionValue.getSectionDefinition',
           'matcher.BaseMatcher.createValue', 'matcher.SectionMatcher.createValue', 'matcher.SectionValue.__init__',
           'info.KeyInfo.getdefault', 'info.MultiKeyInfo.getdefault', 'info.SectionInfo.getdefault']

CMDLINE = ['cmdline.ExtendedConfigLoader.__init__', 'cmdline.ExtendedConfigLoader.addOption',
           'cmdline.ExtendedConfigLoader.cook', 'cmdline.ExtendedConfigLoader.createSchemaMatcher',
           'cmdline.OptionBag.__init__', 'cmdline.OptionBag.basic_key', 'cmdline.OptionBag.add_value',
           'cmdline.OptionBag.__contains__', 'cmdline.OptionBag.get_key', 'cmdline.OptionBag.keys',
           'cmdline.OptionBag.get_section_info', 'cmdline.OptionBag._is_type_name', 'cmdline.OptionBag.finish',
           'cmdline.MatcherMixin.set_optionbag', 'cmdline.MatcherMixin.addValue',
           'cmdline.MatcherMixin.createChildMatcher', 'cmdline.MatcherMixin.finish_optionbag',
           'matcher.SchemaMatcher.__init__', 'loader.ConfigLoader.__init__', 'loader.ConfigLoader.createSchemaMatcher',
           'cmdline.ExtendedSectionMatcher.finish', 'cmdline.ExtendedSchemaMatcher.finish']

LOADER_CFG = ['loader.ConfigLoader.__init__', 'loader.ConfigLoader.loadResource', 'loader.ConfigLoader.createSchemaMatcher',
              'loader.ConfigLoader.startSection', 'loader.ConfigLoader.endSection',
              'loader.ConfigLoader.includeConfiguration', 'loader.ConfigLoader._parse_resource']

INFO_BUILD = ['info.BaseInfo.__init__', 'info.BaseKeyInfo.__init__', 'info.BaseKeyInfo.finish', 'info.BaseKeyInfo.adddefault',
              'info.BaseKeyInfo.prepare_raw_defaults', 'info.KeyInfo.__init__', 'info.KeyInfo.add_valueinfo',
              'info.KeyInfo.computedefault', 'info.MultiKeyInfo.__init__', 'info.MultiKeyInfo.add_valueinfo',
              'info.MultiKeyInfo.computedefault', 'info.SectionInfo.__init__', 'info.AbstractType.__init__',
              'info.AbstractType.addsubtype', 'info.SectionType.__init__', 'info.SectionType._add_child',
              'info.SectionType.addkey', 'info.SectionType.addsection', 'info.SchemaType.__init__',
              'info.SchemaType.addtype', 'info.SchemaType.createSectionType', 'info.SchemaType.deriveSectionType',
              'info.SchemaType.addComponent', 'info.SchemaType.hasComponent', 'info.createDerivedSchema']

SP = 'schema.BaseParser.'
SCHEMA_FNS = [SP + n for n in ('basic_key', 'identifier', 'get_required', 'get_ordinality', 'get_handler', 'get_name_info',
                               'get_key_info', 'get_sectiontype', 'start_key', 'end_key', 'start_multikey',
                               'start_section', 'end_section', 'start_multisection', 'end_multisection',
                               'start_abstracttype', 'end_abstracttype', 'start_sectiontype', 'end_sectiontype',
                               'push_prefix', 'pop_prefix', 'get_classname', 'loadComponent', 'end_multikey',
                               'characters_default')] + ['schema.SchemaParser.extendSchema'] + \
             ['schema.ComponentParser.' + n for n in ('_check_not_toplevel', 'start_key', 'start_multikey', 'start_section',
                                                     'start_multisection', 'start_component', 'end_component')]

PROPS = {
    'C01': {'functions': INFO_MATCH + MATCHER + LOADER_CFG, 'standin': True},
    'C02': {'functions': ['info.ValueInfo.convert', 'matcher.SchemaMatcher.__init__', 'matcher.SchemaMatcher.finish'] + MATCHER +
            [CFG + 'start_section', CFG + 'end_section', CFG + 'parse', 'loader.ConfigLoader.endSection', 'loader.ConfigLoader.loadResource'] +
            ['info.BaseKeyInfo.prepare_raw_defaults', 'info.KeyInfo.computedefault', 'info.MultiKeyInfo.computedefault',
             'info.SchemaType.deriveSectionType', SP + 'get_name_info', SP + 'get_key_info', SP + 'start_key',
             'info.BaseKeyInfo.adddefault', 'info.KeyInfo.add_valueinfo'],
            'standin': True},
    'C03': {'functions': CFG_ALL,
            'rx': ['rx:cfgparser._keyvalue_rx', 'rx:cfgparser._section_start_rx'], 'standin': True},
    'C04': {'functions': ['substitution._split', 'substitution.substitute', 'substitution.isname'],
            'helpers': {'substitution._split': ['substitution.substitute']},
            'rx': ['rx:substitution._name_re'], 'standin': True},
    'C05': {'functions': [CFG + '__init__', CFG + 'handle_define', CFG + 'replace', CFG + 'handle_include',
                          CFG + 'handle_directive', 'substitution.substitute', 'substitution._split', 'loader.ConfigLoader.loadResource',
                          'loader.ConfigLoader._parse_resource', 'loader.ConfigLoader.includeConfiguration'],
            'helpers': {'substitution._split': ['substitution.substitute']},
            'rx': ['rx:substitution._name_re'], 'standin': True},
    'C06': {'functions': [CFG + '__init__', CFG + 'parse', CFG + 'handle_include', CFG + 'end_section',
                          'loader.ConfigLoader.includeConfiguration', 'loader.ConfigLoader._parse_resource',
                          'loader.BaseLoader.normalizeURL', 'loader.BaseLoader.openResource'],
            'standin': True},
    'C07': {'functions': CFG_ALL + ['substitution.substitute', 'substitution._split', 'info.ValueInfo.convert'] + CMDLINE + LOADER_CFG +
            [f for f in MATCHER if f.startswith('matcher.')] +
            ['loader.BaseLoader.openResource', 'loader.BaseLoader.loadURL', 'loader.BaseLoader.loadFile', 'loader.BaseLoader._raise_open_error',
             'validator.main', 'loader._get_config_loader', 'loader.loadConfig', 'loader.loadConfigFile'],
            'standin': True},
    'C08': {'functions': [CFG + n for n in ('error', 'replace', 'handle_key_value', 'handle_define',
                                            'start_section', 'end_section', 'nextline')]
            + ['info.ValueInfo.__init__', 'info.ValueInfo.convert', 'matcher.BaseMatcher.addValue'], 'standin': True},
    'C09': {
        'functions': ['datatypes.RegularExpressionConversion.__call__', 'datatypes.BasicKeyConversion.__call__',
                      'datatypes.asBoolean', 'datatypes.integer', 'datatypes.RangeCheckedConversion.__call__',
                      'datatypes.SuffixMultiplier.__call__', 'datatypes.IpaddrOrHostname.__call__',
                      'datatypes.InetAddress.__call__', 'datatypes.SocketAddress.__init__',
                      'datatypes.null_conversion', 'datatypes.string_list', 'datatypes.float_conversion',
                      'datatypes.existing_directory', 'datatypes.existing_path', 'datatypes.existing_file',
                      'datatypes.existing_dirpath', 'datatypes.MemoizedConversion.__init__',
                      'datatypes.MemoizedConversion.__call__', 'datatypes.timedelta'],
        'rx': ['rx:datatypes.basic-key', 'rx:datatypes.identifier', 'rx:datatypes.dotted-name',
               'rx:datatypes.dotted-suffix', 'rx:datatypes.ipaddr-or-hostname'],
        'bind': ['bind:datatypes'],
        'standin': True,
    },
    # (names in a schema document are validated by the stock regular-expression datatypes: C10 depends on
    # "prefix match, then compare with the whole text" and on the languages of the three patterns)
    'C10': {'functions': INFO_BUILD + SCHEMA_FNS + ['schema.BaseParser.__init__', 'datatypes.RegularExpressionConversion.__call__',
                                                    'datatypes.BasicKeyConversion.__call__'],
            'rx': ['rx:datatypes.basic-key', 'rx:datatypes.identifier', 'rx:datatypes.dotted-name'], 'standin': True},
    'C11': {'functions': INFO_BUILD + SCHEMA_FNS + ['schema.SchemaParser.start_schema'], 'standin': True},
    'C12': {'functions': ['info.SectionType.getsectioninfo', 'info.AbstractType.getsubtype',
                          'info.AbstractType.hassubtype', 'info.AbstractType.isabstract',
                          'info.SectionType.isabstract', 'info.SectionType.gettype', 'loader.ConfigLoader.startSection',
                          CFG + 'handle_import', 'info.createDerivedSchema', 'info.AbstractType.__init__',
                          'info.AbstractType.addsubtype', 'info.SchemaType.addtype', 'info.SchemaType.createSectionType',
                          'info.SchemaType.addComponent', 'info.SchemaType.hasComponent',
                          SP + 'start_sectiontype', SP + 'start_abstracttype', 'cmdline.OptionBag.get_section_info'],
            'standin': True},
    # frame and ownership obligations of every function of a load that touches schema objects: the
    # modifies clauses name only matcher / loader state, results are fresh containers
    'C13': {'functions': INFO_MATCH + MATCHER + LOADER_CFG + ['info.createDerivedSchema', 'info.SectionType.getinfo'], 'standin': True},
    'C14': {'functions': CMDLINE + ['loader._get_config_loader'], 'standin': True},
    'C15': {'functions': [CFG + n for n in ('_normalize_case', 'nextline', 'start_section', 'end_section',
                                            'parse', 'handle_define')] + ['matcher.BaseMatcher.addValue'],
            'standin': True},
    'C16': {'functions': ['loader.CompositeHandler.__init__', 'loader.CompositeHandler.__call__',
                          'loader.CompositeHandler.__len__', 'matcher.BaseMatcher.__init__',
                          'matcher.SectionMatcher.__init__', 'matcher.BaseMatcher.createChildMatcher',
                          'matcher.SchemaMatcher.__init__', 'matcher.SchemaMatcher.finish', 'matcher.BaseMatcher.finish',
                          'matcher.BaseMatcher.constuct', 'loader.ConfigLoader.loadResource'],
            'bind': ['bind:handlers'], 'standin': True},
    'C17': {'functions': [CFG + 'start_section', CFG + 'end_section', CFG + 'handle_key_value', 'schemaless.Section.addValue', 'schemaless.Section.__init__',
                          'schemaless.Context.startSection', 'schemaless.Context.endSection',
                          'schemaless.Context.includeConfiguration', 'schemaless.Parser.handle_define',
                          'schemaless.Resource.__init__', 'schemaless.Context.__init__', 'schemaless.Context.importSchemaComponent'],
            'standin': True},
    'C18': {'functions': ['schema.SchemaParser.extendSchema', 'schema.SchemaParser.start_schema', SP + 'loadComponent', 'url.urlnormalize', 'url.urldefrag', 'url.urljoin', 'loader.BaseLoader.isPath', 'loader.BaseLoader.normalizeURL', 'loader._url_from_file',
                          'loader.BaseLoader._raise_open_error', CFG + '__init__', CFG + 'handle_include', 'schema.parseResource', 'schema.parseComponent'],
            'rx': ['rx:loader._pathsep_rx'], 'standin': True},
    'C19': {'functions': ['loader.Resource.__init__', 'loader.Resource.close', 'loader.Resource.__enter__',
                          'loader.Resource.__exit__', 'loader.BaseLoader.createResource',
                          'loader.BaseLoader.openResource', 'loader.BaseLoader._raise_open_error',
                          'loader.BaseLoader.loadURL', 'loader.BaseLoader.loadFile', 'loader.ConfigLoader.loadResource',
                          'loader.ConfigLoader.includeConfiguration', 'loader.ConfigLoader._parse_resource',
                          CFG + 'parse', CFG + 'handle_include', CFG + 'handle_import', CFG + 'handle_directive',
                          'schema.SchemaParser.extendSchema', SP + 'loadComponent', 'schema.parseResource', 'schema.parseComponent',
                          'loader.SchemaLoader.__init__', 'loader.SchemaLoader.loadResource',
                          'loader._get_config_loader', 'loader.loadConfig', 'loader.loadConfigFile'],
            'standin': True},
    'C20': {'functions': ['components.logger.datatypes.logging_level', 'components.logger.factory.Factory.__init__',
                          'components.logger.factory.Factory.__call__',
                          'components.logger.handlers.HandlerFactory.__init__', 'components.logger.handlers.HandlerFactory.create',
                          'components.logger.handlers.FileHandlerFactory.__init__',
                          'components.logger.loghandler._remove_from_reopenable', 'components.logger.loghandler.reopenFiles',
                          'components.logger.loghandler.closeFiles', 'components.logger.logger.LoggerFactoryBase.__init__',
                          'components.logger.logger.LoggerFactoryBase.create', 'components.logger.logger.LoggerFactory.__init__',
                          'components.logger.logger.LoggerFactory.create'], 'standin': True},
}


class SharedDict(dict):
    """Native stand-in for Ref[dict:...]: `.items` is the mapping value itself."""
    items = property(lambda self: self)


def _z():
    import ZConfig.substitution
    import ZConfig
    return ZConfig


def _with_env(env, args):
    """Set the process environment of the replay (the names a search uses) and return args."""
    import os
    for k in ('a', 'A', 'b', 'B'):
        os.environ.pop(k, None)
    for k, v in (env or {}).items():
        os.environ[k] = v
    return args


SUBST_ALPHA = ['$', '{', '}', '(', ')', 'a', 'B', '_', '1', '-']

def _lift_split(a):
    """_split(s) is called by substitute on every suffix of its argument that starts a token: the helper's
    input is itself a caller input; mappings / environments that define or omit the names in it."""
    import re as _re
    s = a['s']
    names = _re.findall(r'[a-zA-Z_][a-zA-Z0-9_]*', s)
    full = {n.lower(): 'V' for n in names}
    envs = {n: 'E' for n in names}
    return [{'s': s, 'mapping': {}, 'env': {}}, {'s': s, 'mapping': full, 'env': envs},
            {'s': 'p' + s, 'mapping': full, 'env': envs}, {'s': s + '$$q', 'mapping': full, 'env': envs}]


LIFT = {('substitution._split', 'substitution.substitute'): _lift_split}

NATIVE = {
    'url.urlnormalize': {
        'call': lambda url: __import__('ZConfig.url', fromlist=['x']).urlnormalize(url),
        'domain': {'url': ('choice', ['file:/a/B', 'FILE:/A/b', 'File:/x', 'file:///a/B', 'FILE:///A', 'file://h/A', 'file:a',
                                      'http://x/A', '/a/B', '', 'file:/', 'file:'])},
    },
    'components.logger.datatypes.logging_level': {
        'call': lambda value: __import__('ZConfig.components.logger.datatypes', fromlist=['x']).logging_level(value),
        'domain': {'value': ('choice', ['critical', 'FATAL', 'Error', 'warn', 'warning', 'info', 'blather', 'debug', 'trace',
                                        'all', 'notset', '0', '50', '51', '-1', '100', '7', 'x', '', ' 5'])},
    },
    'datatypes.asBoolean': {
        'call': lambda s: __import__('ZConfig.datatypes', fromlist=['x']).asBoolean(s),
        'domain': {'s': ('choice', ['yes', 'Yes', 'TRUE', 'on', 'no', 'False', 'OFF', 'y', 'n', '1', '0', '', 'onn', 't'])},
    },
    'datatypes.integer': {
        'call': lambda value: __import__('ZConfig.datatypes', fromlist=['x']).integer(value),
        'domain': {'value': ('choice', ['0', '12', '-3', ' 4 ', 'x', '', '1_0', '1.0'])},
    },
    'substitution._split': {
        'call': lambda s: __import__('ZConfig.substitution').substitution._split(s),
        'domain': {'s': ('str', SUBST_ALPHA, 5)},
    },
    'substitution.isname': {
        'call': lambda s: __import__('ZConfig.substitution').substitution.isname(s),
        'domain': {'s': ('str', ['a', 'B', '_', '1', '-', '$', 'é'], 4)},
    },
    'substitution.substitute': {
        'call': lambda s, mapping, env=None: __import__('ZConfig.substitution').substitution.substitute(s, mapping),
        'build': lambda s, mapping, env=None: _with_env(env, {'s': s, 'mapping': SharedDict(mapping)}),
        'domain': {'s': ('str', ['$', '{', '}', '(', ')', 'a', 'B', '-'], 5),
                   'mapping': ('choice', [{}, {'a': 'X$a', 'b': ''}, {'b': '$$'}]),
                   'env': ('choice', [{}, {'a': 'E$(a)', 'B': ''}, {'B': 'e'}])},
    },
}
