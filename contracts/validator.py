"""Contract for ZConfig/validator.py (property C07, last sentence: the validator command, given a loadable
schema, ends with status 0 (all files valid) or 1 with one message per invalid file)."""
from pyvc.api import (At, Clause, Loop, Raise, REGISTRY, MODELS, assumed, contract, ext_value, model, spec_module)
import contracts.loader             # File, info.SchemaType
import spec.validator as SV

spec_module(SV)

model('argparse.ArgumentParser', fields={}, external=True)
model('argparse.Namespace', fields={'schema': 'str', 'file': 'Seq[Ref[File]]'}, external=True)
MODELS['Ghost'].fields['argv_files'] = 'Seq[Ref[File]]'
MODELS['Ghost'].fields['messages'] = 'int'
MODELS['Ghost'].fields['stdin_is_tty'] = 'bool'
MODELS['File'].fields['cfg_bad'] = 'bool'
ext_value('sys.stdin', 'Ref[File]')
ext_value('sys.stderr', 'Ref[File]')
assumed('argparse.ArgumentParser', params={}, returns='Ref[argparse.ArgumentParser]', fresh_result=True, any_kwargs=True,
        notes='argparse: building the option parser has no effect this contract speaks about')
assumed('argparse.FileType', params={'mode': 'str'}, returns='Opaque[PyVal]', notes='argparse.FileType(mode): an opaque callable')
assumed('argparse.ArgumentParser.add_argument', self_type='argparse.ArgumentParser',
        params={'a': ('Opt[str]', 'None'), 'b': ('Opt[str]', 'None')}, any_kwargs=True,
        notes='declares an option; no effect this contract speaks about')
assumed('argparse.ArgumentParser.parse_args', self_type='argparse.ArgumentParser', params={'args': 'Opaque[PyVal]'},
        returns='Ref[argparse.Namespace]', fresh_result=True,
        ensures=[Clause('result.file == GHOST.argv_files')],
        raises=[Raise('SystemExit', label='usage-error-or-help')],
        notes='argparse: the files named on the command line, opened for reading (ghost GHOST.argv_files); usage errors '
              'and unreadable files end the process with SystemExit(2) inside argparse - status 2 is argparse\'s, outside '
              'the property (which speaks about a loadable schema and loadable files)')
assumed('__init__.loadSchema', params={'url': 'str'}, returns='Ref[info.SchemaType]',
        raises=[Raise('Exception+', label='schema-not-loadable')],
        notes='loading the schema: outside the property (it assumes a loadable schema); anything may be raised')
assumed('__init__.loadConfigFile', params={'schema': 'Ref[info.SchemaType]', 'file': 'Ref[File]'}, returns='Opaque[PyVal]',
        ensures=[Clause('not file.cfg_bad')],
        raises=[Raise('ZConfig.ConfigurationError+', when='file.cfg_bad', label='invalid-configuration')],
        notes='ASSUMED here, and exactly what the other C07 obligations establish for the loading entry point: it returns, or '
              'raises an exception of the configuration-error family (ghost field File.cfg_bad = the file is invalid); '
              'errors raised by a datatype function itself pass through and are outside this clause')
assumed('sys.stdin.isatty', params={}, returns='bool', pure=True, ensures=[Clause('result == GHOST.stdin_is_tty')],
        notes='whether standard input is a terminal (ghost GHOST.stdin_is_tty)')
assumed('builtins.print', params={'text': 'str', 'file': 'Ref[File]'}, modifies=['GHOST.messages'],
        ensures=[Clause('GHOST.messages == old(GHOST.messages) + 1')], notes='one message written to the given stream')
assumed('builtins.str', params={'x': 'Ref[ZConfig.ConfigurationError]'}, returns='str', pure=True)

FILES = 'checked_files(GHOST.argv_files, GHOST.stdin_is_tty, ext("sys.stdin"))'
contract('validator.main', params={'args': 'Opaque[PyVal]'}, returns='int',
         modifies=['GHOST.messages', '+argparse.Namespace.file'],
         ensures=[Clause('result == 0 or result == 1', carries='C07', label='status-is-0-or-1'),
                  Clause('(result == 1) == (count_bad(%s, 0) > 0)' % FILES, carries='C07', label='status-1-iff-some-file-is-invalid'),
                  Clause('GHOST.messages == old(GHOST.messages) + count_bad(%s, 0)' % FILES, carries='C07',
                         label='one-message-per-invalid-file')],
         raises=[Raise('SystemExit', label='argparse'), Raise('Exception+', label='schema-not-loadable')],
         loops=[Loop(invariant=[Clause('options.file == %s' % FILES),
                                Clause('count_bad(options.file, 0) - count_bad(options.file, _i0) >= 0'),
                                Clause('errors == (count_bad(options.file, 0) - count_bad(options.file, _i0) > 0)'),
                                Clause('GHOST.messages == old(GHOST.messages) + count_bad(options.file, 0) - count_bad(options.file, _i0)')],
                     hints=['count_bad(options.file, _i0)'])])
