"""Specifications of the regular expressions that carry properties.

Each entry names where the LIVE pattern is read from (tree under test) and a
list of checks.  A spec is itself a regular expression, but read as a plain
regular LANGUAGE (re.fullmatch semantics, no priorities); the live pattern is
read with CPython's leftmost-first semantics.  The marker character U+2038
stands for "the position where the match (or the group) ends / starts".
All specs are written from the property statements, not from the patterns.
"""
M = '‸'
ANY = r'(?:.|\n)*'
NAME = r'[a-zA-Z_][a-zA-Z0-9_]*'
IDENT = r'[_a-zA-Z][_a-zA-Z0-9]*'
OCTET = r'(?:[0-9]|[0-9][0-9]|[01][0-9][0-9]|2[0-4][0-9]|25[0-5])'

KEYCH = r'[^\s()]'          # neither whitespace nor parentheses
NONL = r'[^\n]*'            # lines never contain a newline (nextline strips it)

RX = [
    # ---- C03: the two line patterns of cfgparser ------------------------------------------------------
    {'id': 'rx:cfgparser._keyvalue_rx', 'source': 'ZConfig.cfgparser:_keyvalue_rx',
     'checks': [
         # matches iff the text starts with a key character (kv_ok)
         {'label': 'matches-iff-starts-with-key-char', 'kind': 'match', 'carries': 'C03',
          'spec': KEYCH + NONL, 'domain': NONL},
         # key = the MAXIMAL leading run of key characters (kv_key)
         {'label': 'key-is-maximal-run', 'kind': 'group-end', 'group': 'key', 'carries': 'C03',
          'spec': KEYCH + '+' + M + r'(?:[\s()]' + NONL + r')?', 'domain': NONL},
         {'label': 'key-starts-at-0', 'kind': 'group-start', 'group': 'key', 'carries': 'C03',
          'spec': M + KEYCH + NONL, 'domain': NONL},
         # value = everything after the key and the whitespace following it, to the end (kv_value)
         {'label': 'value-starts-after-whitespace', 'kind': 'group-start', 'group': 'value', 'carries': 'C03',
          'spec': KEYCH + r'+(?:\s+' + M + r'[^\s]' + NONL + '|' + M + r'[()]' + NONL + ')', 'domain': NONL},
         {'label': 'value-runs-to-end', 'kind': 'group-end', 'group': 'value', 'carries': 'C03',
          'spec': KEYCH + r'+(?:\s+[^\s]' + NONL + r'|[()]' + NONL + ')' + M, 'domain': NONL},
         {'label': 'value-absent-iff-nothing-follows', 'kind': 'group-absent', 'group': 'value', 'carries': 'C03',
          'spec': KEYCH + r'+\s*', 'domain': NONL},
     ]},
    {'id': 'rx:cfgparser._section_start_rx', 'source': 'ZConfig.cfgparser:_section_start_rx',
     'checks': [
         # NAME or NAME ws+ NAME, exactly (sec_ok)
         {'label': 'matches-iff-one-or-two-names', 'kind': 'match', 'carries': 'C03',
          'spec': KEYCH + r'+(?:\s+' + KEYCH + '+)?', 'domain': NONL},
         {'label': 'type-is-first-name', 'kind': 'group-end', 'group': 'type', 'carries': 'C03',
          'spec': KEYCH + '+' + M + r'(?:\s+' + KEYCH + '+)?', 'domain': NONL},
         {'label': 'name-is-second-name', 'kind': 'group-start', 'group': 'name', 'carries': 'C03',
          'spec': KEYCH + r'+\s+' + M + KEYCH + '+', 'domain': NONL},
         {'label': 'name-runs-to-end', 'kind': 'group-end', 'group': 'name', 'carries': 'C03',
          'spec': KEYCH + r'+\s+' + KEYCH + '+' + M, 'domain': NONL},
         {'label': 'name-absent-iff-single-name', 'kind': 'group-absent', 'group': 'name', 'carries': 'C03',
          'spec': KEYCH + '+', 'domain': NONL},
     ]},
    {'id': 'rx:substitution._name_re',
     'source': 'ZConfig.substitution:_name_match.__self__',
     'checks': [
         # C04: a name is a letter or underscore followed by letters, digits, underscores, taken maximally
         {'label': 'matches-iff-name-start', 'kind': 'match', 'carries': 'C04',
          'spec': r'[a-zA-Z_]' + ANY},
         {'label': 'end-is-maximal-munch', 'kind': 'end', 'carries': 'C04',
          'spec': NAME + M + r'(?:[^a-zA-Z0-9_]' + ANY + r')?'},
     ]},
    # ---- C18: what counts as a URL rather than a path: an RFC 3986 scheme followed by ':' ----
    {'id': 'rx:loader._pathsep_rx', 'source': 'ZConfig.loader:BaseLoader._pathsep_rx',
     'checks': [
         {'label': 'matches-iff-scheme-colon-prefix', 'kind': 'match', 'carries': 'C18',
          'spec': r'[a-zA-Z][-+.a-zA-Z0-9]*:' + ANY},
         {'label': 'match-is-scheme-and-colon', 'kind': 'end', 'carries': 'C18',
          'spec': r'[a-zA-Z][-+.a-zA-Z0-9]*:' + M + ANY},
     ]},
    # ---- C09: regular-expression datatypes ("prefix match, then compare with the whole string") ----
    {'id': 'rx:datatypes.basic-key', 'source': 'ZConfig.datatypes:BasicKeyConversion()._rx',
     'checks': [
         {'label': 'accepts-exactly', 'kind': 'match-then-whole', 'carries': 'C09,C10',
          'spec': r'[a-zA-Z][-._a-zA-Z0-9]*'},       # a letter followed by letters, digits, '-', '.', '_'
         {'label': 'first-match-equals-full-language', 'kind': 'first-equals-full', 'carries': 'C09,C10'},
     ]},
    {'id': 'rx:datatypes.identifier', 'source': 'ZConfig.datatypes:IdentifierConversion()._rx',
     'checks': [
         {'label': 'accepts-exactly', 'kind': 'match-then-whole', 'carries': 'C09,C10', 'spec': IDENT},
         {'label': 'first-match-equals-full-language', 'kind': 'first-equals-full', 'carries': 'C09,C10'},
     ]},
    {'id': 'rx:datatypes.dotted-name', 'source': 'ZConfig.datatypes:DottedNameConversion()._rx',
     'checks': [
         {'label': 'accepts-exactly', 'kind': 'match-then-whole', 'carries': 'C09,C10',
          'spec': IDENT + r'(?:\.' + IDENT + r')*'},
         {'label': 'first-match-equals-full-language', 'kind': 'first-equals-full', 'carries': 'C09,C10'},
     ]},
    {'id': 'rx:datatypes.dotted-suffix', 'source': 'ZConfig.datatypes:DottedNameSuffixConversion()._rx',
     'checks': [
         {'label': 'accepts-exactly', 'kind': 'match-then-whole', 'carries': 'C09',
          'spec': r'\.?' + IDENT + r'(?:\.' + IDENT + r')*'},
         {'label': 'first-match-equals-full-language', 'kind': 'first-equals-full', 'carries': 'C09'},
     ]},
    {'id': 'rx:datatypes.ipaddr-or-hostname', 'source': 'ZConfig.datatypes:IpaddrOrHostname()._rx',
     'checks': [
         # the pattern stage must let through: dotted-quad IPv4, host names, and every candidate
         # IPv6 text (hex digits, ':' and '.', at least one colon) - inet_pton decides those afterwards
         # (the statement does not say whether a ONE-character host name is a host name: allowed either way)
         {'label': 'accepts-exactly', 'kind': 'between', 'carries': 'C09',
          'spec': r'(?:' + OCTET + r'\.){3}' + OCTET + r'|[A-Za-z_](?:[-A-Za-z0-9_.]*[-A-Za-z0-9_])?'
                  r'|[0-9A-Fa-f:.]+:[0-9A-Fa-f:.]*',
          'spec_lower': r'(?:' + OCTET + r'\.){3}' + OCTET + r'|[A-Za-z_][-A-Za-z0-9_.]*[-A-Za-z0-9_]'
                        r'|[0-9A-Fa-f:.]+:[0-9A-Fa-f:.]*'},
         {'label': 'first-match-equals-full-language', 'kind': 'first-equals-full', 'carries': 'C09'},
     ]},
]
