"""Specifications of the regular expressions that carry properties.

Each entry names where the LIVE pattern is read from (tree under test) and a
list of checks.  A spec is itself a regular expression, but read as a plain
regular LANGUAGE (re.fullmatch semantics, no priorities); the live pattern is
read with CPython's leftmost-first semantics.  The marker character U+2038
stands for "the position where the match (or the group) ends / starts".
All specs are written from the property statements, not from the patterns.
"""
M = '‸'
ANY = r'(?:.|\n)*'
NAME = r'[a-zA-Z_][a-zA-Z0-9_]*'

RX = [
    {'id': 'rx:substitution._name_re',
     'source': 'ZConfig.substitution:_name_match.__self__',
     'checks': [
         # C04: a name is a letter or underscore followed by letters, digits, underscores, taken maximally
         {'label': 'matches-iff-name-start', 'kind': 'match', 'carries': 'C04',
          'spec': r'[a-zA-Z_]' + ANY},
         {'label': 'end-is-maximal-munch', 'kind': 'end', 'carries': 'C04',
          'spec': NAME + M + r'(?:[^a-zA-Z0-9_]' + ANY + r')?'},
     ]},
]
