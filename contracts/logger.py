"""Contracts for ZConfig/components/logger (property C20)."""
from pyvc.api import (At, Clause, Loop, Raise, REGISTRY, MODELS, assumed, contract, global_const, inline, model,
                      prim, spec_module)
import contracts.datatypes          # int_ok / int_of, builtins.int
import spec.logger as SL

spec_module(SL)
LG = 'components.logger.'

# ---- level names ------------------------------------------------------------------------------------------------
contract(LG + 'datatypes.logging_level', params={'value': 'str'}, returns='int',
         ensures=[Clause('implies(level_of(value.lower()) >= 0, result == level_of(value.lower()))', carries='C20',
                         label='level-names-map-case-insensitively-to-the-documented-numbers'),
                  Clause('implies(level_of(value.lower()) < 0, result == int_of(value.lower()) and 0 <= result and result <= 50)',
                         carries='C20', label='integers-within-0-50')],
         raises=[Raise('ValueError',
                       when='level_of(value.lower()) < 0 and (not int_ok(value.lower()) or int_of(value.lower()) < 0 '
                            'or int_of(value.lower()) > 50)', carries='C20', label='not-a-level')])

# ---- factories: create once -------------------------------------------------------------------------------------
global_const(LG + 'factory._marker', 'Opaque[PyVal]', alias='FACTORY_MARKER')
MODELS['Ghost'].fields['creates'] = 'int'
model(LG + 'factory.Factory', fields={'instance': 'Opaque[PyVal]'})
contract(LG + 'factory.Factory.__init__', ensures=[Clause('self.instance == FACTORY_MARKER', carries='C20', label='nothing-created-yet')])
assumed(LG + 'factory.Factory.create', returns='Opaque[PyVal]', modifies=['GHOST.creates'],
        ensures=[Clause('result != FACTORY_MARKER'), Clause('GHOST.creates == old(GHOST.creates) + 1')],
        raises=[Raise('Exception+', then=[Clause('GHOST.creates == old(GHOST.creates) + 1')])],
        notes='abstract method: building the logger / handler (counted by the ghost GHOST.creates); the '
              'object built is never the module sentinel FACTORY_MARKER')
contract(LG + 'factory.Factory.__call__', returns='Opaque[PyVal]', modifies=['self.instance', 'GHOST.creates'],
         ensures=[Clause('result == self.instance and result != FACTORY_MARKER', label='returns-the-instance'),
                  Clause('implies(old(self.instance) != FACTORY_MARKER, result == old(self.instance) and '
                         'GHOST.creates == old(GHOST.creates))', carries='C20',
                         label='called-again-same-object-nothing-created'),
                  Clause('implies(old(self.instance) == FACTORY_MARKER, GHOST.creates == old(GHOST.creates) + 1)', carries='C20',
                         label='created-exactly-once')],
         raises=[Raise('Exception+', then=[Clause('self.instance == old(self.instance)', label='still-not-created')],
                       label='create-failed')])

# ---- <logfile>: which option combinations are refused ----------------------------------------------------------------
model('LogfileSection', fields={'path': 'str', 'max_size': 'int', 'old_files': 'int', 'when': 'Opt[str]',
                                'interval': 'int', 'encoding': 'Opt[str]', 'delay': 'bool',
                                'level': 'int'}, external=True)
model(LG + 'handlers.HandlerFactory', fields={'section': 'Ref[LogfileSection]', 'create_formatter': 'Opaque[PyVal]'})
assumed('new:' + LG + 'formatter.FormatterFactory', params={'section': 'Ref[LogfileSection]'}, returns='Opaque[PyVal]',
        notes='the formatter factory (format / style validation happens in its datatypes): not verified')
contract(LG + 'handlers.HandlerFactory.__init__', params={'section': 'Ref[LogfileSection]'},
         ensures=[Clause('self.section == section and self.instance == FACTORY_MARKER', label='stores-section')])
model(LG + 'handlers.FileHandlerFactory', fields={'_factory': 'Opaque[PyVal]'})
assumed('functools.partial', params={'fn': 'Opaque[PyVal]', 'a': ('Opaque[PyVal]', 'None')}, returns='Opaque[PyVal]',
        any_kwargs=True,
        notes='functools.partial(...): an opaque callable')
REFUSED = ('logfile_refused(section.path, section.max_size, section.old_files, section.when, section.interval, '
           'section.encoding, section.delay)')
contract(LG + 'handlers.FileHandlerFactory.__init__', params={'section': 'Ref[LogfileSection]'},
         requires=[Clause('section.max_size >= 0 and section.old_files >= 0 and section.interval >= 0',
                          label='sizes-and-counts-are-non-negative')],
         ensures=[Clause('not ' + REFUSED, carries='C20', label='accepted-only-if-the-combination-is-allowed'),
                  Clause('self.section == section')],
         raises=[Raise('ValueError', when=REFUSED, carries='C20',
                       label='rotation-options-refused-for-std-streams-rotation-needs-old-files')])
