"""Contracts for ZConfig/components/logger (property C20)."""
from pyvc.api import (At, Clause, Loop, Raise, REGISTRY, MODELS, assumed, contract, global_const, inline, model,
                      prim, spec_module)
import contracts.datatypes          # int_ok / int_of, builtins.int
import spec.logger as SL

spec_module(SL)
LG = 'components.logger.'

# ---- level names ------------------------------------------------------------------------------------------------
contract(LG + 'datatypes.logging_level', params={'value': 'str'}, returns='int',
         ensures=[Clause('implies(level_of(value.lower()) >= 0, result == level_of(value.lower()))', carries='C20',
                         label='level-names-map-case-insensitively-to-the-documented-numbers'),
                  Clause('implies(level_of(value.lower()) < 0, result == int_of(value.lower()) and 0 <= result and result <= 50)',
                         carries='C20', label='integers-within-0-50')],
         raises=[Raise('ValueError',
                       when='level_of(value.lower()) < 0 and (not int_ok(value.lower()) or int_of(value.lower()) < 0 '
                            'or int_of(value.lower()) > 50)', carries='C20', label='not-a-level')])

# ---- factories: create once -------------------------------------------------------------------------------------
global_const(LG + 'factory._marker', 'Opaque[PyVal]', alias='FACTORY_MARKER')
MODELS['Ghost'].fields['creates'] = 'int'
model(LG + 'factory.Factory', fields={'instance': 'Opaque[PyVal]'})
contract(LG + 'factory.Factory.__init__', ensures=[Clause('self.instance == FACTORY_MARKER', carries='C20', label='nothing-created-yet')])
assumed(LG + 'factory.Factory.create', returns='Opaque[PyVal]', modifies=['GHOST.creates'],
        ensures=[Clause('result != FACTORY_MARKER'), Clause('GHOST.creates == old(GHOST.creates) + 1')],
        raises=[Raise('Exception+', then=[Clause('GHOST.creates == old(GHOST.creates) + 1')])],
        notes='abstract method: building the logger / handler (counted by the ghost GHOST.creates); the '
              'object built is never the module sentinel FACTORY_MARKER')
contract(LG + 'factory.Factory.__call__', returns='Opaque[PyVal]', modifies=['self.instance', 'GHOST.creates'],
         ensures=[Clause('result == self.instance and result != FACTORY_MARKER', label='returns-the-instance'),
                  Clause('implies(old(self.instance) != FACTORY_MARKER, result == old(self.instance) and '
                         'GHOST.creates == old(GHOST.creates))', carries='C20',
                         label='called-again-same-object-nothing-created'),
                  Clause('implies(old(self.instance) == FACTORY_MARKER, GHOST.creates == old(GHOST.creates) + 1)', carries='C20',
                         label='created-exactly-once')],
         raises=[Raise('Exception+', then=[Clause('self.instance == old(self.instance)', label='still-not-created')],
                       label='create-failed')])

# ---- <logfile>: which option combinations are refused ----------------------------------------------------------------
model('LogfileSection', fields={'path': 'str', 'max_size': 'int', 'old_files': 'int', 'when': 'Opt[str]',
                                'interval': 'int', 'encoding': 'Opt[str]', 'delay': 'bool',
                                'level': 'int'}, external=True)
model(LG + 'handlers.HandlerFactory', fields={'section': 'Ref[LogfileSection]', 'create_formatter': 'Fun[mkfmt]'})
assumed('new:' + LG + 'formatter.FormatterFactory', params={'section': 'Ref[LogfileSection]'}, returns='Fun[mkfmt]',
        notes='the formatter factory (format / style validation happens in its datatypes): not verified')
contract(LG + 'handlers.HandlerFactory.__init__', params={'section': 'Ref[LogfileSection]'},
         ensures=[Clause('self.section == section and self.instance == FACTORY_MARKER', label='stores-section')])
model(LG + 'handlers.FileHandlerFactory', fields={'_factory': 'Opaque[PyVal]'})
assumed('functools.partial', params={'fn': 'Opaque[PyVal]', 'a': ('Opaque[PyVal]', 'None')}, returns='Opaque[PyVal]',
        any_kwargs=True,
        notes='functools.partial(...): an opaque callable')
REFUSED = ('logfile_refused(section.path, section.max_size, section.old_files, section.when, section.interval, '
           'section.encoding, section.delay)')
contract(LG + 'handlers.FileHandlerFactory.__init__', params={'section': 'Ref[LogfileSection]'},
         requires=[Clause('section.max_size >= 0 and section.old_files >= 0 and section.interval >= 0',
                          label='sizes-and-counts-are-non-negative')],
         ensures=[Clause('not ' + REFUSED, carries='C20', label='accepted-only-if-the-combination-is-allowed'),
                  Clause('self.section == section')],
         raises=[Raise('ValueError', when=REFUSED, carries='C20',
                       label='rotation-options-refused-for-std-streams-rotation-needs-old-files')])

# ---- the registry of reopenable file handlers (weak references) --------------------------------------------------------
from pyvc.api import shared_list
model('LogHandler', fields={}, external=True)
model('WeakRef', fields={'target': 'Opt[Ref[LogHandler]]'}, external=True)
shared_list('weakrefs', 'Ref[WeakRef]')
global_const(LG + 'loghandler._reopenable_handlers', 'Ref[list:weakrefs]', alias='LOG_REGISTRY')
MODELS['Ghost'].fields['reopened'] = 'Seq[Ref[LogHandler]]'
MODELS['Ghost'].fields['closed'] = 'Seq[Ref[LogHandler]]'
assumed('WeakRef.__call__', self_type='WeakRef', params={}, returns='Opt[Ref[LogHandler]]', pure=True,
        ensures=[Clause('result == self.target')], notes='a weak reference: its referent while alive, else None')
assumed('LogHandler.reopen', self_type='LogHandler', params={}, modifies=['GHOST.reopened'],
        ensures=[Clause('GHOST.reopened == old(GHOST.reopened) + [self]')],
        notes='reopen() of a file handler (stream effects not modelled); ghost log of the handlers acted on')
assumed('LogHandler.close', self_type='LogHandler', params={}, modifies=['GHOST.closed', 'LOG_REGISTRY.items'],
        ensures=[Clause('GHOST.closed == old(GHOST.closed) + [self]'),
                 Clause('len(LOG_REGISTRY.items) <= len(old(LOG_REGISTRY.items))')],
        notes='close() of a file handler: closes the stream and removes its own weak reference from the registry')
contract(LG + 'loghandler._remove_from_reopenable', params={'wr': 'Ref[WeakRef]'}, modifies=['LOG_REGISTRY.items'],
         ensures=[Clause('implies(wr in old(LOG_REGISTRY.items), len(LOG_REGISTRY.items) == len(old(LOG_REGISTRY.items)) - 1)',
                         carries='C20', label='reference-removed-once'),
                  Clause('implies(wr not in old(LOG_REGISTRY.items), LOG_REGISTRY.items == old(LOG_REGISTRY.items))',
                         carries='C20', label='unknown-reference-ignored')])
contract(LG + 'loghandler.reopenFiles', modifies=['GHOST.reopened', 'LOG_REGISTRY.items'],
         ensures=[Clause('GHOST.reopened == old(GHOST.reopened) + live_handlers(old(LOG_REGISTRY.items), 0)', carries='C20',
                         label='exactly-the-handlers-still-alive-are-reopened-once-each-in-order')],
         hints=['live_handlers(old(LOG_REGISTRY.items), _i0)'],
         loops=[Loop(invariant=[Clause('GHOST.reopened + live_handlers(old(LOG_REGISTRY.items), _i0) == '
                                       'old(GHOST.reopened) + live_handlers(old(LOG_REGISTRY.items), 0)',
                                       label='reopened-so-far-plus-remaining')],
                     hints=['live_handlers(old(LOG_REGISTRY.items), _i0)'],
                     locals={'wr': 'Ref[WeakRef]', 'h': 'Opt[Ref[LogHandler]]'},
                     modifies=['GHOST.reopened', 'LOG_REGISTRY.items'])])
contract(LG + 'loghandler.closeFiles', modifies=['GHOST.closed', 'LOG_REGISTRY.items'],
         ensures=[Clause('len(LOG_REGISTRY.items) == 0', carries='C20', label='registry-emptied')],
         loops=[Loop(invariant=[], decreases='len(LOG_REGISTRY.items)',
                     locals={'wr': 'Ref[WeakRef]', 'h': 'Opt[Ref[LogHandler]]'},
                     modifies=['GHOST.closed', 'LOG_REGISTRY.items'])])

# ---- logger factories: the configured logging setup (logging package ASSUMED) ------------------------------------------
model('ext:logging.Logger', fields={'level': 'int', 'handlers': 'Seq[Opaque[PyVal]]', 'propagate': 'bool'}, external=True)
prim('logger_of', 'Opt[str] -> Ref[ext:logging.Logger]')
assumed('logging.getLogger', params={'name': ('Opt[str]', 'None')}, returns='Ref[ext:logging.Logger]', pure=True,
        ensures=[Clause('result == logger_of(name)')],
        notes='logging.getLogger(name): THE logger of that name (the root logger for None)')
assumed('ext:logging.Logger.setLevel', self_type='ext:logging.Logger', params={'level': 'int'}, modifies=['self.level'],
        ensures=[Clause('self.level == level')])
assumed('ext:logging.Logger.addHandler', self_type='ext:logging.Logger', params={'hdlr': 'Opaque[PyVal]'},
        modifies=['self.handlers'], ensures=[Clause('self.handlers == add_handler(old(self.handlers), hdlr)')],
        notes='logging.Logger.addHandler: appended unless already present')
model('LoggerSection', fields={'level': 'int', 'handlers': 'Seq[Ref[%shandlers.HandlerFactory]]' % LG, 'name': 'Opt[str]',
                               'propagate': 'bool'}, external=True)
model(LG + 'logger.LoggerFactoryBase', fields={'level': 'int', 'handler_factories': 'Seq[Ref[%shandlers.HandlerFactory]]' % LG,
                                               'name': 'Opt[str]'}, late_fields=('name',))
model(LG + 'logger.LoggerFactory', fields={'propagate': 'bool'})
contract(LG + 'logger.LoggerFactoryBase.__init__', params={'section': 'Ref[LoggerSection]'},
         ensures=[Clause('self.level == section.level and self.handler_factories == section.handlers and '
                         'self.instance == FACTORY_MARKER', carries='C20', label='configured-level-and-handler-factories')])
contract(LG + 'logger.LoggerFactory.__init__', params={'section': 'Ref[LoggerSection]'},
         ensures=[Clause('self.level == section.level and self.handler_factories == section.handlers and '
                         'self.name == section.name and self.propagate == section.propagate and '
                         'self.instance == FACTORY_MARKER', carries='C20', label='configured-name-level-propagate')])
model(LG + 'loghandler.NullHandler', fields={})
FAC_INST = '*%sfactory.Factory.instance' % LG
ALL_CALLED = ('forall(lambda j: implies(0 <= j and j < len(self.handler_factories), '
              'self.handler_factories[j].instance != FACTORY_MARKER))')
contract(LG + 'logger.LoggerFactoryBase.create', returns='Ref[ext:logging.Logger]',
         modifies=['GHOST.creates', FAC_INST, '*ext:logging.Logger.level', '*ext:logging.Logger.handlers'],
         ensures=[Clause('result == logger_of(self.name)', carries='C20', label='the-logger-of-the-configured-name'),
                  Clause('result.level == self.level', carries='C20', label='configured-level'),
                  Clause(ALL_CALLED, carries='C20', label='every-handler-factory-has-been-called'),
                  Clause('len(result.handlers) <= len(old(logger_of(self.name).handlers)) + max(1, len(self.handler_factories))',
                         carries='C20', label='at-most-one-handler-added-per-handler-section (one NullHandler when there is none)'),
                  Clause('len(result.handlers) >= len(old(logger_of(self.name).handlers))', label='none-removed')],
         raises=[Raise('Exception+', label='a-handler-factory-failed')],
         loops=[Loop(invariant=[Clause('logger == logger_of(self.name) and logger.level == self.level'),
                                Clause('forall(lambda j: implies(0 <= j and j < _i0, '
                                       'self.handler_factories[j].instance != FACTORY_MARKER))', label='called-so-far'),
                                Clause('len(logger.handlers) <= len(old(logger_of(self.name).handlers)) + _i0 and '
                                       'len(logger.handlers) >= len(old(logger_of(self.name).handlers))')],
                     locals={'handler_factory': 'Ref[%shandlers.HandlerFactory]' % LG, 'handler': 'Opaque[PyVal]',
                             'logger': 'Ref[ext:logging.Logger]'},
                     modifies=['GHOST.creates', FAC_INST, '*ext:logging.Logger.handlers'])])
contract(LG + 'logger.LoggerFactory.create', returns='Ref[ext:logging.Logger]',
         modifies=['GHOST.creates', FAC_INST, '*ext:logging.Logger.level', '*ext:logging.Logger.handlers',
                   '*ext:logging.Logger.propagate'],
         ensures=[Clause('result == logger_of(self.name) and result.level == self.level', carries='C20',
                         label='the-named-logger-with-the-configured-level'),
                  Clause('result.propagate == self.propagate', carries='C20', label='configured-propagate-flag')],
         raises=[Raise('Exception+', label='a-handler-factory-failed')])

# ---- a handler factory builds the handler, gives it the configured formatter and level (C20) -------------------------
model('ext:logging.Handler', fields={'level': 'int', 'formatter': 'Opt[Opaque[PyVal]]'}, external=True, bases=['LogHandler'])
assumed('ext:logging.Handler.setFormatter', self_type='ext:logging.Handler', params={'fmt': 'Opaque[PyVal]'},
        modifies=['self.formatter'], ensures=[Clause('self.formatter == fmt')], notes='logging.Handler.setFormatter')
assumed('ext:logging.Handler.setLevel', self_type='ext:logging.Handler', params={'level': 'int'},
        modifies=['self.level'], ensures=[Clause('self.level == level')], notes='logging.Handler.setLevel (an int level)')
MODELS[LG + 'handlers.HandlerFactory'].fields['create_formatter'] = 'Fun[mkfmt]'
prim('fmt_made', 'Fun[mkfmt] -> Opaque[PyVal]')
assumed('fun:mkfmt', params={'fn': 'Fun[mkfmt]'}, returns='Opaque[PyVal]', pure=True,
        ensures=[Clause('result == fmt_made(fn)')], raises=[Raise('Exception+')],
        notes='the formatter factory of the section (formatter.FormatterFactory.__call__): builds the formatter for the '
              'configured format and style, may raise (known findings KF-C20-format-*)')
assumed(LG + 'handlers.HandlerFactory.create_loghandler', returns='Ref[ext:logging.Handler]', fresh_result=True,
        ensures=[Clause('fresh(result)')], raises=[Raise('Exception+')],
        notes='abstract method: the handler object for the section (file, syslog, http, smtp, event log: not verified)')
contract(LG + 'handlers.HandlerFactory.create', returns='Ref[ext:logging.Handler]', fresh_result=True,
         ensures=[Clause('fresh(result) and result.level == self.section.level', carries='C20', label='a-new-handler-with-the-configured-level'),
                  Clause('result.formatter == fmt_made(self.create_formatter)', carries='C20',
                         label='and-the-formatter-built-from-the-configured-format')],
         raises=[Raise('Exception+', label='building-the-handler-or-the-formatter-failed')])
