"""Contracts for ZConfig/cfgparser.py (properties C03, C05, C06, C07, C08, C15)."""
from pyvc.api import (At, Clause, Loop, Raise, assumed, contract, inline, model, prim, shared_dict,
                      spec_module)
import spec.lines as L
import contracts.substitution   # dict:defines, subst_spec

spec_module(L)

# ---- regular expressions: specification primitives + assumed match contracts ----------------
prim('first_word', 'str -> str', native=L.first_word)
prim('after_first_word', 'str -> Opt[str]', native=L.after_first_word)
prim('kv_ok', 'str -> bool', native=L.kv_ok)
prim('kv_key', 'str -> str', native=L.kv_key, args=['t'],
     axioms=["implies(kv_ok(t), result != '')"])
prim('kv_value', 'str -> Opt[str]', native=L.kv_value, args=['t'],
     axioms=["implies(result is not None, val(result) != '' and first_word(val(result)) != '')"])
prim('sec_ok', 'str -> bool', native=L.sec_ok)
prim('sec_type', 'str -> str', native=L.sec_type, args=['t'],
     axioms=["implies(sec_ok(t), result != '')", "result.lower().rstrip() == result.lower()"])
prim('sec_name', 'str -> Opt[str]', native=L.sec_name, args=['t'],
     axioms=["implies(result is not None, val(result) != '')"])

model('rxmatch:kv', fields={'g_key': 'str', 'g_value': 'Opt[str]'}, external=True)
assumed('cfgparser._keyvalue_rx.match', params={'string': 'str'}, returns='Opt[Ref[rxmatch:kv]]',
        fresh_result=True,
        requires=[Clause("'\\n' not in string", label='single-line')],
        ensures=[Clause('(result is None) == (not kv_ok(string))'),
                 Clause('implies(result is not None, result.g_key == kv_key(string) and '
                        'result.g_value == kv_value(string))')],
        notes='generated from the live pattern: automaton obligations rx:cfgparser._keyvalue_rx')
model('rxmatch:sec', fields={'g_type': 'str', 'g_name': 'Opt[str]'}, external=True)
assumed('cfgparser._section_start_rx.match', params={'string': 'str'}, returns='Opt[Ref[rxmatch:sec]]',
        fresh_result=True,
        requires=[Clause("'\\n' not in string", label='single-line')],
        ensures=[Clause('(result is None) == (not sec_ok(string))'),
                 Clause('implies(result is not None, result.g_type == sec_type(string) and '
                        'result.g_name == sec_name(string))')],
        notes='generated from the live pattern: automaton obligations rx:cfgparser._section_start_rx')

# ---- the objects the parser talks to ---------------------------------------------------------------
model('File', fields={'lines': 'Seq[str]'}, external=True)
assumed('File.readline', params={}, returns='str', self_type='File', modifies=['self.lines'],
        ensures=[Clause("implies(len(old(self.lines)) == 0, result == '' and self.lines == old(self.lines))"),
                 Clause("implies(len(old(self.lines)) > 0, result == old(self.lines)[0] and "
                        "self.lines == old(self.lines)[1:] and len(result) > 0 and '\\n' not in result[:-1])")],
        notes='text file / StringIO: readline returns the text up to and including the next newline, the rest, '
              "or '' at end")

EVENT = 'Tuple[str, str, int, Opt[str]]'
model('Sink', fields={'events': 'Seq[%s]' % EVENT, 'finished': 'bool'}, external=True, defaults={'finished': 'False'})
ERR_THEN = [Clause('implies(exc.has_lineno, exc.lineno is not None)')]
assumed('Sink.addValue', self_type='Sink',
        params={'key': 'str', 'value': 'str', 'position': 'Tuple[int, Opt[int], Opt[str]]'},
        modifies=['self.events'],
        ensures=[Clause('self.events == old(self.events) + [(key, value, position[0], position[2])]')],
        raises=[Raise('ZConfig.ConfigurationError+', then=ERR_THEN + [
            Clause('implies(exc.has_lineno, exc.lineno == position[0])'),
            Clause('exc.url is None or exc.url == position[2]')])],
        notes='the section / matcher interface: records the value or raises a configuration error; a '
              'conversion error carries the position it was given (proved for matcher.BaseMatcher.addValue)')

# the position a conversion error carried when the section interface raised it (ghost names for
# "the value at raise time": the parser may only FILL IN a missing position, never replace one)
prim('raised_lineno', 'Ref[__init__.ConfigurationError] -> Opt[int]')
prim('raised_url', 'Ref[__init__.ConfigurationError] -> Opt[str]')
model('ParserContext', fields={}, external=True)
CTX_MOD = ['*Sink.events']
# ghost: the number of files / streams currently open (C19).  %import and %include open resources:
# the context must have closed them again when it returns OR raises; every parser function on the
# way passes that on.
model('Ghost', fields={'open_files': 'int'}, external=True)
UNCHANGED_OPEN = Clause('GHOST.open_files == old(GHOST.open_files)', carries='C19', label='nothing-left-open')
# (an %import may also replace the loader's schema by a private, extended copy: C12)
LOADER_SCHEMA = ['*loader.ConfigLoader.schema', '*loader.ConfigLoader._private_schema', '*loader.ConfigLoader._loader']
CTX_MOD2 = CTX_MOD + ['GHOST.open_files'] + LOADER_SCHEMA
IOERR = Raise('OSError', then=[UNCHANGED_OPEN], label='io-error-while-reading-a-resource (environment fault, passes through)')
prim('url_ok', 'str -> bool', args=['u'],      # urllib can parse the URL (no ValueError)
     axioms=['implies(result, url_ok(file3(u)))'])   # (assumed) writing out the empty host of a file URL keeps it parseable
# typestate of a sink (C02, C07): `finished` is a ghost flag, false for a new sink, set when the
# context closes it; a sink is closed at most once - the parser proves that it hands every sink it
# got from startSection to endSection exactly once (stack invariants below)
# (endSection's parameter names are those of ConfigLoader.endSection, so that the behavioural-subtyping
# obligation `an implementation may not demand more than the interface` is generated for it;
# ConfigLoader.startSection additionally needs its schema to be well-formed, which is the loader's own
# business - established by loadResource - and cannot be stated at this interface: names kept different)
assumed('ParserContext.startSection', self_type='ParserContext',
        params={'section': 'Ref[Sink]', 'type_': 'str', 'name': 'Opt[str]'}, returns='Ref[Sink]',
        fresh_result=True, ensures=[Clause('fresh(result) and not result.finished', label='a-new-open-sink')],
        modifies=CTX_MOD, raises=[Raise('ZConfig.ConfigurationError+')])
assumed('ParserContext.endSection', self_type='ParserContext',
        params={'parent': 'Ref[Sink]', 'type_': 'str', 'name': 'Opt[str]', 'matcher': 'Ref[Sink]'},
        requires=[Clause('not matcher.finished', label='closed-at-most-once')],
        modifies=CTX_MOD + ['matcher.finished'], raises=[Raise('ZConfig.ConfigurationError+', then=ERR_THEN + [
            Clause("implies(isa(exc, 'ZConfig.DataConversionError'), exc.has_lineno and "
                   "exc.lineno == raised_lineno(exc) and exc.url == raised_url(exc))")])])
assumed('ParserContext.importSchemaComponent', self_type='ParserContext', params={'pkgname': 'str'},
        modifies=CTX_MOD2, ensures=[UNCHANGED_OPEN],
        raises=[Raise('ZConfig.ConfigurationError+', then=[UNCHANGED_OPEN]), IOERR])
assumed('ParserContext.includeConfiguration', self_type='ParserContext',
        params={'section': 'Ref[Sink]', 'url': 'str', 'defines': 'Ref[dict:defines]'},
        requires=[Clause('url_ok(url)', label='url-parses'), Clause('not section.finished', label='included-into-an-open-section')],
        modifies=CTX_MOD2 + ['defines.items', '+Sink.finished'], ensures=[UNCHANGED_OPEN],
        raises=[Raise('ZConfig.ConfigurationError+', then=[UNCHANGED_OPEN]), IOERR])

model('ParserResource', fields={'file': 'Ref[File]', 'url': 'Opt[str]'}, external=True)

STACK = 'Seq[Tuple[str, Opt[str], Ref[Sink]]]'
model('cfgparser.ZConfigParser',
      fields={'resource': 'Ref[ParserResource]', 'context': 'Ref[ParserContext]', 'file': 'Ref[File]',
              'url': 'Opt[str]', 'lineno': 'int', 'stack': STACK, 'defines': 'Ref[dict:defines]'},
      invariant=[Clause('self.lineno >= 0', label='lineno-nonneg'),
                 Clause('forall(lambda k: implies(0 <= k and k < len(self.stack), not self.stack[k][2].finished))',
                        label='SI-containers-on-the-stack-are-open'),
                 Clause('forall(lambda j, k: implies(0 <= j and j < k and k < len(self.stack), '
                        'self.stack[j][2] != self.stack[k][2]))', label='SI-containers-on-the-stack-are-different')])
OPEN_SECTION = [Clause('not section.finished', label='current-section-is-open'),
                Clause('forall(lambda k: implies(0 <= k and k < len(self.stack), self.stack[k][2] != section))',
                       label='current-section-is-not-one-of-its-containers')]

assumed('urllib.request.urljoin', params={'base': 'Opt[str]', 'url': 'str'}, returns='str', pure=True,
        ensures=[Clause('result == raw_join(base, url)')], raises=[Raise('ValueError')],
        notes='urllib reference resolution (RFC 3986); may raise ValueError for malformed URLs (CPython does)')
contract('url.urljoin', params={'base': 'Opt[str]', 'relurl': 'str'}, returns='str',
         ensures=[Clause('result == urljoin_val(base, relurl)', carries='C18',
                         label='resolved-reference-in-file-three-slash-form'),
                  Clause('url_ok(result)')],
         hints=['url_ok(raw_join(base, relurl))'],
         raises=[Raise('ValueError', label='malformed-url')])

# ---- the parser ------------------------------------------------------------------------------------------
contract('cfgparser.ZConfigParser.__init__',
         params={'resource': 'Ref[ParserResource]', 'context': 'Ref[ParserContext]',
                 'defines': ('Opt[Ref[dict:defines]]', 'None')},
         requires=[Clause('resource.file is not None', label='resource-is-open')],
         ensures=[Clause('self.url == resource.url and self.file == val(resource.file)', carries='C06,C18', label='url-of-resource'),
                  Clause('self.lineno == 0 and len(self.stack) == 0', carries='C06', label='own-empty-stack'),
                  Clause('implies(defines is not None, self.defines == val(defines))', carries='C05,C06',
                         label='defines-shared-by-reference'),
                  Clause('implies(defines is None, fresh(self.defines) and len(keys(self.defines)) == 0)',
                         carries='C05', label='fresh-namespace'),
                  Clause('self.context == context and self.resource == resource')])

contract('cfgparser.ZConfigParser._normalize_case', params={'string': 'str'}, returns='str', pure=True,
         ensures=[Clause('result == string.lower()', carries='C03,C15', label='lower')])

contract('cfgparser.ZConfigParser.error', params={'message': 'str'},
         ensures=[Clause('False', label='never-returns')],
         raises=[Raise('ZConfig.ConfigurationSyntaxError', when='True',
                       then=[Clause('exc.lineno == self.lineno and exc.url == self.url and exc.has_lineno',
                                    carries='C08', label='position'),
                             Clause("isclass(exc, 'ZConfig.ConfigurationSyntaxError')", carries='C03', label='class')],
                       carries='C03', label='syntax')])

contract('cfgparser.ZConfigParser.nextline', returns='Tuple[bool, Opt[str]]',
         modifies=['self.lineno', 'self.file.lines'],
         ensures=[Clause('result[0] == (len(old(self.file.lines)) == 0)', label='done-iff-exhausted'),
                  Clause('result[0] == (result[1] is None)'),
                  Clause('implies(not result[0], result[1] == old(self.file.lines)[0].strip() and '
                         'self.lineno == old(self.lineno) + 1 and self.file.lines == old(self.file.lines)[1:])',
                         carries='C03,C08,C15', label='stripped-line-and-count'),
                  Clause('implies(result[0], self.lineno == old(self.lineno) and self.file.lines == old(self.file.lines))'),
                  Clause("implies(not result[0], '\\n' not in val(result[1]))", label='single-line')])

POS = [Clause('exc.has_lineno and exc.lineno == self.lineno and exc.url == self.url', carries='C08', label='position')]

contract('cfgparser.ZConfigParser.replace', params={'text': 'str'}, returns='str',
         ensures=[Clause('subst_spec(text, self.defines.items) == (0, result)', carries='C04,C05', label='Subst')],
         raises=[Raise('ZConfig.SubstitutionSyntaxError', when='subst_spec(text, self.defines.items)[0] == 1',
                       then=POS, carries='C08', label='subst-syntax'),
                 Raise('ZConfig.SubstitutionReplacementError', when='subst_spec(text, self.defines.items)[0] == 2',
                       then=POS, carries='C08', label='subst-replacement')])

SUBST_ERR = [Raise('ZConfig.SubstitutionSyntaxError+', then=POS, carries='C08', label='subst-error')]

contract('cfgparser.ZConfigParser.handle_key_value',
         params={'section': 'Ref[Sink]', 'rest': 'str'},
         requires=[Clause("'\\n' not in rest", label='single-line'),
                   Clause('line_class(rest) == K_KV', carries='C03', label='dispatch')],
         modifies=['section.events'],
         ensures=[Clause('kv_ok(rest)', carries='C03', label='well-formed'),
                  Clause("implies(kv_value(rest) is None, section.events == old(section.events) + "
                         "[(kv_key(rest), '', self.lineno, self.url)])", carries='C03', label='absent-value-is-empty'),
                  Clause("implies(kv_value(rest) is not None, "
                         "subst_spec(val(kv_value(rest)), self.defines.items)[0] == 0 and "
                         "section.events == old(section.events) + [(kv_key(rest), "
                         "subst_spec(val(kv_value(rest)), self.defines.items)[1], self.lineno, self.url)])",
                         carries='C03,C04,C08', label='key-maximal-run-value-expanded')],
         raises=[Raise('ZConfig.ConfigurationError+', then=POS, carries='C08', label='config-error')])

contract('cfgparser.ZConfigParser.handle_directive',
         params={'section': 'Ref[Sink]', 'rest': 'str'},
         requires=[Clause("'\\n' not in rest", label='single-line'), OPEN_SECTION[0]],
         modifies=['self.defines.items', '+Sink.finished'] + CTX_MOD2,
         asserts=[At("kv_ok(rest) and kv_key(rest) == 'define' and kv_value(rest) is not None and args[1] == val(kv_value(rest))",
                     call='self.handle_define', carries='C03', label='define-dispatch'),
                  At("kv_ok(rest) and kv_key(rest) == 'import' and kv_value(rest) is not None and args[1] == val(kv_value(rest))",
                     call='self.handle_import', carries='C03', label='import-dispatch'),
                  At("kv_ok(rest) and kv_key(rest) == 'include' and kv_value(rest) is not None and args[1] == val(kv_value(rest))",
                     call='self.handle_include', carries='C03', label='include-dispatch')],
         ensures=[Clause("kv_ok(rest) and (kv_key(rest) == 'define' or kv_key(rest) == 'import' or "
                         "kv_key(rest) == 'include') and kv_value(rest) is not None", carries='C03',
                         label='only-three-directives-with-argument'), UNCHANGED_OPEN],
         raises=[Raise('ZConfig.ConfigurationError+', then=[UNCHANGED_OPEN], carries='C07', label='config-error'), IOERR])

contract('cfgparser.ZConfigParser.handle_define',
         params={'section': 'Ref[Sink]', 'rest': 'str'},
         requires=[Clause("first_word(rest) != ''", label='argument-starts-with-a-word')],
         modifies=['self.defines.items'],
         raises=[Raise('ZConfig.ConfigurationError+', then=POS, carries='C08', label='config-error')])

# ---- directives ---------------------------------------------------------------------------------------------
assumed('str.split2', params={'self': 'str', 'sep': 'None', 'maxsplit': 'int'}, returns='Seq[str]', pure=True,
        requires=[Clause('maxsplit == 1')],
        ensures=[Clause("implies(first_word(self) == '', len(result) == 0)"),
                 Clause("implies(first_word(self) != '' and after_first_word(self) is None, "
                        "len(result) == 1 and result[0] == first_word(self))"),
                 Clause("implies(first_word(self) != '' and after_first_word(self) is not None, "
                        "len(result) == 2 and result[0] == first_word(self) and result[1] == val(after_first_word(self)))")],
        notes='str.split(None, 1): first whitespace-delimited word and the remainder (cross-checked natively)')

from pyvc.api import REGISTRY
c = REGISTRY['cfgparser.ZConfigParser.handle_define']
c.ensures = [Clause('not define_err(old(self.defines.items), rest)', carries='C05,C15', label='accepted-iff-DefineStep'),
             Clause('self.defines.items == updated(old(self.defines.items), define_name(rest), '
                    'subst_spec(define_text(rest), old(self.defines.items))[1])', carries='C05,C15',
                    label='namespace-updated-with-expanded-value')]
c.raises = [Raise('ZConfig.ConfigurationError+', when='define_err(self.defines.items, rest)',
                  then=POS + [Clause('self.defines.items == old(self.defines.items)', carries='C05', label='unchanged')],
                  carries='C05,C15', label='rejected')]

import spec.urls as SU
spec_module(SU)
# urllib (assumed): reference resolution; the scheme of the result is lower-case (urlsplit lower-cases it)
prim('raw_join', 'Opt[str], str -> str', args=['b', 'r'],
     axioms=["result.lower().startswith('file:/') == result.startswith('file:/')",
             "result.lower().startswith('file:///') == result.startswith('file:///')", 'url_ok(result)'])
prim('raw_defrag', 'str -> str')
prim('raw_frag', 'str -> str')

contract('cfgparser.ZConfigParser.handle_import',
         params={'section': 'Ref[Sink]', 'rest': 'str'}, modifies=CTX_MOD2,
         asserts=[At('subst_spec(old(rest).strip(), self.defines.items) == (0, args[0])',
                     call='self.context.importSchemaComponent', carries='C03,C12', label='import-expanded-name')],
         ensures=[UNCHANGED_OPEN],
         raises=[Raise('ZConfig.ConfigurationError+', then=[UNCHANGED_OPEN], carries='C07', label='config-error'), IOERR])

contract('cfgparser.ZConfigParser.handle_include',
         params={'section': 'Ref[Sink]', 'rest': 'str'}, modifies=CTX_MOD2 + ['self.defines.items', '+Sink.finished'],
         requires=[OPEN_SECTION[0]],
         ensures=[UNCHANGED_OPEN],
         asserts=[At('args[0] == section and args[2] == self.defines and '
                     'subst_spec(old(rest).strip(), self.defines.items)[0] == 0 and '
                     'args[1] == urljoin_val(self.url, subst_spec(old(rest).strip(), self.defines.items)[1])',
                     call='self.context.includeConfiguration', carries='C05,C06,C18',
                     label='include-current-section-same-defines-url-relative-to-includer')],
         raises=[Raise('ZConfig.ConfigurationError+', then=[UNCHANGED_OPEN], carries='C07', label='config-error'), IOERR])

# ---- sections -------------------------------------------------------------------------------------------------
prim('hdr_empty', 'str -> bool', native=lambda rest: rest[-1:] == '/', smt=None)


POS_CLOSE = [Clause("exc.has_lineno and exc.lineno is not None", carries='C08', label='has-line'),
             Clause("implies((isa(exc, 'ZConfig.DataConversionError') and raised_lineno(exc) is not None and val(raised_lineno(exc)) >= 0), exc.lineno == raised_lineno(exc))", carries='C08',
                    label='line-of-the-failing-value-kept'),
             Clause("implies(not (isa(exc, 'ZConfig.DataConversionError') and raised_lineno(exc) is not None and val(raised_lineno(exc)) >= 0), exc.lineno == self.lineno)", carries='C08', label='else-the-closing-line'),
             Clause("implies((isa(exc, 'ZConfig.DataConversionError') and raised_url(exc) is not None and val(raised_url(exc)) != ''), exc.url == raised_url(exc))", carries='C08',
                    label='resource-of-the-failing-value-kept'),
             Clause("implies(not (isa(exc, 'ZConfig.DataConversionError') and raised_url(exc) is not None and val(raised_url(exc)) != ''), exc.url == self.url)", carries='C08', label='else-this-resource')]

contract('cfgparser.ZConfigParser.start_section',
         params={'section': 'Ref[Sink]', 'rest': 'str'}, returns='Ref[Sink]',
         requires=[Clause("'\\n' not in rest", label='single-line')] + OPEN_SECTION,
         modifies=['self.stack', '+Sink.finished'] + CTX_MOD,
         asserts=[At("sec_ok(hdr_text(old(rest))) and args[0] == section and "
                     "args[1] == sec_type(hdr_text(old(rest))).lower() and "
                     "args[2] == lower_opt(sec_name(hdr_text(old(rest))))",
                     call='self.context.startSection', carries='C03,C15,C17', label='opens-lowercased-type-and-name'),
                  At("old(rest)[-1:] == '/' and args[1] == sec_type(hdr_text(old(rest))).lower()",
                     call='self.end_section', carries='C03,C15,C17', label='empty-form-closes-the-section-it-opened')],
         ensures=[Clause('sec_ok(hdr_text(rest))', carries='C03,C17', label='well-formed-header'),
                  Clause("implies(rest[-1:] == '/', result == section and self.stack == old(self.stack))",
                         carries='C03,C15,C17', label='empty-form-leaves-nesting-unchanged'),
                  Clause("implies(rest[-1:] != '/', self.stack == old(self.stack) + "
                         "[(sec_type(hdr_text(rest)).lower(), lower_opt(sec_name(hdr_text(rest))), section)])",
                         carries='C03,C17', label='pushes-open-section'),
                  Clause('not result.finished and forall(lambda k: implies(0 <= k and k < len(self.stack), '
                         'self.stack[k][2] != result))', carries='C02,C07', label='the-section-returned-is-open-and-not-one-of-its-containers'),
                  Clause("implies(rest[-1:] != '/', fresh(result))", label='a-new-sink')],
         raises=[Raise('ZConfig.ConfigurationError+', then=POS_CLOSE + [
             Clause('self.stack == old(self.stack)', label='stack-unchanged')], carries='C08', label='config-error')])

# a conversion error found when a section is closed keeps the position of the VALUE that failed
# (recorded when the value was read); every other error is reported at the closing line


contract('cfgparser.ZConfigParser.end_section',
         params={'section': 'Ref[Sink]', 'rest': 'str'}, returns='Ref[Sink]',
         requires=list(OPEN_SECTION),
         modifies=['self.stack', '(section if len(self.stack) > 0 else None).finished'] + CTX_MOD,
         asserts=[At("len(old(self.stack)) > 0 and args[0] == old(self.stack)[-1][2] and "
                     "args[1] == rest.rstrip().lower() and args[1] == old(self.stack)[-1][0] and "
                     "args[2] == old(self.stack)[-1][1] and args[3] == section",
                     call='self.context.endSection', carries='C03,C15', label='closes-innermost-open-section')],
         ensures=[Clause('len(old(self.stack)) > 0 and rest.rstrip().lower() == old(self.stack)[-1][0]',
                         carries='C03,C15', label='closer-matches-innermost-type'),
                  Clause('self.stack == old(self.stack)[:-1] and result == old(self.stack)[-1][2]',
                         carries='C03', label='pops'),
                  Clause('not result.finished and forall(lambda k: implies(0 <= k and k < len(self.stack), '
                         'self.stack[k][2] != result))', carries='C02,C07', label='the-container-returned-is-open-and-not-one-of-its-containers')],
         raises=[Raise('ZConfig.ConfigurationError+', then=POS_CLOSE + [
             Clause('implies(len(old(self.stack)) > 0, self.stack == old(self.stack)[:-1])', label='popped'),
             Clause('implies(len(old(self.stack)) == 0, self.stack == old(self.stack))', label='untouched-when-empty')],
             carries='C08', label='config-error')])

# ---- the line loop -----------------------------------------------------------------------------------------------
PARSE_MOD = ['self.lineno', 'self.stack', 'self.file.lines', 'self.defines.items', '+Sink.finished'] + CTX_MOD2
contract('cfgparser.ZConfigParser.parse',
         params={'section': 'Ref[Sink]'},
         requires=[Clause('len(self.stack) == 0', carries='C06', label='own-empty-stack'), OPEN_SECTION[0]],
         modifies=PARSE_MOD,
         asserts=[At("line_class(val(line)) == K_SKIP", stmt='Pass', nth=0, carries='C03', label='skip-only-blank-and-comment'),
                  At("line_class(val(line)) == K_CLOSE and val(line)[-1] == '>' and args[0] == section and "
                     "args[1] == val(line)[2:-1]", call='self.end_section', carries='C03', label='closer-dispatch'),
                  At("line_class(val(line)) == K_OPEN and val(line)[-1] == '>' and args[0] == section and "
                     "args[1] == val(line)[1:-1]", call='self.start_section', carries='C03', label='opener-dispatch'),
                  At("line_class(val(line)) == K_DIRECTIVE and args[0] == section and args[1] == val(line)[1:]",
                     call='self.handle_directive', carries='C03,C06', label='directive-dispatch'),
                  At("line_class(val(line)) == K_KV and args[0] == section and args[1] == val(line)",
                     call='self.handle_key_value', carries='C03', label='keyvalue-dispatch')],
         ensures=[Clause('len(self.stack) == 0', carries='C03,C06', label='all-sections-closed'),
                  Clause('len(self.file.lines) == 0', carries='C03', label='read-to-the-end'), UNCHANGED_OPEN],
         raises=[Raise('ZConfig.ConfigurationError+', then=[UNCHANGED_OPEN], carries='C07', label='config-error'), IOERR],
         loops=[Loop(invariant=[Clause('done == (line is None)', label='done-iff-no-line'),
                                Clause("implies(line is not None, '\\n' not in val(line))", label='single-line'),
                                Clause('implies(done, len(self.file.lines) == 0)', label='done-at-eof'),
                                Clause('self.lineno >= 0'), UNCHANGED_OPEN] + OPEN_SECTION + [
                                Clause('forall(lambda k: implies(0 <= k and k < len(self.stack), not self.stack[k][2].finished))',
                                       label='SI-containers-on-the-stack-are-open'),
                                Clause('forall(lambda j, k: implies(0 <= j and j < k and k < len(self.stack), '
                                       'self.stack[j][2] != self.stack[k][2]))', label='SI-containers-on-the-stack-are-different'),
                                Clause('implies(len(self.stack) > 0, fresh(section))', label='inner-sections-were-opened-by-this-parse'),
                                Clause('forall(lambda k: implies(1 <= k and k < len(self.stack), fresh(self.stack[k][2])))',
                                       label='inner-containers-were-opened-by-this-parse')],
                     decreases='len(self.file.lines) + (0 if done else 1)',
                     locals={'done': 'bool', 'line': 'Opt[str]', 'section': 'Ref[Sink]'},
                     modifies=PARSE_MOD)])
