"""Contracts for ZConfig/loader.py and url.py (properties C06, C07, C13, C16, C18, C19)."""
from pyvc.api import (At, Clause, Loop, Raise, REGISTRY, MODELS, assumed, contract, inline, model, prim,
                      shared_dict, shared_list, spec_module)
import contracts.cfgparser
import contracts.matcher

# ---- files, streams, resources ---------------------------------------------------------------------------------
# Ghost state for C19: `is_open` per file object and the global counter GHOST.open_files of files
# / streams that are open.  Functions that do not list GHOST.open_files in their modifies clause
# leave it unchanged (frame): "nothing else was opened or left open".
MODELS['File'].fields['is_open'] = 'bool'
MODELS['File'].ghost_fields = ('is_open',)
assumed('File.close', self_type='File', params={}, modifies=['self.is_open', 'GHOST.open_files'],
        ensures=[Clause('not self.is_open'),
                 Clause('GHOST.open_files == old(GHOST.open_files) - (1 if old(self.is_open) else 0)')],
        notes='closing a file object (idempotent); ghost counter of open files')
assumed('File.read', self_type='File', params={}, returns='Opaque[Data]', modifies=['self.lines'],
        raises=[Raise('OSError')],
        notes='read() of an opened stream may fail with OSError (an environment fault, not user input)')

MODELS['ParserResource'].fields['file'] = 'Opt[Ref[File]]'
model('loader.Resource', fields={'closed': 'bool'}, bases=['ParserResource'], defaults={'closed': 'False'})
contract('loader.Resource.__init__', params={'file': 'Opt[Ref[File]]', 'url': 'Opt[str]'},
         ensures=[Clause('self.file == file and self.url == url and not self.closed', carries='C19', label='open-on-creation')])
contract('loader.Resource.close', modifies=['self.file', 'self.closed', 'self.file.is_open', 'GHOST.open_files'],
         ensures=[Clause('self.file is None', carries='C19', label='file-dropped'),
                  Clause('implies(old(self.file) is not None, self.closed and not val(old(self.file)).is_open)',
                         carries='C19', label='file-closed'),
                  Clause('implies(old(self.file) is None, self.closed == old(self.closed) and '
                         'GHOST.open_files == old(GHOST.open_files))', label='idempotent'),
                  Clause('implies(old(self.file) is not None, GHOST.open_files == old(GHOST.open_files) - '
                         '(1 if old(val(self.file).is_open) else 0))', carries='C19', label='one-file-fewer-open')])
contract('loader.Resource.__enter__', returns='Ref[loader.Resource]', pure=True, ensures=[Clause('result == self')])
contract('loader.Resource.__exit__', params={'t': 'None', 'v': 'None', 'tb': 'None'},
         modifies=['self.file', 'self.closed', 'self.file.is_open', 'GHOST.open_files'],
         ensures=[Clause('self.file is None', carries='C19', label='closed-on-exit'),
                  Clause('implies(old(self.file) is not None, GHOST.open_files == old(GHOST.open_files) - '
                         '(1 if old(val(self.file).is_open) else 0))', carries='C19', label='one-file-fewer-open'),
                  Clause('implies(old(self.file) is None, GHOST.open_files == old(GHOST.open_files))'),
                  Clause('implies(old(self.file) is not None, self.closed and not val(old(self.file)).is_open)',
                         carries='C19', label='file-closed-on-exit')])

# ---- assumed: urllib, io, os.path -----------------------------------------------------------------------------
model('ext:urllib.request.URLError', fields={'reason': 'Opaque[PyVal]'}, bases=['builtin:OSError'], external=True)
assumed('urllib.request.urlopen', params={'url': 'str'}, returns='Ref[File]', fresh_result=True,
        modifies=['GHOST.open_files'],
        ensures=[Clause('result.is_open and GHOST.open_files == old(GHOST.open_files) + 1')],
        raises=[Raise('ext:urllib.request.URLError', then=[Clause('GHOST.open_files == old(GHOST.open_files)')]),
                Raise('OSError', then=[Clause('GHOST.open_files == old(GHOST.open_files)')]),
                Raise('ValueError', then=[Clause('GHOST.open_files == old(GHOST.open_files)')])],
        notes='returns a new open stream or raises URLError / OSError, or ValueError for a malformed URL')
assumed('io.StringIO', params={'data': 'Opaque[Data]'}, returns='Ref[File]', fresh_result=True,
        modifies=['GHOST.open_files'],
        ensures=[Clause('result.is_open and GHOST.open_files == old(GHOST.open_files) + 1')])
assumed('Data.decode', params={'self': 'Opaque[Data]', 'encoding': 'str'}, returns='Opaque[Data]', pure=True,
        raises=[Raise('UnicodeDecodeError')], notes='bytes.decode raises UnicodeDecodeError for invalid input')
assumed('loader.openPackageResource', params={'package': 'str', 'path': 'str'}, returns='Ref[File]',
        fresh_result=True, modifies=['GHOST.open_files'],
        ensures=[Clause('result.is_open and GHOST.open_files == old(GHOST.open_files) + 1')],
        raises=[Raise('ZConfig.SchemaResourceError', then=[Clause('GHOST.open_files == old(GHOST.open_files)')])],
        notes='import system and package loader: not verified (see DESIGN 7)')
assumed('urllib.request.url2pathname', params={'p': 'str'}, returns='str', pure=True)
assumed('urllib.request.pathname2url', params={'p': 'str'}, returns='str', pure=True)
assumed('os.path.abspath', params={'p': 'str'}, returns='str', pure=True)
assumed('urllib.parse.urldefrag', params={'url': 'str'}, returns='Tuple[str, str]', pure=True,
        ensures=[Clause('result == (raw_defrag(url), raw_frag(url))'), Clause('url_ok(url)')],
        raises=[Raise('ValueError', when='not url_ok(url)')],
        notes='urllib: (URL without fragment, fragment); ValueError for a malformed URL')
contract('url.urlnormalize', params={'url': 'str'}, returns='str',
         ensures=[Clause('result == file3(url)', carries='C18', label='file-urls-in-three-slash-form-others-unchanged')])
contract('url.urldefrag', params={'url': 'str'}, returns='Tuple[str, str]',
         ensures=[Clause('result == (defrag_of(url), frag_of(url))', carries='C18',
                         label='fragment-split-off-file-url-normalised'), Clause('url_ok(url)')],
         raises=[Raise('ValueError', when='not url_ok(url)', label='malformed-url')])
assumed('str.splitsep2', params={'self': 'str', 'sep': 'str', 'maxsplit': 'int'}, returns='Seq[str]', pure=True,
        ensures=[Clause('len(result) >= 1 and len(result) <= maxsplit + 1')])

model('loader.BaseLoader', fields={})
contract('loader.BaseLoader.createResource', params={'file': 'Opt[Ref[File]]', 'url': 'Opt[str]'},
         returns='Ref[loader.Resource]', fresh_result=True,
         ensures=[Clause('fresh(result) and result.file == file and result.url == url and not result.closed',
                         carries='C19', label='new-open-resource')],
         notes='documented override point: subclasses must return a closing context manager')

contract('loader.BaseLoader._raise_open_error', params={'url': 'str', 'message': 'Opaque[PyVal]'},
         ensures=[Clause('False', label='never-returns')],
         raises=[Raise('ZConfig.ConfigurationError', when='True',
                       then=[Clause('exc.url == url', carries='C08,C18', label='names-the-resource'),
                             Clause("isclass(exc, 'ZConfig.ConfigurationError')")], carries='C07', label='open-error')])

contract('loader.BaseLoader.openResource', params={'url': 'str'}, returns='Ref[loader.Resource]',
         fresh_result=True, modifies=['GHOST.open_files'],
         ensures=[Clause('fresh(result) and result.file is not None and result.url == url and '
                         'val(result.file).is_open and fresh(val(result.file))', carries='C19',
                         label='returns-one-new-open-resource'),
                  Clause('GHOST.open_files == old(GHOST.open_files) + 1', carries='C19',
                         label='raw-stream-closed-after-reading-only-the-resource-stays-open')],
         raises=[Raise('ZConfig.ConfigurationError+',
                       then=[Clause('GHOST.open_files == old(GHOST.open_files)', carries='C19',
                                    label='nothing-left-open-on-failure')],
                       carries='C07', label='cannot-open'),
                 Raise('OSError', then=[Clause('GHOST.open_files == old(GHOST.open_files)', carries='C19',
                                               label='stream-closed-when-reading-fails')],
                       label='io-error-while-reading (environment fault, passes through)')])

# ---- URL helpers (C18) ---------------------------------------------------------------------------------------------
model('rxmatch:scheme', fields={'g_0': 'str', 'end': 'int'}, external=True)
prim('scheme_len', 'str -> int', args=['s'], axioms=['result >= 0', "implies(':' not in s, result == 0)"],
     native=lambda s: (lambda m: len(m.group(0)) if m else 0)(__import__('re').match(r'[a-zA-Z][-+.a-zA-Z0-9]*:', s)))
assumed('loader.BaseLoader._pathsep_rx.match', params={'string': 'str'}, returns='Opt[Ref[rxmatch:scheme]]',
        fresh_result=True,
        ensures=[Clause('(result is None) == (scheme_len(string) == 0)'),
                 Clause('implies(result is not None, len(result.g_0) == scheme_len(string))')],
        notes='generated from the live pattern: automaton obligations rx:loader._pathsep_rx')
contract('loader.BaseLoader.isPath', params={'s': 'str'}, returns='bool',
         ensures=[Clause('result == (scheme_len(s) == 0 or scheme_len(s) == 2)', carries='C18',
                         label='url-iff-scheme-of-two-or-more-characters')])
prim('p2u', 'str -> str', args=['p'], axioms=["url_ok('file://' + result)"])
prim('abspath_of', 'str -> str')
REGISTRY['urllib.request.pathname2url'].ensures = [Clause('result == p2u(p)')]
REGISTRY['os.path.abspath'].ensures = [Clause('result == abspath_of(p)')]
NORM_IN = "(('file://' + p2u(abspath_of(url))) if (scheme_len(url) == 0 or scheme_len(url) == 2) else url)"
contract('loader.BaseLoader.normalizeURL', params={'url': 'str'}, returns='str',
         ensures=[Clause('result == defrag_of(%s)' % NORM_IN, carries='C18',
                         label='path-becomes-file-url-of-the-absolute-path-then-fragment-free'),
                  Clause("frag_of(%s) == ''" % NORM_IN, carries='C18', label='no-fragment')],
         raises=[Raise('ZConfig.ConfigurationError', when="frag_of(%s) != ''" % NORM_IN,
                       carries='C18', label='fragment-rejected'),
                 Raise('ValueError', when='not url_ok(%s)' % NORM_IN,
                       label='malformed-url (documented behaviour of normalizeURL)')])

model('FileLike', fields={'name': 'Opt[str]', 'has_name': 'bool'}, optional={'name': 'has_name'}, external=True)
contract('loader._url_from_file', params={'file_or_path': 'Ref[FileLike]'}, returns='Opt[str]',
         ensures=[Clause("(result is None) == (not file_or_path.has_name or file_or_path.name is None or "
                         "val(file_or_path.name) == '' or val(file_or_path.name)[0] == '<' or "
                         "val(file_or_path.name)[-1] == '>')", carries='C18', label='no-url-for-unnamed-or-pseudo-files'),
                  Clause("implies(result is not None, result == 'file://' + p2u(abspath_of(val(file_or_path.name))))",
                         carries='C18', label='file-url-of-the-absolute-path')])

# ---- loading (C19: every opened resource is closed, however the load ends) -------------------------------
MODELS['File'].bases = ['FileLike']
from contracts.cfgparser import UNCHANGED_OPEN
SCHEMA_WF = Clause("implies(isa(self, 'loader.ConfigLoader'), invariant_of(cast(self, 'loader.ConfigLoader').schema))", label='the-schema-of-a-configuration-loader-is-well-formed')
LOADER_SCHEMA = contracts.cfgparser.LOADER_SCHEMA
assumed('loader.BaseLoader.loadResource', params={'resource': 'Ref[loader.Resource]'}, returns='Opaque[PyVal]',
        requires=[Clause('resource.file is not None', label='resource-is-open'), SCHEMA_WF],
        modifies=['resource.file.lines', 'GHOST.open_files', '*Sink.events', 'self.*'] + LOADER_SCHEMA,
        ensures=[UNCHANGED_OPEN],
        raises=[Raise('ZConfig.ConfigurationError+', then=[UNCHANGED_OPEN], carries='C07,C19'),
                Raise('OSError', then=[UNCHANGED_OPEN], label='io-error-while-reading (environment fault)'),
                Raise('ValueError', then=[UNCHANGED_OPEN], label='a datatype function itself raised (passes through, C07)')],
        notes='abstract method: the contract every loader must meet (proved for ConfigLoader.loadResource)')
contract('loader.BaseLoader.loadURL', params={'url': 'str'}, returns='Opaque[PyVal]', requires=[SCHEMA_WF],
         modifies=['GHOST.open_files', '*Sink.events', 'self.*'] + LOADER_SCHEMA,
         ensures=[UNCHANGED_OPEN],
         raises=[Raise('ZConfig.ConfigurationError+', then=[UNCHANGED_OPEN], carries='C07,C19', label='load-failed'),
                 Raise('OSError', then=[UNCHANGED_OPEN], carries='C19', label='io-error-while-reading'),
                 Raise('ValueError', then=[UNCHANGED_OPEN], label='malformed-top-level-url')])
contract('loader.BaseLoader.loadFile', params={'file': 'Ref[File]', 'url': ('Opt[str]', 'None')},
         returns='Opaque[PyVal]', requires=[SCHEMA_WF],
         modifies=['file.is_open', 'file.lines', 'GHOST.open_files', '*Sink.events', 'self.*'] + LOADER_SCHEMA,
         ensures=[Clause('not file.is_open and GHOST.open_files == old(GHOST.open_files) - (1 if old(file.is_open) else 0)',
                         carries='C19', label='callers-file-closed')],
         raises=[Raise('ZConfig.ConfigurationError+',
                       then=[Clause('not file.is_open and GHOST.open_files == old(GHOST.open_files) - '
                                    '(1 if old(file.is_open) else 0)', carries='C19', label='callers-file-closed-on-failure')],
                       carries='C07,C19', label='load-failed'),
                 Raise('OSError', then=[Clause('not file.is_open and GHOST.open_files == old(GHOST.open_files) - '
                                               '(1 if old(file.is_open) else 0)', carries='C19')],
                       label='io-error-while-reading (environment fault)'),
                 Raise('ValueError', then=[Clause('not file.is_open and GHOST.open_files == old(GHOST.open_files) - '
                                                  '(1 if old(file.is_open) else 0)', carries='C19')],
                       label='a datatype function itself raised (passes through, C07)')])

# ---- the composite handler (C16) ------------------------------------------------------------------------------------
import spec.handlers as SH
spec_module(SH)
HMAP = 'Map[str, Opt[Fun[handler]]]'
CALL = 'Tuple[Fun[handler], Opaque[PyVal]]'
MODELS['Ghost'].fields['calls'] = 'Seq[%s]' % CALL
assumed('fun:handler', params={'fn': 'Fun[handler]', 'x': 'Opaque[PyVal]'}, returns='Opaque[PyVal]',
        modifies=['GHOST.calls'],
        ensures=[Clause('GHOST.calls == old(GHOST.calls) + [(fn, x)]')],
        raises=[Raise('Exception+', then=[Clause('GHOST.calls == old(GHOST.calls) + [(fn, x)]')])],
        notes='a handler callable supplied by the application: opaque, may raise anything; the ghost '
              'sequence GHOST.calls records every invocation (callable, argument) in order')
prim('reg_get', 'Ref[Registry], str -> Fun[kt]')
assumed('Registry.get', self_type='Registry', params={'name': 'str'}, returns='Fun[kt]', pure=True,
        ensures=[Clause('result == reg_get(self, name)')],
        notes="datatypes.Registry.get: the registered conversion; that 'basic-key' is the stock "
              'basic-key conversion is the binding obligation bind:datatypes:registry-get-is-stock')
model('loader.CompositeHandler', fields={'_handlers': 'Ref[list:handlers]', '_convert': 'Fun[kt]'})
contract('loader.CompositeHandler.__init__',
         params={'handlers': 'Ref[list:handlers]', 'schema': 'Ref[info.SectionType]'},
         ensures=[Clause('self._handlers == handlers', carries='C16', label='entries-are-the-matchers-handler-list'),
                  Clause("self._convert == reg_get(schema.registry, 'basic-key')", carries='C16',
                         label='names-normalised-as-basic-keys')])
contract('loader.CompositeHandler.__len__', returns='int',
         ensures=[Clause('result == len(self._handlers.items)', carries='C16', label='one-per-entry')])
NM = 'norm_map(handlermap, self._convert, 0, {})'
HS = 'self._handlers.items'
contract('loader.CompositeHandler.__call__', params={'handlermap': HMAP},
         modifies=['GHOST.calls'],
         ensures=[Clause('%s[0] == 0 and all_mapped(%s, %s[1], 0)' % (NM, HS, NM), carries='C16',
                         label='every-name-mapped-and-unique'),
                  Clause('GHOST.calls == old(GHOST.calls) + calls_from(%s, %s[1], 0)' % (HS, NM), carries='C16',
                         label='each-entry-called-exactly-once-in-order-with-its-value')],
         raises=[Raise('ZConfig.ConfigurationError',
                       when='%s[0] == 1 or (%s[0] == 0 and not all_mapped(%s, %s[1], 0))' % (NM, NM, HS, NM),
                       then=[Clause('GHOST.calls == old(GHOST.calls)', carries='C16', label='nothing-called')],
                       carries='C16', label='duplicate-or-unmapped-name'),
                 Raise('ValueError', when='%s[0] == 2' % NM,
                       then=[Clause('GHOST.calls == old(GHOST.calls)', carries='C16', label='nothing-called')],
                       label='name-is-not-a-basic-key'),
                 Raise('Exception+',
                       then=[Clause('is_prefix(GHOST.calls, old(GHOST.calls) + calls_from(%s, %s[1], 0))'
                                    % (HS, NM), carries='C16', label='calls-made-are-a-prefix-in-order')],
                       label='a-handler-raised')],
         hints=['norm_map(handlermap, self._convert, _i0, d)', 'all_mapped(%s, d, _i1)' % HS, 'all_mapped(%s, d, _i2)' % HS,
                'calls_from(%s, d, _i2)' % HS],
         loops=[Loop(invariant=[Clause('norm_map(handlermap, self._convert, _i0, d) == %s' % NM,
                                       label='remaining-fold-equals-fold')],
                     hints=['norm_map(handlermap, self._convert, _i0, d)'],
                     locals={'d': HMAP, 'name': 'str', 'callback': 'Opt[Fun[handler]]', 'n': 'str'}, modifies=[]),
                Loop(invariant=[Clause('(len(L) == 0 and all_mapped(%s, d, _i1)) == all_mapped(%s, d, 0)' % (HS, HS),
                                       label='unmapped-collected')],
                     hints=['all_mapped(%s, d, _i1)' % HS],
                     locals={'L': 'Seq[str]', 'handler': 'str', 'value': 'Opaque[PyVal]'}, modifies=[]),
                Loop(invariant=[Clause('GHOST.calls + calls_from(%s, d, _i2) == old(GHOST.calls) + calls_from(%s, d, 0)'
                                       % (HS, HS), label='calls-so-far-plus-remaining'),
                                Clause('all_mapped(%s, d, _i2)' % HS, label='remaining-entries-mapped')],
                     hints=['calls_from(%s, d, _i2)' % HS, 'all_mapped(%s, d, _i2)' % HS],
                     locals={'handler': 'str', 'value': 'Opaque[PyVal]', 'f': 'Opt[Fun[handler]]'},
                     modifies=['GHOST.calls'])])


# ---- the configuration loader (C01, C05, C06, C12, C13, C19) -----------------------------------------------------
MODELS['Sink'].ghost_fields = ('events', 'finished')
MODELS['matcher.BaseMatcher'].bases = ['Sink']           # matchers are what the parser adds values to
inline('loader.BaseLoader.__init__')
model('loader.SchemaLoader', fields={}, external=False)
model('loader.ConfigLoader',
      fields={'schema': 'Ref[info.SectionType]', '_private_schema': 'bool', '_including': 'Seq[str]',
              'has_including': 'bool', '_loader': 'Ref[loader.SchemaLoader]'},
      optional={'_including': 'has_including'}, defaults={'has_including': 'False'},
      ghost_fields=('has_including',), late_fields=('_loader', '_including'), bases=['ParserContext'])
contract('loader.ConfigLoader.__init__', params={'schema': 'Ref[info.SectionType]'},
         ensures=[Clause('self.schema == schema and not self._private_schema', carries='C13',
                         label='uses-the-given-schema')])
contract('loader.ConfigLoader.createSchemaMatcher', returns='Ref[matcher.SchemaMatcher]', fresh_result=True,
         requires=[Clause('invariant_of(self.schema)', label='RI-of-the-schema')],
         ensures=[Clause('fresh(result) and result.type == self.schema and len(result.handlers.items) == 0 and '
                         'fresh(result.handlers) and not result.finished', carries='C13', label='new-matcher-for-the-schema')],
         static_ensures=[Clause("isclass(result, 'matcher.SchemaMatcher')", label='constructs-a-plain-schema-matcher')])

IOERR = contracts.cfgparser.IOERR
INCL = "(old(self._including) if old(self.has_including) else [])"
contract('loader.ConfigLoader._parse_resource',
         params={'matcher': 'Ref[matcher.BaseMatcher]', 'resource': 'Ref[loader.Resource]',
                 'defines': ('Opt[Ref[dict:defines]]', 'None')},
         requires=[Clause('resource.file is not None', label='resource-is-open'),
                   Clause('not matcher.finished', label='text-is-read-into-an-open-section')],
         modifies=['resource.file.lines', 'GHOST.open_files', '*Sink.events', 'defines.items', '+Sink.finished'] + LOADER_SCHEMA,
         asserts=[At('args[0] == resource and args[1] == self and args[2] == defines',
                     call='ZConfig.cfgparser.ZConfigParser', carries='C05,C06',
                     label='parser-gets-this-resource-this-loader-and-the-SAME-definitions-object'),
                  At('args[0] == matcher', call='parser.parse', carries='C06',
                     label='lines-are-delivered-to-the-given-section')],
         ensures=[UNCHANGED_OPEN, Clause('len(val(resource.file).lines) == 0', carries='C03', label='read-to-the-end')],
         raises=[Raise('ZConfig.ConfigurationError+', then=[UNCHANGED_OPEN], carries='C07,C19', label='rejected'), IOERR])
contract('loader.ConfigLoader.includeConfiguration',
         params={'section': 'Ref[matcher.BaseMatcher]', 'url': 'str', 'defines': 'Ref[dict:defines]'},
         requires=[Clause('url_ok(url)', label='url-parses'), Clause('not section.finished', label='included-into-an-open-section')],
         modifies=['self._including', 'self.has_including', 'GHOST.open_files', '*Sink.events', 'defines.items', '+Sink.finished']
         + LOADER_SCHEMA,
         asserts=[At('args[0] == section and args[2] == defines and val(args[1].url) == defrag_of(%s)'
                     % NORM_IN.replace('(url)', '(old(url))').replace('else url)', 'else old(url))'),
                     call='self._parse_resource', carries='C05,C06,C18',
                     label='fragment-read-into-the-current-section-with-the-same-definitions-from-the-normalised-url')],
         ensures=[UNCHANGED_OPEN,
                  Clause('self.has_including and self._including == %s' % INCL, carries='C06,C07,C19',
                         label='include-stack-restored')],
         raises=[Raise('ZConfig.ConfigurationError+',
                       then=[UNCHANGED_OPEN,
                             Clause('implies(self.has_including, self._including == %s)' % INCL, carries='C06,C07,C19',
                                    label='include-stack-restored-on-failure'),
                             Clause('implies(not self.has_including, not old(self.has_including))')],
                       carries='C07,C19', label='rejected'),
                 Raise('OSError', then=[UNCHANGED_OPEN,
                                        Clause('self.has_including and self._including == %s' % INCL, carries='C06,C19',
                                               label='include-stack-restored-on-failure')],
                       label='io-error-while-reading-a-resource (environment fault, passes through)')])
contract('loader.ConfigLoader.startSection',
         params={'parent': 'Ref[matcher.BaseMatcher]', 'type_': 'str', 'name': 'Opt[str]'},
         returns='Ref[matcher.SectionMatcher]',
         requires=[Clause('forall(\'str\', lambda x: implies(x in self.schema._types.items and '
                          "isa(self.schema._types.items[x], 'info.SectionType'), "
                          "invariant_of(cast(self.schema._types.items[x], 'info.SectionType')) and "
                          "self.schema._types.items[x].name is not None))", label='every-type-of-the-schema-is-well-formed')],
         modifies=['parent.optionbag.sectitems'], inst=['type_.lower()'],
         ensures=[Clause("type_.lower() in self.schema._types.items and "
                         "not isa(self.schema._types.items[type_.lower()], 'info.AbstractType') and "
                         "result.type == self.schema._types.items[type_.lower()]", carries='C01,C12',
                         label='known-concrete-type'),
                  Clause('fresh(result) and result.handlers == parent.handlers and not result.finished', carries='C13,C16')],
         raises=[Raise('ZConfig.ConfigurationError+', carries='C01,C12',
                       label='unknown-or-abstract-type-or-no-slot-or-name-not-allowed')])
contract('loader.ConfigLoader.endSection',
         params={'parent': 'Ref[matcher.BaseMatcher]', 'type_': 'str', 'name': 'Opt[str]',
                 'matcher': 'Ref[matcher.BaseMatcher]'},
         requires=[Clause('not matcher.finished', label='closed-at-most-once')],   # = the precondition of ParserContext.endSection (subtype obligation)
         modifies=['matcher._values', 'matcher.handlers.items', 'matcher.finished', 'parent._values', 'parent._sectionnames',
                   'matcher.optionbag.keypairs'],
         asserts=[At('args[0] == type_ and args[1] == name', call='parent.addSection', carries='C01,C02',
                     label='completed-section-added-to-its-container-under-the-header-type-and-name')],
         raises=[Raise('ZConfig.ConfigurationError+', carries='C01', label='section-incomplete-or-not-accepted')])

contract('loader.ConfigLoader.loadResource', params={'resource': 'Ref[loader.Resource]'},
         returns='Tuple[Opaque[PyVal], Ref[loader.CompositeHandler]]',
         requires=[Clause('resource.file is not None', label='resource-is-open'), SCHEMA_WF],
         modifies=['resource.file.lines', 'GHOST.open_files', '*Sink.events', '+Sink.finished'] + LOADER_SCHEMA,
         asserts=[At('args[1] == resource and fresh(args[0]) and args[0].type == old(self.schema) and '
                     'len(args[0].handlers.items) == 0 and len(args) == 2', call='self._parse_resource',
                     carries='C01,C05,C13', label='text-read-into-a-new-matcher-for-the-schema-with-no-definitions-carried-over'),
                  At('args[0] == sm.handlers and args[1] == self.schema', call='CompositeHandler', carries='C16',
                     label='composite-handler-over-the-handler-list-of-this-load')],
         ensures=[UNCHANGED_OPEN,
                  Clause('fresh(result[1]) and len(val(resource.file).lines) == 0', carries='C13', label='new-handler-object')],
         raises=[Raise('ZConfig.ConfigurationError+', then=[UNCHANGED_OPEN], carries='C01,C07,C19', label='rejected'),
                 Raise('OSError', then=[UNCHANGED_OPEN], label='io-error-while-reading (environment fault)'),
                 Raise('ValueError', then=[UNCHANGED_OPEN], label='a datatype function itself raised (passes through, C07)')])
