"""Contracts for ZConfig/loader.py and url.py (properties C06, C07, C13, C16, C18, C19)."""
from pyvc.api import (At, Clause, Loop, Raise, REGISTRY, MODELS, assumed, contract, inline, model, prim,
                      shared_dict, shared_list, spec_module)
import contracts.cfgparser
import contracts.matcher

# ---- files, streams, resources ---------------------------------------------------------------------------------
# Ghost state for C19: `is_open` per file object and the global counter GHOST.open_files of files
# / streams that are open.  Functions that do not list GHOST.open_files in their modifies clause
# leave it unchanged (frame): "nothing else was opened or left open".
model('Ghost', fields={'open_files': 'int'}, external=True)
MODELS['File'].fields['is_open'] = 'bool'
MODELS['File'].ghost_fields = ('is_open',)
assumed('File.close', self_type='File', params={}, modifies=['self.is_open', 'GHOST.open_files'],
        ensures=[Clause('not self.is_open'),
                 Clause('GHOST.open_files == old(GHOST.open_files) - (1 if old(self.is_open) else 0)')],
        notes='closing a file object (idempotent); ghost counter of open files')
assumed('File.read', self_type='File', params={}, returns='Opaque[Data]', modifies=['self.lines'],
        raises=[Raise('OSError')],
        notes='read() of an opened stream may fail with OSError (an environment fault, not user input)')

MODELS['ParserResource'].fields['file'] = 'Opt[Ref[File]]'
model('loader.Resource', fields={'closed': 'bool'}, bases=['ParserResource'], defaults={'closed': 'False'})
contract('loader.Resource.__init__', params={'file': 'Opt[Ref[File]]', 'url': 'Opt[str]'},
         ensures=[Clause('self.file == file and self.url == url and not self.closed', carries='C19', label='open-on-creation')])
contract('loader.Resource.close', modifies=['self.file', 'self.closed', 'self.file.is_open', 'GHOST.open_files'],
         ensures=[Clause('self.file is None', carries='C19', label='file-dropped'),
                  Clause('implies(old(self.file) is not None, self.closed and not val(old(self.file)).is_open)',
                         carries='C19', label='file-closed'),
                  Clause('implies(old(self.file) is None, self.closed == old(self.closed) and '
                         'GHOST.open_files == old(GHOST.open_files))', label='idempotent'),
                  Clause('implies(old(self.file) is not None, GHOST.open_files == old(GHOST.open_files) - '
                         '(1 if old(val(self.file).is_open) else 0))', carries='C19', label='one-file-fewer-open')])
contract('loader.Resource.__enter__', returns='Ref[loader.Resource]', pure=True, ensures=[Clause('result == self')])
contract('loader.Resource.__exit__', params={'t': 'None', 'v': 'None', 'tb': 'None'},
         modifies=['self.file', 'self.closed', 'self.file.is_open', 'GHOST.open_files'],
         ensures=[Clause('self.file is None', carries='C19', label='closed-on-exit'),
                  Clause('implies(old(self.file) is not None, GHOST.open_files == old(GHOST.open_files) - '
                         '(1 if old(val(self.file).is_open) else 0))', carries='C19', label='one-file-fewer-open'),
                  Clause('implies(old(self.file) is None, GHOST.open_files == old(GHOST.open_files))'),
                  Clause('implies(old(self.file) is not None, self.closed and not val(old(self.file)).is_open)',
                         carries='C19', label='file-closed-on-exit')])

# ---- assumed: urllib, io, os.path -----------------------------------------------------------------------------
model('ext:urllib.request.URLError', fields={'reason': 'Opaque[PyVal]'}, bases=['builtin:OSError'], external=True)
assumed('urllib.request.urlopen', params={'url': 'str'}, returns='Ref[File]', fresh_result=True,
        modifies=['GHOST.open_files'],
        ensures=[Clause('result.is_open and GHOST.open_files == old(GHOST.open_files) + 1')],
        raises=[Raise('ext:urllib.request.URLError', then=[Clause('GHOST.open_files == old(GHOST.open_files)')]),
                Raise('OSError', then=[Clause('GHOST.open_files == old(GHOST.open_files)')]),
                Raise('ValueError', then=[Clause('GHOST.open_files == old(GHOST.open_files)')])],
        notes='returns a new open stream or raises URLError / OSError, or ValueError for a malformed URL')
assumed('io.StringIO', params={'data': 'Opaque[Data]'}, returns='Ref[File]', fresh_result=True,
        modifies=['GHOST.open_files'],
        ensures=[Clause('result.is_open and GHOST.open_files == old(GHOST.open_files) + 1')])
assumed('Data.decode', params={'self': 'Opaque[Data]', 'encoding': 'str'}, returns='Opaque[Data]', pure=True,
        raises=[Raise('UnicodeDecodeError')], notes='bytes.decode raises UnicodeDecodeError for invalid input')
assumed('loader.openPackageResource', params={'package': 'str', 'path': 'str'}, returns='Ref[File]',
        fresh_result=True, modifies=['GHOST.open_files'],
        ensures=[Clause('result.is_open and GHOST.open_files == old(GHOST.open_files) + 1')],
        raises=[Raise('ZConfig.SchemaResourceError', then=[Clause('GHOST.open_files == old(GHOST.open_files)')])],
        notes='import system and package loader: not verified (see DESIGN 7)')
assumed('urllib.request.url2pathname', params={'p': 'str'}, returns='str', pure=True)
assumed('urllib.request.pathname2url', params={'p': 'str'}, returns='str', pure=True)
assumed('os.path.abspath', params={'p': 'str'}, returns='str', pure=True)
prim('frag_of', 'str -> str')
prim('defrag_of', 'str -> str')
assumed('url.urldefrag', params={'url': 'str'}, returns='Tuple[str, str]', pure=True,
        ensures=[Clause('result == (defrag_of(url), frag_of(url))')],
        raises=[Raise('ValueError')],
        notes='urllib.parse.urldefrag + file:/// normalisation; ValueError for a malformed URL')
assumed('str.splitsep2', params={'self': 'str', 'sep': 'str', 'maxsplit': 'int'}, returns='Seq[str]', pure=True,
        ensures=[Clause('len(result) >= 1 and len(result) <= maxsplit + 1')])

model('loader.BaseLoader', fields={})
contract('loader.BaseLoader.createResource', params={'file': 'Opt[Ref[File]]', 'url': 'Opt[str]'},
         returns='Ref[loader.Resource]', fresh_result=True,
         ensures=[Clause('fresh(result) and result.file == file and result.url == url and not result.closed',
                         carries='C19', label='new-open-resource')],
         notes='documented override point: subclasses must return a closing context manager')

contract('loader.BaseLoader._raise_open_error', params={'url': 'str', 'message': 'Opaque[PyVal]'},
         ensures=[Clause('False', label='never-returns')],
         raises=[Raise('ZConfig.ConfigurationError', when='True',
                       then=[Clause('exc.url == url', carries='C08,C18', label='names-the-resource'),
                             Clause("isclass(exc, 'ZConfig.ConfigurationError')")], carries='C07', label='open-error')])

contract('loader.BaseLoader.openResource', params={'url': 'str'}, returns='Ref[loader.Resource]',
         fresh_result=True, modifies=['GHOST.open_files'],
         ensures=[Clause('fresh(result) and result.file is not None and result.url == url and '
                         'val(result.file).is_open and fresh(val(result.file))', carries='C19',
                         label='returns-one-new-open-resource'),
                  Clause('GHOST.open_files == old(GHOST.open_files) + 1', carries='C19',
                         label='raw-stream-closed-after-reading-only-the-resource-stays-open')],
         raises=[Raise('ZConfig.ConfigurationError+',
                       then=[Clause('GHOST.open_files == old(GHOST.open_files)', carries='C19',
                                    label='nothing-left-open-on-failure')],
                       carries='C07', label='cannot-open'),
                 Raise('OSError', then=[Clause('GHOST.open_files == old(GHOST.open_files)', carries='C19',
                                               label='stream-closed-when-reading-fails')],
                       label='io-error-while-reading (environment fault, passes through)')])

# ---- URL helpers (C18) ---------------------------------------------------------------------------------------------
model('rxmatch:scheme', fields={'g_0': 'str', 'end': 'int'}, external=True)
prim('scheme_len', 'str -> int', args=['s'], axioms=['result >= 0', "implies(':' not in s, result == 0)"],
     native=lambda s: (lambda m: len(m.group(0)) if m else 0)(__import__('re').match(r'[a-zA-Z][-+.a-zA-Z0-9]*:', s)))
assumed('loader.BaseLoader._pathsep_rx.match', params={'string': 'str'}, returns='Opt[Ref[rxmatch:scheme]]',
        fresh_result=True,
        ensures=[Clause('(result is None) == (scheme_len(string) == 0)'),
                 Clause('implies(result is not None, len(result.g_0) == scheme_len(string))')],
        notes='generated from the live pattern: automaton obligations rx:loader._pathsep_rx')
contract('loader.BaseLoader.isPath', params={'s': 'str'}, returns='bool',
         ensures=[Clause('result == (scheme_len(s) == 0 or scheme_len(s) == 2)', carries='C18',
                         label='url-iff-scheme-of-two-or-more-characters')])
prim('p2u', 'str -> str')
prim('abspath_of', 'str -> str')
REGISTRY['urllib.request.pathname2url'].ensures = [Clause('result == p2u(p)')]
REGISTRY['os.path.abspath'].ensures = [Clause('result == abspath_of(p)')]
NORM_IN = "(('file://' + p2u(abspath_of(url))) if (scheme_len(url) == 0 or scheme_len(url) == 2) else url)"
contract('loader.BaseLoader.normalizeURL', params={'url': 'str'}, returns='str',
         ensures=[Clause('result == defrag_of(%s)' % NORM_IN, carries='C18',
                         label='path-becomes-file-url-of-the-absolute-path-then-fragment-free'),
                  Clause("frag_of(%s) == ''" % NORM_IN, carries='C18', label='no-fragment')],
         raises=[Raise('ZConfig.ConfigurationError', when="frag_of(%s) != ''" % NORM_IN,
                       carries='C18', label='fragment-rejected'),
                 Raise('ValueError', label='malformed-url (documented behaviour of normalizeURL)')])

model('FileLike', fields={'name': 'Opt[str]', 'has_name': 'bool'}, optional={'name': 'has_name'}, external=True)
contract('loader._url_from_file', params={'file_or_path': 'Ref[FileLike]'}, returns='Opt[str]',
         ensures=[Clause("(result is None) == (not file_or_path.has_name or file_or_path.name is None or "
                         "val(file_or_path.name) == '' or val(file_or_path.name)[0] == '<' or "
                         "val(file_or_path.name)[-1] == '>')", carries='C18', label='no-url-for-unnamed-or-pseudo-files'),
                  Clause("implies(result is not None, result == 'file://' + p2u(abspath_of(val(file_or_path.name))))",
                         carries='C18', label='file-url-of-the-absolute-path')])

# ---- loading (C19: every opened resource is closed, however the load ends) -------------------------------
MODELS['File'].bases = ['FileLike']
UNCHANGED_OPEN = Clause('GHOST.open_files == old(GHOST.open_files)', carries='C19', label='nothing-left-open')
assumed('loader.BaseLoader.loadResource', params={'resource': 'Ref[loader.Resource]'}, returns='Opaque[PyVal]',
        requires=[Clause('resource.file is not None', label='resource-is-open')],
        modifies=['resource.file.lines', 'GHOST.open_files'],
        ensures=[UNCHANGED_OPEN],
        raises=[Raise('ZConfig.ConfigurationError+', then=[UNCHANGED_OPEN], carries='C07,C19')],
        notes='abstract method: the contract every loader must meet (proved for ConfigLoader.loadResource)')
contract('loader.BaseLoader.loadURL', params={'url': 'str'}, returns='Opaque[PyVal]',
         modifies=['GHOST.open_files'],
         ensures=[UNCHANGED_OPEN],
         raises=[Raise('ZConfig.ConfigurationError+', then=[UNCHANGED_OPEN], carries='C07,C19', label='load-failed'),
                 Raise('OSError', then=[UNCHANGED_OPEN], carries='C19', label='io-error-while-reading'),
                 Raise('ValueError', then=[UNCHANGED_OPEN], label='malformed-top-level-url')])
contract('loader.BaseLoader.loadFile', params={'file': 'Ref[File]', 'url': ('Opt[str]', 'None')},
         returns='Opaque[PyVal]', modifies=['file.is_open', 'file.lines', 'GHOST.open_files'],
         ensures=[Clause('not file.is_open and GHOST.open_files == old(GHOST.open_files) - (1 if old(file.is_open) else 0)',
                         carries='C19', label='callers-file-closed')],
         raises=[Raise('ZConfig.ConfigurationError+',
                       then=[Clause('not file.is_open and GHOST.open_files == old(GHOST.open_files) - '
                                    '(1 if old(file.is_open) else 0)', carries='C19', label='callers-file-closed-on-failure')],
                       carries='C07,C19', label='load-failed')])

# ---- the composite handler (C16) ------------------------------------------------------------------------------------
import spec.handlers as SH
spec_module(SH)
HMAP = 'Map[str, Opt[Fun[handler]]]'
CALL = 'Tuple[Fun[handler], Opaque[PyVal]]'
MODELS['Ghost'].fields['calls'] = 'Seq[%s]' % CALL
assumed('fun:handler', params={'fn': 'Fun[handler]', 'x': 'Opaque[PyVal]'}, returns='Opaque[PyVal]',
        modifies=['GHOST.calls'],
        ensures=[Clause('GHOST.calls == old(GHOST.calls) + [(fn, x)]')],
        raises=[Raise('Exception+', then=[Clause('GHOST.calls == old(GHOST.calls) + [(fn, x)]')])],
        notes='a handler callable supplied by the application: opaque, may raise anything; the ghost '
              'sequence GHOST.calls records every invocation (callable, argument) in order')
prim('reg_get', 'Ref[Registry], str -> Fun[kt]')
assumed('Registry.get', self_type='Registry', params={'name': 'str'}, returns='Fun[kt]', pure=True,
        ensures=[Clause('result == reg_get(self, name)')],
        notes="datatypes.Registry.get: the registered conversion; that 'basic-key' is the stock "
              'basic-key conversion is the binding obligation bind:datatypes:registry-get-is-stock')
model('loader.CompositeHandler', fields={'_handlers': 'Ref[list:handlers]', '_convert': 'Fun[kt]'})
contract('loader.CompositeHandler.__init__',
         params={'handlers': 'Ref[list:handlers]', 'schema': 'Ref[info.SectionType]'},
         ensures=[Clause('self._handlers == handlers', carries='C16', label='entries-are-the-matchers-handler-list'),
                  Clause("self._convert == reg_get(schema.registry, 'basic-key')", carries='C16',
                         label='names-normalised-as-basic-keys')])
contract('loader.CompositeHandler.__len__', returns='int',
         ensures=[Clause('result == len(self._handlers.items)', carries='C16', label='one-per-entry')])
NM = 'norm_map(handlermap, self._convert, 0, {})'
HS = 'self._handlers.items'
contract('loader.CompositeHandler.__call__', params={'handlermap': HMAP},
         modifies=['GHOST.calls'],
         ensures=[Clause('%s[0] == 0 and all_mapped(%s, %s[1], 0)' % (NM, HS, NM), carries='C16',
                         label='every-name-mapped-and-unique'),
                  Clause('GHOST.calls == old(GHOST.calls) + calls_from(%s, %s[1], 0)' % (HS, NM), carries='C16',
                         label='each-entry-called-exactly-once-in-order-with-its-value')],
         raises=[Raise('ZConfig.ConfigurationError',
                       when='%s[0] == 1 or (%s[0] == 0 and not all_mapped(%s, %s[1], 0))' % (NM, NM, HS, NM),
                       then=[Clause('GHOST.calls == old(GHOST.calls)', carries='C16', label='nothing-called')],
                       carries='C16', label='duplicate-or-unmapped-name'),
                 Raise('ValueError', when='%s[0] == 2' % NM,
                       then=[Clause('GHOST.calls == old(GHOST.calls)', carries='C16', label='nothing-called')],
                       label='name-is-not-a-basic-key'),
                 Raise('Exception+',
                       then=[Clause('is_prefix(GHOST.calls, old(GHOST.calls) + calls_from(%s, %s[1], 0))'
                                    % (HS, NM), carries='C16', label='calls-made-are-a-prefix-in-order')],
                       label='a-handler-raised')],
         hints=['norm_map(handlermap, self._convert, _i0, d)', 'all_mapped(%s, d, _i1)' % HS, 'all_mapped(%s, d, _i2)' % HS,
                'calls_from(%s, d, _i2)' % HS],
         loops=[Loop(invariant=[Clause('norm_map(handlermap, self._convert, _i0, d) == %s' % NM,
                                       label='remaining-fold-equals-fold')],
                     hints=['norm_map(handlermap, self._convert, _i0, d)'],
                     locals={'d': HMAP, 'name': 'str', 'callback': 'Opt[Fun[handler]]', 'n': 'str'}, modifies=[]),
                Loop(invariant=[Clause('(len(L) == 0 and all_mapped(%s, d, _i1)) == all_mapped(%s, d, 0)' % (HS, HS),
                                       label='unmapped-collected')],
                     hints=['all_mapped(%s, d, _i1)' % HS],
                     locals={'L': 'Seq[str]', 'handler': 'str', 'value': 'Opaque[PyVal]'}, modifies=[]),
                Loop(invariant=[Clause('GHOST.calls + calls_from(%s, d, _i2) == old(GHOST.calls) + calls_from(%s, d, 0)'
                                       % (HS, HS), label='calls-so-far-plus-remaining'),
                                Clause('all_mapped(%s, d, _i2)' % HS, label='remaining-entries-mapped')],
                     hints=['calls_from(%s, d, _i2)' % HS, 'all_mapped(%s, d, _i2)' % HS],
                     locals={'handler': 'str', 'value': 'Opaque[PyVal]', 'f': 'Opt[Fun[handler]]'},
                     modifies=['GHOST.calls'])])
