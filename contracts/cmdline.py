"""Contracts for ZConfig/cmdline.py (property C14; C07 escape obligations)."""
from pyvc.api import (At, Clause, Loop, Raise, REGISTRY, MODELS, assumed, contract, inline, model, prim,
                      spec_module)
import contracts.loader
import contracts.matcher
import spec.overrides as SO

spec_module(SO)

OPOS = 'Tuple[str, int, int]'                      # (source, line, column) of an override specifier
ITEM = 'Tuple[Seq[str], str, %s]' % OPOS            # (path components, value, position)
ITEMS = 'Seq[%s]' % ITEM
KP = 'Map[str, Seq[Tuple[str, %s]]]' % OPOS

prim('split_all', 'str, str -> Seq[str]', native=lambda s, sep: s.split(sep), args=['s', 'sep'],
     axioms=['len(result) >= 1'])
assumed('str.splitsep1', params={'self': 'str', 'sep': 'str'}, returns='Seq[str]', pure=True,
        ensures=[Clause('result == split_all(self, sep)')],
        notes='str.split(sep): the list of the pieces between occurrences of sep (at least one piece)')
REGISTRY['str.splitsep2'].ensures.append(
    Clause('implies(maxsplit == 1 and sep in self, len(result) == 2 and result[0] == self[:self.find(sep)] '
           'and result[1] == self[self.find(sep) + len(sep):])'))
REGISTRY['str.splitsep2'].ensures.append(Clause('implies(sep not in self, len(result) == 1 and result[0] == self)'))

model('__init__.ConfigurationSyntaxError', fields={'specifier': 'str', 'has_specifier': 'bool'},
      optional={'specifier': 'has_specifier'}, defaults={'has_specifier': 'False'}, ghost_fields=('has_specifier',))

# ---- the loader ----------------------------------------------------------------------------------------------------
PATHS_OK = Clause('forall(lambda i: implies(0 <= i and i < len(self.clopts), len(self.clopts[i][0]) >= 1))',
                  label='every-override-has-a-path')
model('cmdline.ExtendedConfigLoader', fields={'clopts': ITEMS}, invariant=[PATHS_OK])
contract('cmdline.ExtendedConfigLoader.__init__', params={'schema': 'Ref[info.SectionType]'},
         ensures=[Clause('self.schema == schema and len(self.clopts) == 0', carries='C14', label='no-overrides-yet')])
DEFAULT_POS = "orelse(pos, ('<command-line option>', -1, -1))"
BAD_SPEC = "'=' not in spec or '' in split_all(opt_of(spec), '/')"
contract('cmdline.ExtendedConfigLoader.addOption', params={'spec': 'str', 'pos': ('Opt[%s]' % OPOS, 'None')},
         modifies=['self.clopts'],
         ensures=[Clause('self.clopts == old(self.clopts) + [(split_all(opt_of(spec), \'/\'), val_of(spec), %s)]'
                         % DEFAULT_POS, carries='C14',
                         label='recorded-verbatim-path-split-at-slashes-value-after-first-equals')],
         raises=[Raise('ZConfig.ConfigurationSyntaxError', when=BAD_SPEC,
                       then=[Clause('self.clopts == old(self.clopts)', carries='C14', label='nothing-recorded'),
                             Clause("isclass(exc, 'ZConfig.ConfigurationSyntaxError')", carries='C07')],
                       carries='C14', label='no-equals-sign-or-empty-path-component')])

# ---- option bags --------------------------------------------------------------------------------------------------
model('cmdline.OptionBag',
      fields={'sectiontype': 'Ref[info.SectionType]', 'schema': 'Ref[info.SectionType]', 'keypairs': KP,
              'sectitems': ITEMS, '_basic_key': 'Fun[kt]'},
      invariant=[Clause('forall(lambda i: implies(0 <= i and i < len(self.sectitems), len(self.sectitems[i][0]) >= 2))',
                        label='kept-items-address-child-sections')])
BS = 'bag_split(options, sectiontype.keytype, 0, {}, [])'
contract('cmdline.OptionBag.__init__',
         params={'schema': 'Ref[info.SectionType]', 'sectiontype': 'Ref[info.SectionType]', 'options': ITEMS},
         requires=[Clause('forall(lambda i: implies(0 <= i and i < len(options), len(options[i][0]) >= 1))',
                          label='every-item-has-a-path')],
         ensures=[Clause('%s[0] == 0 and self.keypairs == %s[1] and self.sectitems == %s[2]' % (BS, BS, BS),
                         carries='C14', label='one-component-items-are-this-sections-keys-the-rest-kept-in-order'),
                  Clause("self.schema == schema and self.sectiontype == sectiontype and "
                         "self._basic_key == reg_get(schema.registry, 'basic-key')", label='stores')],
         raises=[Raise('ZConfig.ConfigurationSyntaxError', when='%s[0] == 1' % BS, carries='C14,C07',
                       label='key-name-refused-by-the-key-type')],
         hints=['bag_split(options, sectiontype.keytype, _i0, self.keypairs, self.sectitems)'],
         loops=[Loop(invariant=[Clause('bag_split(options, sectiontype.keytype, _i0, self.keypairs, self.sectitems) == %s' % BS,
                                       label='remaining-fold-equals-fold'),
                                Clause('forall(lambda j: implies(0 <= j and j < len(self.sectitems), '
                                       'len(self.sectitems[j][0]) >= 2))', label='kept-items-address-child-sections'),
                                Clause("self.schema == schema and self.sectiontype == sectiontype and "
                                       "self._basic_key == reg_get(schema.registry, 'basic-key')")],
                     hints=['bag_split(options, sectiontype.keytype, _i0, self.keypairs, self.sectitems)'],
                     locals={'item': ITEM, 'optpath': 'Seq[str]', 'val': 'str', 'pos': OPOS, 'name': 'str'},
                     modifies=['self.keypairs', 'self.sectitems'])])
contract('cmdline.OptionBag.basic_key', params={'s': 'str', 'pos': OPOS}, returns='str',
         ensures=[Clause('result == kt_val(self._basic_key, s)', carries='C14')],
         raises=[Raise('ZConfig.ConfigurationSyntaxError', when='kt_raises(self._basic_key, s)', carries='C07',
                       label='not-a-basic-key')])
contract('cmdline.OptionBag.add_value', params={'name': 'str', 'val': 'str', 'pos': OPOS},
         modifies=['self.keypairs'],
         ensures=[Clause('self.keypairs == updated(old(self.keypairs), name, kp_get(old(self.keypairs), name) + [(val, pos)])',
                         carries='C14', label='value-appended-in-the-order-given')])
contract('cmdline.OptionBag.__contains__', params={'name': 'str'}, returns='bool',
         ensures=[Clause('result == (name in self.keypairs)', carries='C14', label='key-overridden')])
contract('cmdline.OptionBag.get_key', params={'name': 'str'}, returns='Seq[Tuple[str, %s]]' % OPOS,
         modifies=['self.keypairs'],
         ensures=[Clause('result == kp_get(old(self.keypairs), name)', carries='C14', label='all-values-of-the-key-in-order'),
                  Clause('implies(len(result) > 0, self.keypairs == removed(old(self.keypairs), name))', carries='C14',
                         label='consumed'),
                  Clause('implies(len(result) == 0, self.keypairs == old(self.keypairs))')])
contract('cmdline.OptionBag.keys', returns='Seq[str]',
         ensures=[Clause('result == keys(self.keypairs)', carries='C14')])
inline('cmdline.OptionBag._normalize_case')
contract('cmdline.OptionBag._is_type_name', params={'s': 'str', 'type_': 'str'}, returns='bool',
         ensures=[Clause('result == (not kt_raises(self._basic_key, s) and kt_val(self._basic_key, s) == type_)',
                         carries='C14', label='type-names-are-basic-keys')])
TAKEN = 'sect_taken(old(self.sectitems), self._basic_key, type_, name, 0)'
KEPT = 'sect_kept(old(self.sectitems), self._basic_key, type_, name, 0)'
CBS = 'bag_split(%s, val(sectiontype).keytype, 0, {}, [])' % TAKEN
contract('cmdline.OptionBag.get_section_info',
         params={'type_': 'str', 'name': 'Opt[str]'}, returns='Opt[Ref[cmdline.OptionBag]]',
         requires=[Clause('implies(len(sect_taken(self.sectitems, self._basic_key, type_, name, 0)) > 0, '
                          'type_.lower() in self.schema._types.items and '
                          "isa(self.schema._types.items[type_.lower()], 'info.SectionType'))",
                          label='type-of-an-ADDRESSED-section-known-to-the-schema-the-options-were-cooked-with')],
         modifies=['self.sectitems'], fresh_result=True,
         ensures=[Clause('(result is None) == (len(%s) == 0)' % TAKEN, carries='C14', label='none-iff-nothing-addressed'),
                  Clause('implies(result is None, self.sectitems == old(self.sectitems))', carries='C14',
                         label='nothing-consumed'),
                  Clause('implies(result is not None, self.sectitems == %s)' % KEPT, carries='C14',
                         label='addressed-items-consumed-others-kept-in-order'),
                  Clause('implies(result is not None, fresh(val(result)) and val(result).schema == self.schema and '
                         "val(result).sectiontype == cast(self.schema._types.items[type_.lower()], 'info.SectionType'))",
                         label='child-bag-for-that-type'),
                  Clause('implies(result is not None, '
                         'bag_split(%s, val(result).sectiontype.keytype, 0, {}, [])[0] == 0 and '
                         'val(result).keypairs == bag_split(%s, val(result).sectiontype.keytype, 0, {}, [])[1] and '
                         'val(result).sectitems == bag_split(%s, val(result).sectiontype.keytype, 0, {}, [])[2])'
                         % (TAKEN, TAKEN, TAKEN), carries='C14', label='child-bag-holds-the-addressed-items-without-their-head')],
         raises=[Raise('ZConfig.ConfigurationSyntaxError', carries='C14,C07',
                       label='key-name-refused-by-the-childs-key-type')],
         hints=['sect_taken(old(self.sectitems), self._basic_key, type_, name, _i0)',
                'sect_kept(old(self.sectitems), self._basic_key, type_, name, _i0)'],
         loops=[Loop(invariant=[Clause('L + sect_taken(old(self.sectitems), self._basic_key, type_, name, _i0) == %s' % TAKEN,
                                       label='taken-so-far-plus-remaining'),
                                Clause('R + sect_kept(old(self.sectitems), self._basic_key, type_, name, _i0) == %s' % KEPT,
                                       label='kept-so-far-plus-remaining'),
                                Clause('forall(lambda j: implies(0 <= j and j < len(L), len(L[j][0]) >= 1))'),
                                Clause('forall(lambda j: implies(0 <= j and j < len(R), len(R[j][0]) >= 2))')],
                     hints=['sect_taken(old(self.sectitems), self._basic_key, type_, name, _i0)',
                            'sect_kept(old(self.sectitems), self._basic_key, type_, name, _i0)'],
                     locals={'L': ITEMS, 'R': ITEMS, 'item': ITEM, 'optpath': 'Seq[str]', 'val': 'str', 'pos': OPOS,
                             's': 'str'}, modifies=[])])
contract('cmdline.OptionBag.finish',
         ensures=[Clause('len(self.sectitems) == 0 and len(keys(self.keypairs)) == 0', carries='C14',
                         label='every-override-was-consumed')],
         raises=[Raise('ZConfig.ConfigurationError', when='len(self.sectitems) > 0 or len(keys(self.keypairs)) > 0',
                       then=[Clause("isclass(exc, 'ZConfig.ConfigurationError')")], carries='C14',
                       label='override-addresses-nothing-in-the-text')])
contract('cmdline.ExtendedConfigLoader.cook', returns='Ref[cmdline.OptionBag]', fresh_result=True,
         ensures=[Clause('fresh(result) and result.schema == self.schema and result.sectiontype == self.schema',
                         label='bag-for-the-schema'),
                  Clause('bag_split(self.clopts, self.schema.keytype, 0, {}, [])[0] == 0 and '
                         'result.keypairs == bag_split(self.clopts, self.schema.keytype, 0, {}, [])[1] and '
                         'result.sectitems == bag_split(self.clopts, self.schema.keytype, 0, {}, [])[2]',
                         carries='C14', label='top-level-keys-and-section-items-in-the-order-added')],
         raises=[Raise('ZConfig.ConfigurationSyntaxError',
                       when='bag_split(self.clopts, self.schema.keytype, 0, {}, [])[0] == 1', carries='C14,C07',
                       label='key-name-refused-by-the-key-type')])

# ---- matchers that honour an option bag ------------------------------------------------------------------------------
# MatcherMixin is only ever mixed into matcher.BaseMatcher subclasses (ExtendedSectionMatcher,
# ExtendedSchemaMatcher): it is modelled as a BaseMatcher so that self.type / self._values resolve.
model('cmdline.MatcherMixin', fields={'optionbag': 'Ref[cmdline.OptionBag]'}, bases=['matcher.BaseMatcher'],
      late_fields=('optionbag',))
contract('cmdline.MatcherMixin.set_optionbag', params={'bag': 'Ref[cmdline.OptionBag]'},
         modifies=['self.optionbag'], ensures=[Clause('self.optionbag == bag')])

_base = REGISTRY['matcher.BaseMatcher.addValue']
BAG = 'kt_val(self.type.keytype, key) in self.optionbag.keypairs'
contract('cmdline.MatcherMixin.addValue', params=dict(_base.params), modifies=list(_base.modifies),
         ensures=[Clause('implies(%s, self._values == old(self._values))' % BAG, carries='C14',
                         label='file-line-of-an-overridden-key-is-dropped')] +
                 [Clause('implies(not (%s), %s)' % (BAG, cl.expr), carries=cl.carries, label=cl.label)
                  for cl in _base.ensures],
         raises=[_base.raises[0],
                 Raise('ZConfig.ConfigurationError', when='not (%s) and (%s)' % (BAG, _base.raises[1].when),
                       then=list(_base.raises[1].then), carries='C01,C14', label=_base.raises[1].label)],
         notes='the normalised key decides: a key the option bag overrides is ignored in the file, any other '
               'key behaves exactly as in BaseMatcher.addValue')

contract('matcher.SchemaMatcher.__init__', params={'schema': 'Ref[info.SectionType]'},
         requires=[Clause('invariant_of(schema)', label='RI-of-the-schema')],
         ensures=[Clause('self.type == schema and self.info == schema and not self.finished', label='matcher-for-the-schema'),
                  Clause('fresh(self.handlers) and len(self.handlers.items) == 0', carries='C13,C16',
                         label='fresh-handler-list'),
                  Clause('len(keys(self._sectionnames)) == 0', label='no-names-used-yet'),
                  Clause('forall(lambda i: implies(0 <= i and i < len(schema._children), '
                         'slot_empty(schema._children[i][1], self._values)))', carries='C01,C02,C13',
                         label='every-attribute-starts-empty')])
CBS0 = 'bag_split(self.clopts, self.schema.keytype, 0, {}, [])'
contract('cmdline.ExtendedConfigLoader.createSchemaMatcher', returns='Ref[matcher.SchemaMatcher]', fresh_result=True,
         requires=[Clause('invariant_of(self.schema)', label='RI-of-the-schema')],
         ensures=[Clause('fresh(result) and result.type == self.schema and len(result.handlers.items) == 0 and '
                         'fresh(result.handlers) and not result.finished', carries='C13', label='new-matcher-for-the-schema'),
                  Clause("implies(len(self.clopts) == 0, isclass(result, 'matcher.SchemaMatcher'))", carries='C14',
                         label='no-overrides-plain-matcher'),
                  Clause("implies(len(self.clopts) > 0, isclass(result, 'cmdline.ExtendedSchemaMatcher') and "
                         "%s[0] == 0 and cast(result, 'cmdline.ExtendedSchemaMatcher').optionbag.keypairs == %s[1] and "
                         "cast(result, 'cmdline.ExtendedSchemaMatcher').optionbag.sectitems == %s[2] and "
                         "cast(result, 'cmdline.ExtendedSchemaMatcher').optionbag.schema == self.schema)"
                         % (CBS0, CBS0, CBS0), carries='C14', label='overrides-handed-to-the-schema-matcher')],
         raises=[Raise('ZConfig.ConfigurationSyntaxError', when='len(self.clopts) > 0 and %s[0] == 1' % CBS0,
                       carries='C14,C07', label='key-name-refused-by-the-key-type')])

_bc = REGISTRY['matcher.BaseMatcher.createChildMatcher']
CT = "sect_taken(old(self.optionbag.sectitems), self.optionbag._basic_key, val(type_.name), name, 0)"
CK = "sect_kept(old(self.optionbag.sectitems), self.optionbag._basic_key, val(type_.name), name, 0)"
contract('cmdline.MatcherMixin.createChildMatcher', params=dict(_bc.params), returns=_bc.returns,
         requires=list(_bc.requires) + [
             Clause("implies(len(sect_taken(self.optionbag.sectitems, self.optionbag._basic_key, val(type_.name), name, 0)) > 0, "
                    "val(type_.name).lower() in self.optionbag.schema._types.items and "
                    "self.optionbag.schema._types.items[val(type_.name).lower()] == type_)",
                    carries='C14', label='type-known-to-the-schema-the-options-were-cooked-with')],
         inst=list(_bc.inst), fresh_result=True, modifies=['self.optionbag.sectitems'],
         ensures=list(_bc.ensures) + [
             Clause("implies(len(%s) == 0, isclass(result, 'matcher.SectionMatcher') and "
                    "self.optionbag.sectitems == old(self.optionbag.sectitems))" % CT, carries='C14',
                    label='section-not-addressed-plain-matcher-nothing-consumed'),
             Clause("implies(len(%s) > 0, isclass(result, 'cmdline.ExtendedSectionMatcher') and "
                    "self.optionbag.sectitems == %s)" % (CT, CK), carries='C14',
                    label='first-matching-section-consumes-its-items'),
             Clause("implies(len(%s) > 0, "
                    "cast(result, 'cmdline.ExtendedSectionMatcher').optionbag.keypairs == "
                    "bag_split(%s, type_.keytype, 0, {}, [])[1] and "
                    "cast(result, 'cmdline.ExtendedSectionMatcher').optionbag.sectitems == "
                    "bag_split(%s, type_.keytype, 0, {}, [])[2])" % (CT, CT, CT), carries='C14',
                    label='child-bag-holds-the-addressed-items-without-their-head')],
         raises=[Raise('ZConfig.ConfigurationError+', carries='C01,C14',
                       label='no-slot-name-not-allowed-or-key-refused')])

contract('cmdline.MatcherMixin.finish_optionbag',
         modifies=['self._values', 'self.optionbag.keypairs'],
         asserts=[At("args[0] == self and args[1] == key and args[2] == val and "
                     "args[3] == (pos[1], pos[2], pos[0])",
                     call='ZConfig.matcher.BaseMatcher.addValue', carries='C14,C08',
                     label='override-value-fed-verbatim-with-line-column-source-position')],
         ensures=[Clause('len(self.optionbag.sectitems) == 0 and len(keys(self.optionbag.keypairs)) == 0',
                         carries='C14', label='every-override-was-consumed')],
         raises=[Raise('ZConfig.ConfigurationError+', carries='C14,C07', label='override-rejected-or-left-over')],
         loops=[Loop(invariant=list(contracts.matcher.MI), locals={'key': 'str'},
                     modifies=['self._values', 'self.optionbag.keypairs']),
                Loop(invariant=list(contracts.matcher.MI), locals={'val': 'str', 'pos': OPOS}, modifies=['self._values'])])

CONSUMED = Clause('len(self.optionbag.sectitems) == 0 and len(keys(self.optionbag.keypairs)) == 0', carries='C14',
                  label='every-override-was-consumed-before-the-section-is-completed')
contract('cmdline.ExtendedSectionMatcher.finish', returns='Ref[matcher.SectionValue]', fresh_result=True,
         requires=[contracts.matcher.NOT_FINISHED],
         modifies=['self._values', 'self.handlers.items', 'self.optionbag.keypairs', 'self.finished'],
         ensures=[CONSUMED, Clause(contracts.matcher.HANDLER_ENTRIES, carries='C16',
                                   label='one-handler-entry-per-handler-bearing-child-appended')] + list(contracts.matcher.VALUE_OF),
         raises=[Raise('ZConfig.ConfigurationError+', carries='C14,C07', label='override-or-section-rejected')])
contract('cmdline.ExtendedSchemaMatcher.finish', returns='Opaque[PyVal]',
         requires=[contracts.matcher.NOT_FINISHED],
         modifies=['self._values', 'self.handlers.items', 'self.optionbag.keypairs', 'self.finished'],
         ensures=[CONSUMED],
         raises=[Raise('ZConfig.ConfigurationError+', carries='C14,C07', label='override-or-text-rejected'),
                 Raise('ValueError', label='the schema datatype itself raised (passes through unchanged, C07)')])

# ---- the public entry points (loader.py module level): schema + path / file + overrides -> configuration ------------
import contracts.loader as _L
SPECS_OK = 'forall(lambda j: implies(0 <= j and j < len(overrides), not (%s)))' % BAD_SPEC.replace('spec', 'overrides[j]')
contract('loader._get_config_loader', params={'schema': 'Ref[info.SectionType]', 'overrides': 'Seq[str]'},
         returns='Ref[loader.ConfigLoader]', fresh_result=True,
         ensures=[Clause('fresh(result) and result.schema == schema', carries='C13,C14', label='a-new-loader-for-the-given-schema'),
                  Clause("implies(len(overrides) == 0, isclass(result, 'loader.ConfigLoader'))", carries='C14',
                         label='no-overrides-plain-loader'),
                  Clause("implies(len(overrides) > 0, isclass(result, 'cmdline.ExtendedConfigLoader') and "
                         "len(cast(result, 'cmdline.ExtendedConfigLoader').clopts) == len(overrides))", carries='C14',
                         label='every-specifier-recorded'),
                  Clause(SPECS_OK, carries='C14', label='every-specifier-has-an-equals-sign-and-no-empty-path-component')],
         raises=[Raise('ZConfig.ConfigurationSyntaxError', when='not (%s)' % SPECS_OK, carries='C07,C14', label='malformed-specifier')],
         loops=[Loop(invariant=[Clause("isclass(loader, 'cmdline.ExtendedConfigLoader') and loader.schema == schema and "
                                       "len(cast(loader, 'cmdline.ExtendedConfigLoader').clopts) == _i0"),
                                Clause('forall(lambda j: implies(0 <= j and j < _i0, not (%s)))' % BAD_SPEC.replace('spec', 'overrides[j]'))],
                     locals={'opt': 'str'}, modifies=['+cmdline.ExtendedConfigLoader.clopts'])])
_OPEN = _L.UNCHANGED_OPEN
contract('loader.loadConfig', params={'schema': 'Ref[info.SectionType]', 'url': 'str', 'overrides': ('Seq[str]', '()')},
         returns='Opaque[PyVal]', requires=[Clause('invariant_of(schema)', label='RI-of-the-schema')],
         modifies=['GHOST.open_files', '*Sink.events', '+loader.ConfigLoader.*', '+Sink.finished'] + list(_L.LOADER_SCHEMA),
         ensures=[_OPEN],
         raises=[Raise('ZConfig.ConfigurationError+', then=[_OPEN], carries='C07,C19', label='rejected'),
                 Raise('OSError', then=[_OPEN], carries='C19', label='io-error-while-reading (environment fault)'),
                 Raise('ValueError', then=[_OPEN], label='a datatype function itself raised, or a malformed top-level URL')])
_CLOSED = ('not file.is_open and GHOST.open_files == old(GHOST.open_files) - (1 if old(file.is_open) else 0)')
contract('loader.loadConfigFile',
         params={'schema': 'Ref[info.SectionType]', 'file': 'Ref[File]', 'url': ('Opt[str]', 'None'), 'overrides': ('Seq[str]', '()')},
         returns='Opaque[PyVal]', requires=[Clause('invariant_of(schema)', label='RI-of-the-schema')],
         modifies=['file.is_open', 'file.lines', 'GHOST.open_files', '*Sink.events', '+loader.ConfigLoader.*', '+Sink.finished'] + list(_L.LOADER_SCHEMA),
         ensures=[Clause(_CLOSED, carries='C19', label='callers-file-closed')],
         raises=[Raise('ZConfig.ConfigurationError+',
                       then=[Clause('(%s) or (not (%s) and file.is_open == old(file.is_open) and '
                                    'GHOST.open_files == old(GHOST.open_files))' % (_CLOSED, SPECS_OK), carries='C19',
                                    label='callers-file-closed-on-failure-or-untouched-when-an-override-specifier-is-malformed')],
                       carries='C07,C19', label='rejected'),
                 Raise('OSError', then=[Clause(_CLOSED, carries='C19')], label='io-error-while-reading (environment fault)'),
                 Raise('ValueError', then=[Clause(_CLOSED, carries='C19')], label='a datatype function itself raised')])
