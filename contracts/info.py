"""Contracts for ZConfig/info.py (properties C01, C02, C10, C11, C12, C13)."""
from pyvc.api import (At, Clause, Loop, Raise, assumed, contract, inline, model, prim, shared_dict,
                      shared_list, spec_module)
from pyvc.types import TInt, TNone, TUnion, define_type
import spec.schema as SS

spec_module(SS)

POSN = 'Tuple[int, Opt[int], Opt[str]]'
# maxOccurs is an int or the Unbounded object (+infinity; comparisons are specialised in the executor)
define_type('MaxOcc', TUnion('MaxOcc', [('fin', TInt), ('unb', TNone)]))

# ---- opaque callables supplied by schemas ------------------------------------------------------------------
prim('dt_raises', 'Fun[dt], str -> bool')
prim('dt_val', 'Fun[dt], str -> Opaque[PyVal]')
assumed('fun:dt', params={'fn': 'Fun[dt]', 'x': 'str'}, returns='Opaque[PyVal]', pure=True,
        ensures=[Clause('result == dt_val(fn, x)')],
        raises=[Raise('ValueError', when='dt_raises(fn, x)')],
        notes='a datatype function of a schema: a pure function of its argument that returns or raises '
              'ValueError (C07 quantifies over such schemas)')
prim('kt_raises', 'Fun[kt], str -> bool')
prim('kt_val', 'Fun[kt], str -> str')
assumed('fun:kt', params={'fn': 'Fun[kt]', 'x': 'str'}, returns='str', pure=True,
        ensures=[Clause('result == kt_val(fn, x)')],
        raises=[Raise('ValueError', when='kt_raises(fn, x)')],
        notes='a key type: str -> normalised str, or ValueError')

# ---- ValueInfo -----------------------------------------------------------------------------------------------
model('info.ValueInfo', fields={'value': 'str', 'position': POSN})
contract('info.ValueInfo.__init__', params={'value': 'str', 'position': POSN},
         ensures=[Clause('self.value == value and self.position == position', carries='C08', label='stores-position')])
contract('info.ValueInfo.convert', params={'datatype': 'Fun[dt]'}, returns='Opaque[PyVal]',
         ensures=[Clause('result == dt_val(datatype, self.value)', carries='C02', label='converted')],
         raises=[Raise('ZConfig.DataConversionError', when='dt_raises(datatype, self.value)',
                       then=[Clause('exc.has_lineno and exc.lineno == self.position[0] and exc.colno == self.position[1] '
                                    'and exc.url == self.position[2]', carries='C08', label='position-of-the-value'),
                             Clause("isclass(exc, 'ZConfig.DataConversionError')", carries='C01')],
                       carries='C01,C08', label='conversion-error')])

# ---- info objects ----------------------------------------------------------------------------------------------
model('info.BaseInfo',
      fields={'name': 'Opt[str]', 'datatype': 'Opt[Fun[dt]]', 'minOccurs': 'int', 'maxOccurs': 'MaxOcc',
              'handler': 'Opt[str]', 'attribute': 'Opt[str]'})
model('InfoLike', fields={}, external=True, abstract=True)
model('info.SectionInfo', fields={'sectiontype': 'Ref[TypeLike]'}, bases=['InfoLike'])
model('TypeLike', fields={'name': 'Opt[str]'}, external=True, abstract=True)        # SectionType | AbstractType
model('info.AbstractType', fields={'_subtypes': 'Map[str, Ref[info.SectionType]]', 'description': 'Opt[str]'},
      bases=['TypeLike'])

contract('info.BaseInfo.ismulti', returns='bool', pure=True,
         ensures=[Clause('result == (self.maxOccurs > 1)', carries='C01', label='multi-iff-max-above-1')])
contract('info.BaseInfo.issection', returns='bool', pure=True,
         ensures=[Clause("result == isa(self, 'info.SectionInfo')", carries='C01', label='section-iff-SectionInfo')])
contract('info.BaseInfo.isabstract', returns='bool', pure=True, ensures=[Clause('result == False')])
contract('info.SectionInfo.issection', returns='bool', pure=True, ensures=[Clause('result == True')])
contract('info.SectionInfo.allowUnnamed', returns='bool', pure=True,
         ensures=[Clause("result == (self.name == '*')", carries='C01', label='unnamed-only-for-star')])
contract('info.SectionInfo.isAllowedName', params={'name': 'Opt[str]'}, returns='bool', pure=True,
         ensures=[Clause('result == allowed_name(self.name, name)', carries='C01', label='name-rule')])

# ---- types ------------------------------------------------------------------------------------------------------
CHILD = 'Tuple[Opt[str], Ref[info.BaseInfo]]'
shared_dict('types', 'str', 'Ref[TypeLike]')
model('Registry', fields={}, external=True)
model('info.SectionType',
      fields={'datatype': 'Opt[Fun[sdt]]', 'keytype': 'Fun[kt]', 'valuetype': 'Opt[Fun[dt]]',
              'handler': 'Opt[str]', 'description': 'Opt[str]', 'example': 'Opt[str]', 'registry': 'Ref[Registry]',
              '_children': 'Seq[%s]' % CHILD, '_attrmap': 'Map[str, Ref[info.BaseInfo]]',
              '_keymap': 'Map[str, Ref[info.BaseInfo]]', '_types': 'Ref[dict:types]'},
      bases=['TypeLike', 'InfoLike'],
      invariant=[Clause('forall(lambda i: implies(0 <= i and i < len(self._children), '
                        'child_wf(self._children[i][0], self._children[i][1])))', label='RI-children-well-formed'),
                 Clause('self.datatype is not None', label='RI-has-a-section-datatype'),
                 Clause('forall(lambda i, j: implies(0 <= i and i < j and j < len(self._children), '
                        'self._children[i][1].attribute != self._children[j][1].attribute))',
                        label='RI-attributes-distinct')])

contract('TypeLike.isabstract', self_type='TypeLike', returns='bool', pure=True,
         ensures=[Clause("result == isa(self, 'info.AbstractType')", carries='C12', label='abstract-iff-AbstractType')])
contract('info.SectionType.isabstract', returns='bool', pure=True, ensures=[Clause('result == False')])
contract('info.AbstractType.isabstract', returns='bool', pure=True, ensures=[Clause('result == True')])

contract('info.AbstractType.getsubtype', params={'name': 'str'}, returns='Ref[info.SectionType]',
         ensures=[Clause('name in self._subtypes and result == self._subtypes[name]', carries='C12', label='registered-implementer')],
         raises=[Raise('ZConfig.SchemaError', when='name not in self._subtypes', carries='C12', label='not-an-implementer')])
contract('info.AbstractType.hassubtype', params={'name': 'str'}, returns='bool',
         ensures=[Clause('result == (name in self._subtypes)', carries='C12')])

contract('info.SectionType.__len__', returns='int', pure=True, ensures=[Clause('result == len(self._children)')])
contract('info.SectionType.__getitem__', params={'index': 'int'}, returns=CHILD, pure=True,
         requires=[Clause('0 <= index and index < len(self._children)', label='index-in-range')],
         ensures=[Clause('result == self._children[index]')])
inline('info.SectionType.__iter__')

contract('info.SectionType.gettype', params={'name': 'str'}, returns='Ref[TypeLike]',
         ensures=[Clause('name.lower() in self._types and result == self._types[name.lower()]', carries='C01', label='known-type')],
         raises=[Raise('ZConfig.SchemaError', when='name.lower() not in self._types', carries='C01', label='unknown-type')])

contract('info.SectionType.getsectioninfo', params={'type_': 'str', 'name': 'Opt[str]'},
         returns='Ref[info.SectionInfo]',
         ensures=[Clause('slot_search(self, 0, type_, name) >= 0 and slot_search(self, 0, type_, name) < len(self._children) '
                         'and result == self._children[slot_search(self, 0, type_, name)][1]',
                         carries='C01,C12', label='first-deciding-slot-takes-it'),
                  Clause('slot_case(self._children[slot_search(self, 0, type_, name)][0], result, type_, name) == 1',
                         carries='C01,C12', label='slot-claims-header')],
         raises=[Raise('ZConfig.ConfigurationError', when='slot_search(self, 0, type_, name) < 0',
                       carries='C01,C12', label='no-slot-or-rejected')],
         hints=['slot_case(key, info, type_, name)', 'slot_search(self, _i0, type_, name)'],
         loops=[Loop(invariant=[Clause('slot_search(self, _i0, type_, name) == slot_search(self, 0, type_, name)',
                                       label='remaining-search-equals-search')],
                     hints=['slot_case(key, info, type_, name)'],
                     locals={})])

# ---- defaults ----------------------------------------------------------------------------------------------------
import contracts.matcher_types      # Slot / Item / MItem
model('info.BaseKeyInfo', fields={'_finished': 'bool', '_rawdefaults': 'Slot', '_default': 'Slot'})
contract('info.BaseInfo.getdefault', returns='Slot', pure=True,
         ensures=[Clause('result == default_of(self)', carries='C02,C13', label='copy-of-the-declared-defaults')],
         notes='interface contract of the three getdefault() implementations; the result is a COPY '
               '(copy.copy of an owned container is a new container with the same items: value semantics)')
contract('info.KeyInfo.getdefault', returns='Slot',
         ensures=[Clause('result == default_of(self)', carries='C02,C13', label='copy-of-the-declared-defaults')],
         fresh_result=True)
contract('info.MultiKeyInfo.getdefault', returns='Slot',
         ensures=[Clause('result == default_of(self)', carries='C02,C13', label='copy-of-the-declared-defaults')],
         fresh_result=True)
contract('info.SectionInfo.getdefault', returns='Slot',
         ensures=[Clause('result == default_of(self)', carries='C02', label='sections-have-no-defaults')])
