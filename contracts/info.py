"""Contracts for ZConfig/info.py (properties C01, C02, C10, C11, C12, C13)."""
from pyvc.api import (At, Clause, Loop, Raise, MODELS, REGISTRY, assumed, contract, inline, model, prim, shared_dict,
                      shared_list, spec_module)
from pyvc.types import TInt, TNone, TUnion, define_type
import spec.schema as SS

spec_module(SS)

POSN = 'Tuple[int, Opt[int], Opt[str]]'
# maxOccurs is an int or the Unbounded object (+infinity; comparisons are specialised in the executor)
define_type('MaxOcc', TUnion('MaxOcc', [('fin', TInt), ('unb', TNone)]))

# ---- opaque callables supplied by schemas ------------------------------------------------------------------
prim('dt_raises', 'Fun[dt], str -> bool')
prim('dt_val', 'Fun[dt], str -> Opaque[PyVal]')
assumed('fun:dt', params={'fn': 'Fun[dt]', 'x': 'str'}, returns='Opaque[PyVal]', pure=True,
        ensures=[Clause('result == dt_val(fn, x)')],
        raises=[Raise('ValueError', when='dt_raises(fn, x)')],
        notes='a datatype function of a schema: a pure function of its argument that returns or raises '
              'ValueError (C07 quantifies over such schemas)')
prim('kt_raises', 'Fun[kt], str -> bool')
# accepts_nonempty(fn): the conversion never returns '', '*' or '+' (true of the stock regex conversions - their
# languages start with a letter or '_', C09; an ASSUMPTION for a key type supplied by a schema)
prim('accepts_nonempty', 'Fun[kt] -> bool')
prim('kt_val', 'Fun[kt], str -> str', args=['fn', 'x'],
     axioms=["implies(accepts_nonempty(fn) and not kt_raises(fn, x), result != '' and result != '*' and result != '+')"])
assumed('fun:kt', params={'fn': 'Fun[kt]', 'x': 'str'}, returns='str', pure=True,
        ensures=[Clause('result == kt_val(fn, x)')],
        raises=[Raise('ValueError', when='kt_raises(fn, x)')],
        notes='a key type: str -> normalised str, or ValueError')

# ---- ValueInfo -----------------------------------------------------------------------------------------------
model('info.ValueInfo', fields={'value': 'str', 'position': POSN})
contract('info.ValueInfo.__init__', params={'value': 'str', 'position': POSN},
         ensures=[Clause('self.value == value and self.position == position', carries='C08', label='stores-position')])
contract('info.ValueInfo.convert', params={'datatype': 'Fun[dt]'}, returns='Opaque[PyVal]',
         ensures=[Clause('result == dt_val(datatype, self.value)', carries='C02', label='converted')],
         raises=[Raise('ZConfig.DataConversionError', when='dt_raises(datatype, self.value)',
                       then=[Clause('exc.has_lineno and exc.lineno == self.position[0] and exc.colno == self.position[1] '
                                    'and exc.url == self.position[2]', carries='C08', label='position-of-the-value'),
                             Clause("isclass(exc, 'ZConfig.DataConversionError')", carries='C01')],
                       carries='C01,C08', label='conversion-error')])

# ---- info objects ----------------------------------------------------------------------------------------------
model('info.BaseInfo',
      fields={'name': 'Opt[str]', 'datatype': 'Opt[Fun[dt]]', 'minOccurs': 'int', 'maxOccurs': 'MaxOcc',
              'handler': 'Opt[str]', 'attribute': 'Opt[str]'})
model('InfoLike', fields={}, external=True, abstract=True)
model('info.SectionInfo', fields={'sectiontype': 'Ref[TypeLike]'}, bases=['InfoLike'])
model('TypeLike', fields={'name': 'Opt[str]'}, external=True, abstract=True)        # SectionType | AbstractType
model('info.AbstractType', fields={'_subtypes': 'Map[str, Ref[info.SectionType]]', 'description': 'Opt[str]'},
      bases=['TypeLike'])

contract('info.BaseInfo.ismulti', returns='bool', pure=True,
         ensures=[Clause('result == (self.maxOccurs > 1)', carries='C01', label='multi-iff-max-above-1')])
contract('info.BaseInfo.issection', returns='bool', pure=True,
         ensures=[Clause("result == isa(self, 'info.SectionInfo')", carries='C01', label='section-iff-SectionInfo')])
contract('info.BaseInfo.isabstract', returns='bool', pure=True, ensures=[Clause('result == False')])
contract('info.SectionInfo.issection', returns='bool', pure=True, ensures=[Clause('result == True')])
contract('info.SectionInfo.allowUnnamed', returns='bool', pure=True,
         ensures=[Clause("result == (self.name == '*')", carries='C01', label='unnamed-only-for-star')])
contract('info.SectionInfo.isAllowedName', params={'name': 'Opt[str]'}, returns='bool', pure=True,
         ensures=[Clause('result == allowed_name(self.name, name)', carries='C01', label='name-rule')])

# ---- types ------------------------------------------------------------------------------------------------------
CHILD = 'Tuple[Opt[str], Ref[info.BaseInfo]]'
shared_dict('types', 'str', 'Ref[TypeLike]')
model('Registry', fields={}, external=True)
model('info.SectionType',
      fields={'datatype': 'Opt[Fun[sdt]]', 'keytype': 'Fun[kt]', 'valuetype': 'Opt[Fun[dt]]',
              'handler': 'Opt[str]', 'description': 'Opt[str]', 'example': 'Opt[str]', 'registry': 'Ref[Registry]',
              '_children': 'Seq[%s]' % CHILD, '_attrmap': 'Map[str, Ref[info.BaseInfo]]',
              '_keymap': 'Map[str, Ref[info.BaseInfo]]', '_types': 'Ref[dict:types]'},
      bases=['TypeLike', 'InfoLike'],
      invariant=[Clause('forall(lambda i: implies(0 <= i and i < len(self._children), '
                        'child_wf(self._children[i][0], self._children[i][1])))', label='RI-children-well-formed'),
                 Clause('self.datatype is not None', label='RI-has-a-section-datatype'),
                 Clause('forall(lambda i, j: implies(0 <= i and i < j and j < len(self._children), '
                        'self._children[i][1].attribute != self._children[j][1].attribute))',
                        label='RI-attributes-distinct'),
                 Clause('forall(lambda i: implies(0 <= i and i < len(self._children), child_ready(self._children[i][1])))',
                        label='RI-children-convertible')])

contract('TypeLike.isabstract', self_type='TypeLike', returns='bool', pure=True,
         ensures=[Clause("result == isa(self, 'info.AbstractType')", carries='C12', label='abstract-iff-AbstractType')])
contract('info.SectionType.isabstract', returns='bool', pure=True, ensures=[Clause('result == False')])
contract('info.AbstractType.isabstract', returns='bool', pure=True, ensures=[Clause('result == True')])

contract('info.AbstractType.getsubtype', params={'name': 'str'}, returns='Ref[info.SectionType]',
         ensures=[Clause('name in self._subtypes and result == self._subtypes[name]', carries='C12', label='registered-implementer')],
         raises=[Raise('ZConfig.SchemaError', when='name not in self._subtypes', carries='C12', label='not-an-implementer')])
contract('info.AbstractType.hassubtype', params={'name': 'str'}, returns='bool',
         ensures=[Clause('result == (name in self._subtypes)', carries='C12')])

contract('info.SectionType.__len__', returns='int', pure=True, ensures=[Clause('result == len(self._children)')])
contract('info.SectionType.__getitem__', params={'index': 'int'}, returns=CHILD, pure=True,
         requires=[Clause('0 <= index and index < len(self._children)', label='index-in-range')],
         ensures=[Clause('result == self._children[index]')])
inline('info.SectionType.__iter__')

contract('info.SectionType.gettype', params={'name': 'str'}, returns='Ref[TypeLike]',
         ensures=[Clause('name.lower() in self._types and result == self._types[name.lower()]', carries='C01', label='known-type')],
         raises=[Raise('ZConfig.SchemaError', when='name.lower() not in self._types', carries='C01', label='unknown-type')])

contract('info.SectionType.getinfo', params={'key': 'str'}, returns='Ref[info.BaseInfo]', pure=True,
         ensures=[Clause("key != '' and key in self._keymap and result == self._keymap[key]", carries='C13',
                         label='the-declared-item-of-that-key')],
         raises=[Raise('ZConfig.ConfigurationError', when="key == '' or key not in self._keymap", carries='C13',
                       label='no-such-key-is-a-configuration-error-not-a-KeyError')],
         notes='schema description accessor (session 4): a lookup in the key map, no write to the schema')

contract('info.SectionType.getsectioninfo', params={'type_': 'str', 'name': 'Opt[str]'},
         returns='Ref[info.SectionInfo]',
         ensures=[Clause('slot_search(self, 0, type_, name) >= 0 and slot_search(self, 0, type_, name) < len(self._children) '
                         'and result == self._children[slot_search(self, 0, type_, name)][1]',
                         carries='C01,C12', label='first-deciding-slot-takes-it'),
                  Clause('slot_case(self._children[slot_search(self, 0, type_, name)][0], result, type_, name) == 1',
                         carries='C01,C12', label='slot-claims-header')],
         raises=[Raise('ZConfig.ConfigurationError', when='slot_search(self, 0, type_, name) < 0',
                       carries='C01,C12', label='no-slot-or-rejected')],
         hints=['slot_case(key, info, type_, name)', 'slot_search(self, _i0, type_, name)'],
         loops=[Loop(invariant=[Clause('slot_search(self, _i0, type_, name) == slot_search(self, 0, type_, name)',
                                       label='remaining-search-equals-search')],
                     hints=['slot_case(key, info, type_, name)'],
                     locals={})])

# ---- defaults ----------------------------------------------------------------------------------------------------
import contracts.matcher_types      # Slot / Item / MItem
model('info.BaseKeyInfo', fields={'_finished': 'bool', '_rawdefaults': 'Slot', '_default': 'Slot'},
      late_fields=('_default',),
      invariant=[Clause('self.datatype is not None', label='keys-have-a-datatype')])
contract('info.BaseInfo.getdefault', returns='Slot', pure=True,
         ensures=[Clause('result == default_of(self)', carries='C02,C13', label='copy-of-the-declared-defaults')],
         notes='interface contract of the three getdefault() implementations; the result is a COPY '
               '(copy.copy of an owned container is a new container with the same items: value semantics)')
contract('info.KeyInfo.getdefault', returns='Slot',
         ensures=[Clause('result == default_of(self)', carries='C02,C13', label='copy-of-the-declared-defaults')],
         fresh_result=True)
contract('info.MultiKeyInfo.getdefault', returns='Slot',
         ensures=[Clause('result == default_of(self)', carries='C02,C13', label='copy-of-the-declared-defaults')],
         fresh_result=True)
contract('info.SectionInfo.getdefault', returns='Slot',
         ensures=[Clause('result == default_of(self)', carries='C02', label='sections-have-no-defaults')])

# ================================================================================================================
# Construction of schema objects (C10: rules enforced when the schema is built; C11: composition)
# ================================================================================================================
SCHEMA_ERR = "isclass(exc, 'ZConfig.SchemaError')"
contract('info.BaseInfo.__init__',
         params={'name': 'Opt[str]', 'datatype': 'Opt[Fun[dt]]', 'minOccurs': 'int', 'maxOccurs': 'MaxOcc',
                 'handler': 'Opt[str]', 'attribute': 'Opt[str]'},
         ensures=[Clause('self.name == name and self.datatype == datatype and self.minOccurs == minOccurs and '
                         'self.maxOccurs == maxOccurs and self.handler == handler and self.attribute == attribute',
                         carries='C10', label='stores-the-declaration'),
                  Clause('maxOccurs >= 1 and not (minOccurs > maxOccurs)', carries='C10', label='occurrence-bounds-consistent')],
         raises=[Raise('ZConfig.SchemaError', when='maxOccurs < 1 or minOccurs > maxOccurs',
                       then=[Clause(SCHEMA_ERR)], carries='C10', label='bad-occurrence-bounds')])

KINFO = {'name': 'Opt[str]', 'datatype': 'Opt[Fun[dt]]', 'minOccurs': 'int', 'maxOccurs': 'MaxOcc',
         'handler': 'Opt[str]', 'attribute': 'Opt[str]'}
STORES = ('self.name == name and self.datatype == datatype and self.minOccurs == minOccurs and '
          'self.handler == handler and self.attribute == attribute')
contract('info.BaseKeyInfo.__init__', params=dict(KINFO),
         requires=[Clause('datatype is not None', label='keys-have-a-datatype')],
         ensures=[Clause(STORES + ' and self.maxOccurs == maxOccurs and not self._finished', carries='C10', label='stores-the-declaration'),
                  Clause('maxOccurs >= 1 and not (minOccurs > maxOccurs)', label='occurrence-bounds-consistent')],
         raises=[Raise('ZConfig.SchemaError', when='maxOccurs < 1 or minOccurs > maxOccurs', carries='C10',
                       label='bad-occurrence-bounds')])
contract('info.BaseKeyInfo.finish', modifies=['self._finished'],
         ensures=[Clause('self._finished and not old(self._finished)', carries='C10', label='finished-once')],
         raises=[Raise('ZConfig.SchemaError', when='self._finished', carries='C10', label='finished-twice')])

# ---- defaults of keys ------------------------------------------------------------------------------------------------
def _shape(kind):
    return {'kmap': "is_alt(self._default, 'kmap')", 'lst': "is_alt(self._default, 'lst')",
            'single': "(is_alt(self._default, 'none') or is_alt(self._default, 'vi'))"}[kind]


model('info.KeyInfo', fields={},
      invariant=[Clause("(self.name == '+') == is_alt(self._default, 'kmap')", label='wildcard-key-has-a-default-map'),
                 Clause("implies(self.name != '+', is_alt(self._default, 'none') or is_alt(self._default, 'vi'))",
                        label='single-key-has-at-most-one-default'),
                 Clause("not (self.maxOccurs > 1)", label='single-valued'),
                 Clause('key_kinds_ok(self, self._default)', label='defaults-are-collected-values-never-converted-ones'),
                 Clause("implies(self.name == '+', forall('str', lambda x: implies(x in alt(self._default, 'kmap'), "
                        "is_alt(alt(self._default, 'kmap')[x], 'vi'))))", label='one-default-per-key')])
model('info.MultiKeyInfo', fields={},
      invariant=[Clause("(self.name == '+') == is_alt(self._default, 'kmap')", label='wildcard-multikey-has-a-default-map'),
                 Clause("implies(self.name != '+', is_alt(self._default, 'lst'))", label='multikey-has-a-default-list'),
                 Clause('self.maxOccurs > 1', label='multi-valued'),
                 Clause('key_kinds_ok(self, self._default)', label='defaults-are-collected-values-never-converted-ones'),
                 Clause("implies(self.name == '+', forall('str', lambda x: implies(x in alt(self._default, 'kmap'), "
                        "is_alt(alt(self._default, 'kmap')[x], 'lst'))))", label='list-of-defaults-per-key')])
K5 = {k: v for k, v in KINFO.items() if k != 'maxOccurs'}
contract('info.KeyInfo.__init__', params=dict(K5),
         requires=[Clause('datatype is not None', label='keys-have-a-datatype')],
         ensures=[Clause(STORES + ' and self.maxOccurs == 1 and not self._finished', carries='C10', label='stores-the-declaration'),
                  Clause("implies(name == '+', is_alt(self._default, 'kmap') and len(alt(self._default, 'kmap')) == 0)",
                         carries='C10', label='wildcard-key-starts-with-an-empty-default-map'),
                  Clause("implies(name != '+', is_alt(self._default, 'none'))", carries='C10', label='no-default-yet'),
                  Clause('is_alt(self._rawdefaults, \'none\')')],
         raises=[Raise('ZConfig.SchemaError', when='minOccurs > 1', carries='C10', label='bad-occurrence-bounds')])
contract('info.MultiKeyInfo.__init__', params=dict(KINFO),
         requires=[Clause('datatype is not None', label='keys-have-a-datatype'), Clause('maxOccurs > 1', label='multikeys-take-several-values')],
         ensures=[Clause(STORES + ' and self.maxOccurs == maxOccurs and not self._finished', carries='C10', label='stores-the-declaration'),
                  Clause("implies(name == '+', is_alt(self._default, 'kmap') and len(alt(self._default, 'kmap')) == 0)",
                         carries='C10', label='wildcard-multikey-starts-with-an-empty-default-map'),
                  Clause("implies(name != '+', is_alt(self._default, 'lst') and len(alt(self._default, 'lst')) == 0)",
                         carries='C10', label='no-defaults-yet')],
         raises=[Raise('ZConfig.SchemaError', when='maxOccurs < 1 or minOccurs > maxOccurs', carries='C10',
                       label='bad-occurrence-bounds')])
VI = 'Ref[info.ValueInfo]'
contract('info.KeyInfo.add_valueinfo', params={'vi': VI, 'key': 'Opt[str]'},
         requires=[Clause("(self.name == '+') == (key is not None)", label='keyed-iff-wildcard')],
         modifies=['self._default'],
         ensures=[Clause("implies(self.name == '+', val(key) not in alt(old(self._default), 'kmap') and "
                         "alt(self._default, 'kmap') == updated(alt(old(self._default), 'kmap'), val(key), vi))",
                         carries='C10', label='default-filed-under-its-key'),
                  Clause("implies(self.name != '+', is_alt(old(self._default), 'none') and is_alt(self._default, 'vi') and "
                         "alt(self._default, 'vi') == vi)", carries='C10', label='the-one-default')],
         raises=[Raise('ZConfig.SchemaError',
                       when="(self.name == '+' and val(key) in alt(self._default, 'kmap')) or "
                            "(self.name != '+' and not is_alt(self._default, 'none'))",
                       then=[Clause('self._default == old(self._default)')], carries='C10',
                       label='duplicate-default-key-or-second-default')])
contract('info.MultiKeyInfo.add_valueinfo', params={'vi': VI, 'key': 'Opt[str]'},
         requires=[Clause("(self.name == '+') == (key is not None)", label='keyed-iff-wildcard')],
         modifies=['self._default'],
         ensures=[Clause("implies(self.name == '+', is_alt(self._default, 'kmap') and "
                         "alt(self._default, 'kmap') == updated(alt(old(self._default), 'kmap'), val(key), "
                         "alt(self._default, 'kmap')[val(key)]) and is_alt(alt(self._default, 'kmap')[val(key)], 'lst') and "
                         "alt(alt(self._default, 'kmap')[val(key)], 'lst') == "
                         "(alt(alt(old(self._default), 'kmap')[val(key)], 'lst') if val(key) in alt(old(self._default), 'kmap') else []) + [vi])",
                         carries='C10', label='default-appended-under-its-key-in-document-order'),
                  Clause("implies(self.name != '+', is_alt(self._default, 'lst') and "
                         "alt(self._default, 'lst') == alt(old(self._default), 'lst') + [vi])", carries='C10',
                         label='default-appended-in-document-order')])
SINGLE = "self.name != '+' and not (self.maxOccurs > 1)"
contract('info.BaseKeyInfo.adddefault',
         params={'value': 'str', 'position': POSN, 'key': ('Opt[str]', 'None')},
         requires=[Clause('key_default_shape(self)', label='defaults-have-the-shape-of-the-kind-of-key')],
         modifies=['self._default'],
         ensures=[Clause('key_default_shape(self)', label='defaults-keep-the-shape-of-the-kind-of-key'),
                  Clause('key_kinds_ok(self, self._default)', label='defaults-stay-collected-values'),
                  Clause("not self._finished and (self.name == '+') == (key is not None)", carries='C10',
                         label='defaults-keyed-exactly-when-the-key-is-a-wildcard'),
                  Clause("implies(%s, is_alt(self._default, 'vi') and alt(self._default, 'vi').value == value and "
                         "alt(self._default, 'vi').position == position)" % SINGLE, carries='C02,C10',
                         label='the-default-of-a-single-key-is-exactly-the-given-text-also-the-empty-one')],
         raises=[Raise('ZConfig.SchemaError', carries='C10',
                       label='finished-or-keying-mismatch-or-duplicate')],
         notes='dispatches to add_valueinfo of the subclass (interface contract below)')
contract('info.BaseKeyInfo.add_valueinfo', params={'vi': VI, 'key': 'Opt[str]'},
         requires=[Clause("(self.name == '+') == (key is not None)", label='keyed-iff-wildcard'),
                   Clause('key_default_shape(self)')],
         modifies=['self._default'], ensures=[Clause('key_default_shape(self)'), Clause('key_kinds_ok(self, self._default)'),
                                              Clause("implies(%s, is_alt(self._default, 'vi') and alt(self._default, 'vi') == vi)" % SINGLE)],
         raises=[Raise('ZConfig.SchemaError', carries='C10', label='duplicate')],
         assumed=True, notes='abstract method: interface of KeyInfo.add_valueinfo / MultiKeyInfo.add_valueinfo (both proved)')

RAWD = "(old(self._default) if is_alt(old(self._rawdefaults), 'none') else old(self._rawdefaults))"
contract('info.BaseKeyInfo.prepare_raw_defaults',
         requires=[Clause("self.name == '+'", label='wildcard-only')],
         modifies=['self._rawdefaults', 'self._default'],
         ensures=[Clause('self._rawdefaults == %s' % RAWD, carries='C02,C11',
                         label='defaults-AS-WRITTEN-kept-once-never-replaced-by-normalised-ones'),
                  Clause("is_alt(self._default, 'kmap') and alt(self._default, 'kmap') == {}", carries='C11',
                         label='normalised-defaults-start-empty')])
MODELS['info.KeyInfo'].invariant.append(
    Clause("implies(not is_alt(self._rawdefaults, 'none'), is_alt(self._rawdefaults, 'kmap') and "
           "forall('str', lambda x: implies(x in alt(self._rawdefaults, 'kmap'), "
           "is_alt(alt(self._rawdefaults, 'kmap')[x], 'vi'))))", label='raw-defaults-one-per-key'))
RN = "renorm_defaults(alt(%s, 'kmap'), keytype, 0, {})" % RAWD
contract('info.KeyInfo.computedefault', params={'keytype': 'Fun[kt]'},
         requires=[Clause("self.name == '+'", label='wildcard-only')],
         modifies=['self._rawdefaults', 'self._default'],
         inline_calls=['info.ValueInfo.convert'],
         ensures=[Clause('self._rawdefaults == %s' % RAWD, carries='C11', label='defaults-as-written-kept'),
                  Clause("%s[0] == 0 and is_alt(self._default, 'kmap') and alt(self._default, 'kmap') == %s[1]" % (RN, RN),
                         carries='C02,C10,C11', label='defaults-re-normalised-under-the-given-key-type')],
         raises=[Raise('ZConfig.SchemaError', when='%s[0] == 1' % RN, carries='C10,C11',
                       label='default-keys-collide-after-normalisation'),
                 Raise('ZConfig.DataConversionError', when='%s[0] == 2' % RN, carries='C10',
                       label='default-key-refused-by-the-key-type')],
         hints=["renorm_defaults(alt(self._rawdefaults, 'kmap'), keytype, _i0, alt(self._default, 'kmap'))"],
         loops=[Loop(invariant=[Clause("is_alt(self._default, 'kmap') and is_alt(self._rawdefaults, 'kmap')"),
                                Clause("renorm_defaults(alt(self._rawdefaults, 'kmap'), keytype, _i0, alt(self._default, 'kmap')) == "
                                       "renorm_defaults(alt(self._rawdefaults, 'kmap'), keytype, 0, {})",
                                       label='remaining-fold-equals-fold'),
                                Clause("self._rawdefaults == %s" % RAWD),
                                Clause("forall('str', lambda x: implies(x in alt(self._default, 'kmap'), "
                                       "is_alt(alt(self._default, 'kmap')[x], 'vi')))", label='one-default-per-key')],
                     hints=["renorm_defaults(alt(self._rawdefaults, 'kmap'), keytype, _i0, alt(self._default, 'kmap'))"],
                     locals={'k': 'str', 'vi': 'MItem', 'key': 'str'}, modifies=['self._default'])])

MODELS['info.MultiKeyInfo'].invariant.append(
    Clause("implies(not is_alt(self._rawdefaults, 'none'), is_alt(self._rawdefaults, 'kmap') and "
           "forall('str', lambda x: implies(x in alt(self._rawdefaults, 'kmap'), "
           "is_alt(alt(self._rawdefaults, 'kmap')[x], 'lst') and len(alt(alt(self._rawdefaults, 'kmap')[x], 'lst')) >= 1 and "
           "forall(lambda j: implies(0 <= j and j < len(alt(alt(self._rawdefaults, 'kmap')[x], 'lst')), "
           "is_alt(alt(alt(self._rawdefaults, 'kmap')[x], 'lst')[j], 'vi'))))))", label='raw-defaults-non-empty-lists'))
MODELS['info.MultiKeyInfo'].invariant.append(
    Clause("implies(self.name == '+', forall('str', lambda x: implies(x in alt(self._default, 'kmap'), "
           "len(alt(alt(self._default, 'kmap')[x], 'lst')) >= 1 and "
           "forall(lambda j: implies(0 <= j and j < len(alt(alt(self._default, 'kmap')[x], 'lst')), "
           "is_alt(alt(alt(self._default, 'kmap')[x], 'lst')[j], 'vi'))))))", label='default-lists-non-empty'))
RNM = "renorm_multi_defaults(alt(%s, 'kmap'), keytype, 0, {})" % RAWD
contract('info.MultiKeyInfo.computedefault', params={'keytype': 'Fun[kt]'},
         requires=[Clause("self.name == '+'", label='wildcard-only')],
         modifies=['self._rawdefaults', 'self._default'],
         inline_calls=['info.ValueInfo.convert'],
         ensures=[Clause('self._rawdefaults == %s' % RAWD, carries='C11', label='defaults-as-written-kept'),
                  Clause("%s[0] == 0 and is_alt(self._default, 'kmap') and alt(self._default, 'kmap') == %s[1]" % (RNM, RNM),
                         carries='C02,C10,C11', label='defaults-re-normalised-under-the-given-key-type')],
         raises=[Raise('ZConfig.DataConversionError', when='%s[0] == 2' % RNM, carries='C10',
                       label='default-key-refused-by-the-key-type')],
         hints=["renorm_multi_defaults(alt(self._rawdefaults, 'kmap'), keytype, _i0, alt(self._default, 'kmap'))"],
         loops=[Loop(invariant=[Clause("is_alt(self._default, 'kmap') and is_alt(self._rawdefaults, 'kmap')"),
                                Clause("renorm_multi_defaults(alt(self._rawdefaults, 'kmap'), keytype, _i0, alt(self._default, 'kmap')) == "
                                       "renorm_multi_defaults(alt(self._rawdefaults, 'kmap'), keytype, 0, {})",
                                       label='remaining-fold-equals-fold'),
                                Clause("self._rawdefaults == %s" % RAWD)] + list(MODELS['info.MultiKeyInfo'].invariant),
                     hints=["renorm_multi_defaults(alt(self._rawdefaults, 'kmap'), keytype, _i0, alt(self._default, 'kmap'))"],
                     locals={'k': 'str', 'vlist': 'MItem', 'key': 'str'}, modifies=['self._default']),
                Loop(invariant=[Clause("is_alt(self._default, 'kmap') and is_alt(self._rawdefaults, 'kmap')"),
                                Clause("self._rawdefaults == %s" % RAWD),
                                Clause("implies(_i1 == 0, alt(self._default, 'kmap') == entry(alt(self._default, 'kmap')))"),
                                Clause("implies(_i1 > 0, key in alt(self._default, 'kmap') and "
                                       "alt(self._default, 'kmap') == updated(entry(alt(self._default, 'kmap')), key, alt(self._default, 'kmap')[key]) and "
                                       "is_alt(alt(self._default, 'kmap')[key], 'lst') and "
                                       "alt(alt(self._default, 'kmap')[key], 'lst') == "
                                       "(alt(entry(alt(self._default, 'kmap'))[key], 'lst') if key in entry(alt(self._default, 'kmap')) else []) + alt(vlist, 'lst')[:_i1])",
                                       label='values-of-this-key-appended-so-far')]
                     + list(MODELS['info.MultiKeyInfo'].invariant),
                     hints=["slice_step(alt(vlist, 'lst'), _i1)"],
                     locals={'vi': 'VP'}, modifies=['self._default'])])

# ---- section slots, abstract types ------------------------------------------------------------------------------------
contract('info.SectionInfo.__init__',
         params={'name': 'Opt[str]', 'sectiontype': 'Ref[TypeLike]', 'minOccurs': 'int', 'maxOccurs': 'MaxOcc',
                 'handler': 'Opt[str]', 'attribute': 'Opt[str]'},
         ensures=[Clause('self.name == name and self.sectiontype == sectiontype and self.minOccurs == minOccurs and '
                         'self.maxOccurs == maxOccurs and self.handler == handler and self.attribute == attribute',
                         carries='C10', label='stores-the-declaration'),
                  Clause("implies(maxOccurs > 1, (name == '*' or name == '+') and attribute is not None and attribute != '')",
                         carries='C10', label='multisections-are-named-star-or-plus-and-carry-an-attribute'),
                  Clause('maxOccurs >= 1 and not (minOccurs > maxOccurs)', carries='C10', label='occurrence-bounds-consistent')],
         raises=[Raise('ZConfig.SchemaError',
                       when="(maxOccurs > 1 and (not (name == '*' or name == '+') or attribute is None or attribute == '')) "
                            "or maxOccurs < 1 or minOccurs > maxOccurs",
                       carries='C10', label='multisection-with-fixed-name-or-without-attribute-or-bad-bounds')])
contract('info.AbstractType.__init__', params={'name': 'str'},
         ensures=[Clause('self.name == name and len(self._subtypes) == 0 and self.description is None', carries='C12',
                         label='no-implementers-yet')])
contract('info.AbstractType.addsubtype', params={'type_': 'Ref[info.SectionType]'},
         requires=[Clause('type_.name is not None', label='concrete-type-has-a-name')],
         modifies=['self._subtypes'],
         ensures=[Clause('self._subtypes == updated(old(self._subtypes), val(type_.name), type_)', carries='C12',
                         label='implementer-registered-under-its-name-nothing-else-changes')])

# ---- section types: adding children (C10: unique key names and attribute names per container) -------------------------
MODELS['info.SectionType'].invariant += [
    Clause('forall(lambda i: implies(0 <= i and i < len(self._children) and self._children[i][0] is not None and '
           "val(self._children[i][0]) != '', val(self._children[i][0]) in self._keymap))", label='RI-key-map-covers-the-children'),
    Clause('forall(lambda i: implies(0 <= i and i < len(self._children), '
           "val(self._children[i][1].attribute) != '' and val(self._children[i][1].attribute) in self._attrmap))",
           label='RI-attribute-map-covers-the-children')]
contract('info.SectionType.__init__',
         params={'name': 'Opt[str]', 'keytype': 'Fun[kt]', 'valuetype': 'Opt[Fun[dt]]', 'datatype': 'Opt[Fun[sdt]]',
                 'registry': 'Ref[Registry]', 'types': 'Ref[dict:types]'},
         requires=[Clause('datatype is not None', label='section-types-have-a-datatype')],
         ensures=[Clause('self.name == name and self.keytype == keytype and self.valuetype == valuetype and '
                         'self.datatype == datatype and self.registry == registry and self._types == types',
                         carries='C10', label='stores-the-declaration'),
                  Clause('len(self._children) == 0 and len(self._attrmap) == 0 and len(self._keymap) == 0 and '
                         'self.handler is None', carries='C10', label='no-children-yet')])
NEWKEY = "(key is not None and key != '')"
ATTR = 'val(info.attribute)'
contract('info.SectionType._add_child', params={'key': 'Opt[str]', 'info': 'Ref[info.BaseInfo]'},
         requires=[Clause("child_wf(key, info) and %s != ''" % ATTR, label='child-is-well-formed-and-has-an-attribute-name'),
                   Clause('child_ready(info)', label='a-key-has-a-datatype-and-unconverted-defaults')],
         modifies=['self._children', 'self._attrmap', 'self._keymap'],
         ensures=[Clause('self._children == old(self._children) + [(key, info)]', carries='C10,C11',
                         label='appended-in-document-order'),
                  Clause('len(self._children) == len(old(self._children)) + 1 and '
                         'self._children[len(old(self._children))] == (key, info)', label='new-child-is-last'),
                  Clause('forall(lambda i: implies(0 <= i and i < len(old(self._children)), '
                         'self._children[i] == old(self._children)[i]))', label='earlier-children-keep-their-places'),
                  Clause('%s not in old(self._attrmap) and self._attrmap == updated(old(self._attrmap), %s, info)' % (ATTR, ATTR),
                         carries='C10', label='attribute-name-was-unused'),
                  Clause('implies(%s, val(key) not in old(self._keymap) and self._keymap == updated(old(self._keymap), val(key), info))' % NEWKEY,
                         carries='C10', label='key-name-was-unused'),
                  Clause('implies(not %s, self._keymap == old(self._keymap))' % NEWKEY)],
         raises=[Raise('ZConfig.SchemaError',
                       when='(%s and val(key) in self._keymap) or %s in self._attrmap' % (NEWKEY, ATTR),
                       then=[Clause('self._children == old(self._children) and self._attrmap == old(self._attrmap) and '
                                    'self._keymap == old(self._keymap)', carries='C10', label='nothing-added')],
                       carries='C10', label='key-name-or-attribute-name-already-used-in-this-container')])
contract('info.SectionType.addkey', params={'keyinfo': 'Ref[info.BaseKeyInfo]'},
         requires=[Clause("child_wf(keyinfo.name, keyinfo) and val(keyinfo.attribute) != ''",
                          label='child-is-well-formed-and-has-an-attribute-name'),
                   Clause('child_ready(keyinfo)', label='a-key-has-a-datatype-and-unconverted-defaults')],
         modifies=['self._children', 'self._attrmap', 'self._keymap'],
         ensures=[Clause('self._children == old(self._children) + [(keyinfo.name, keyinfo)]', carries='C10,C11',
                         label='key-appended-under-its-name')],
         raises=[Raise('ZConfig.SchemaError',
                       when='val(keyinfo.name) in self._keymap or val(keyinfo.attribute) in self._attrmap',
                       carries='C10', label='key-name-or-attribute-name-already-used-in-this-container')])
contract('info.SectionType.addsection', params={'name': 'Opt[str]', 'sectinfo': 'Ref[info.SectionInfo]'},
         requires=[Clause("child_wf(name, sectinfo) and val(sectinfo.attribute) != '' and name != '*' and name != '+'",
                          label='slot-is-well-formed-anonymous-slots-are-filed-without-a-key')],
         modifies=['self._children', 'self._attrmap', 'self._keymap'],
         ensures=[Clause('self._children == old(self._children) + [(name, sectinfo)]', carries='C10,C11',
                         label='slot-appended-in-document-order')],
         raises=[Raise('ZConfig.SchemaError',
                       when="(name is not None and name != '' and val(name) in self._keymap) or "
                            "val(sectinfo.attribute) in self._attrmap",
                       carries='C10', label='section-name-or-attribute-name-already-used-in-this-container')])

# ---- the schema object: type table, derived types, components (C10, C11) ---------------------------------------------
shared_dict('components', 'str', 'str')      # a real dict object: sharing it between two schemas must be visible
model('info.SchemaType', fields={'_components': 'Ref[dict:components]', 'url': 'Opt[str]'})
contract('info.SchemaType.__init__',
         params={'keytype': 'Fun[kt]', 'valuetype': 'Opt[Fun[dt]]', 'datatype': 'Opt[Fun[sdt]]', 'handler': 'Opt[str]',
                 'url': 'Opt[str]', 'registry': 'Ref[Registry]'},
         requires=[Clause('datatype is not None', label='schemas-have-a-datatype')],
         ensures=[Clause('self.name is None and self.keytype == keytype and self.valuetype == valuetype and '
                         'self.datatype == datatype and self.registry == registry and self.handler == handler and '
                         'self.url == url', carries='C10', label='stores-the-declaration'),
                  Clause('len(self._children) == 0 and len(self._attrmap) == 0 and len(self._keymap) == 0 and '
                         'len(keys(self._types)) == 0 and fresh(self._types) and len(keys(self._components)) == 0 and fresh(self._components)',
                         carries='C10,C13', label='own-empty-type-table-no-children-no-components')])
contract('info.SchemaType.addtype', params={'typeinfo': 'Ref[TypeLike]'},
         requires=[Clause('typeinfo.name is not None', label='types-have-names')],
         modifies=['self._types.items'],
         ensures=[Clause('val(typeinfo.name) not in old(self._types.items) and '
                         'self._types.items == updated(old(self._types.items), val(typeinfo.name), typeinfo)',
                         carries='C10', label='type-name-was-unused-type-registered')],
         raises=[Raise('ZConfig.SchemaError', when='val(typeinfo.name) in self._types.items',
                       then=[Clause('self._types.items == old(self._types.items)')], carries='C10',
                       label='type-name-cannot-be-redefined')])
contract('info.SchemaType.createSectionType',
         params={'name': 'str', 'keytype': 'Fun[kt]', 'valuetype': 'Opt[Fun[dt]]', 'datatype': 'Opt[Fun[sdt]]'},
         returns='Ref[info.SectionType]', fresh_result=True,
         requires=[Clause('datatype is not None', label='section-types-have-a-datatype')],
         modifies=['self._types.items'],
         ensures=[Clause('fresh(result) and result.name == name and result.keytype == keytype and '
                         'result.valuetype == valuetype and result.datatype == datatype and result.registry == self.registry '
                         'and result._types == self._types', carries='C10', label='new-type-sharing-the-schema-type-table'),
                  Clause('len(result._children) == 0 and len(result._attrmap) == 0 and len(result._keymap) == 0',
                         label='no-children-yet'),
                  Clause('name not in old(self._types.items) and '
                         'self._types.items == updated(old(self._types.items), name, result)', carries='C10',
                         label='registered-under-its-name')],
         static_ensures=[Clause("isclass(result, 'info.SectionType')")],
         raises=[Raise('ZConfig.SchemaError', when='name in self._types.items',
                       then=[Clause('self._types.items == old(self._types.items)')], carries='C10',
                       label='type-name-cannot-be-redefined')])
contract('info.SchemaType.addComponent', params={'name': 'str'}, modifies=['self._components.items'],
         ensures=[Clause('name not in old(self._components.items) and self._components.items == updated(old(self._components.items), name, name)',
                         carries='C11', label='component-recorded-once')],
         raises=[Raise('ZConfig.SchemaError', when='name in self._components.items', carries='C11', label='component-already-loaded')])
contract('info.SchemaType.hasComponent', params={'name': 'str'}, returns='bool',
         ensures=[Clause('result == (name in self._components.items)', carries='C11', label='import-once-guard')])

RAWD_ENTRY = "(alt(old(self._default), 'kmap') if is_alt(old(self._rawdefaults), 'none') else alt(old(self._rawdefaults), 'kmap'))"
assumed('info.BaseKeyInfo.computedefault', params={'keytype': 'Fun[kt]'},
        requires=[Clause("self.name == '+'", label='wildcard-only')],
        modifies=['self._rawdefaults', 'self._default'],
        ensures=[Clause('self._rawdefaults == %s' % RAWD),
                 Clause("is_alt(self._default, 'kmap')"),
                 Clause("implies(isa(self, 'info.KeyInfo'), renorm_defaults(%s, keytype, 0, {}) == (0, alt(self._default, 'kmap')))" % RAWD_ENTRY),
                 Clause("implies(not isa(self, 'info.KeyInfo'), renorm_multi_defaults(%s, keytype, 0, {}) == (0, alt(self._default, 'kmap')))" % RAWD_ENTRY)],
        raises=[Raise('ZConfig.SchemaError'), Raise('ZConfig.DataConversionError')],
        notes='interface of KeyInfo.computedefault / MultiKeyInfo.computedefault (both proved with exactly these clauses)')

BCH = 'base._children'
contract('info.SchemaType.deriveSectionType',
         params={'base': 'Ref[info.SectionType]', 'name': 'str', 'keytype': 'Fun[kt]', 'valuetype': 'Opt[Fun[dt]]',
                 'datatype': 'Opt[Fun[sdt]]'},
         returns='Ref[info.SectionType]', fresh_result=True, no_alias_stores=True,
         requires=[Clause('datatype is not None', label='section-types-have-a-datatype'),
                   Clause('invariant_of(base)', label='RI-of-the-base-type')],
         modifies=['self._types.items'],
         ensures=[Clause('fresh(result) and result.name == name and result.keytype == keytype and '
                         'result.valuetype == valuetype and result.datatype == datatype', carries='C11',
                         label='own-key-type-datatype-and-value-type'),
                  Clause('result._keymap == base._keymap and result._attrmap == base._attrmap', carries='C10,C11',
                         label='inherited-key-names-and-attribute-names-are-taken'),
                  Clause('len(result._children) == len(%s)' % BCH, carries='C11', label='base-children-first-nothing-else'),
                  Clause('forall(lambda i: implies(0 <= i and i < len(%s), derived_child(result._children[i][0], '
                         'result._children[i][1], %s[i][0], %s[i][1], keytype)))' % (BCH, BCH, BCH), carries='C02,C11',
                         label='each-child-inherited-in-order-wildcard-defaults-re-normalised-on-a-copy'),
                  Clause('name not in old(self._types.items) and '
                         'self._types.items == updated(old(self._types.items), name, result)', carries='C10',
                         label='registered-under-its-name')],
         raises=[Raise('ZConfig.SchemaError+', carries='C10,C11',
                       label='base-is-the-schema-or-name-taken-or-defaults-collide'),
                 Raise('ZConfig.DataConversionError', carries='C10', label='default-key-refused-by-the-new-key-type')],
         loops=[Loop(invariant=[Clause('len(t._children) == len(%s) and fresh(t) and t.keytype == keytype' % BCH),
                                Clause('t._keymap == base._keymap and t._attrmap == base._attrmap'),
                                Clause('forall(lambda j: implies(0 <= j and j < _i0, derived_child(t._children[j][0], '
                                       't._children[j][1], %s[j][0], %s[j][1], keytype)))' % (BCH, BCH),
                                       label='children-so-far-derived'),
                                Clause('forall(lambda j: implies(_i0 <= j and j < len(%s), t._children[j] == %s[j]))' % (BCH, BCH),
                                       label='later-children-still-the-base-ones'),
                                Clause('name not in old(self._types.items) and '
                                       'self._types.items == updated(old(self._types.items), name, t)')],
                     locals={'key': 'Opt[str]', 'info': 'Ref[info.BaseInfo]', 'i': 'int'},
                     modifies=['t._children', '+info.BaseKeyInfo.*', '+info.BaseInfo.*'])])

contract('info.createDerivedSchema', params={'base': 'Ref[info.SchemaType]'}, returns='Ref[info.SchemaType]',
         fresh_result=True, no_alias_stores=True,
         requires=[Clause('base.datatype is not None', label='schemas-have-a-datatype')],
         ensures=[Clause('fresh(result) and fresh(result._types) and result._types != base._types', carries='C12,C13',
                         label='own-type-table'),
                  Clause('result.keytype == base.keytype and result.valuetype == base.valuetype and '
                         'result.datatype == base.datatype and result.handler == base.handler and result.url == base.url and '
                         'result.registry == base.registry', carries='C12', label='same-settings'),
                  Clause('result._children == base._children and result._attrmap == base._attrmap and '
                         'result._keymap == base._keymap and result._types.items == base._types.items and '
                         'result._components.items == base._components.items and fresh(result._components)', carries='C12,C13',
                         label='same-children-types-and-components-in-containers-of-its-own')])
