"""Contracts for ZConfig/substitution.py (properties C04, C05)."""
from pyvc.api import Clause, Loop, Raise, assumed, contract, model, prim, spec_module
import spec.subst as S

spec_module(S)

prim('name_len', 'str, int -> int', native=S.name_len, args=['s', 'pos'],
     axioms=['result >= 0', 'implies(0 <= pos and pos <= len(s), pos + result <= len(s))'])

# the match object of `_name_match` (a bound re.Pattern.match)
model('rxmatch:name', fields={'g_0': 'str', 'end': 'int'}, external=True)

assumed('substitution._name_match',
        params={'s': 'str', 'pos': ('int', '0')},
        returns='Opt[Ref[rxmatch:name]]',
        requires=[Clause('0 <= pos and pos <= len(s)', label='pos-in-range')],
        ensures=[Clause('(result is None) == (name_len(s, pos) == 0)'),
                 Clause('implies(result is not None, result.g_0 == s[pos:pos + name_len(s, pos)])'),
                 Clause('implies(result is not None, result.end == pos + name_len(s, pos))')],
        pure=False, fresh_result=True,
        notes='generated from the live pattern; agreement of the pattern with name_len for strings of '
              'every length is the automaton obligation rx:substitution._name_re')

contract('substitution._split',
         params={'s': 'str'},
         returns='Tuple[str, Opt[str], Opt[str], Opt[str], Opt[str]]',
         ensures=[Clause('result == split_spec(s)', carries='C04', label='SplitSpec'),
                  Clause("implies('$' in s, len(result[3]) < len(s))", label='suffix-shorter')],
         raises=[Raise('ZConfig.SubstitutionSyntaxError', when='split_err(s)', carries='C04',
                       label='syntax')])
