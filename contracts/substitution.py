"""Contracts for ZConfig/substitution.py (properties C04, C05)."""
from pyvc.api import Clause, Loop, Raise, assumed, contract, model, prim, spec_module
import spec.subst as S

spec_module(S)

prim('name_len', 'str, int -> int', native=S.name_len, args=['s', 'pos'],
     axioms=['result >= 0', 'implies(0 <= pos and pos <= len(s), pos + result <= len(s))'])

# the match object of `_name_match` (a bound re.Pattern.match)
model('rxmatch:name', fields={'g_0': 'str', 'end': 'int'}, external=True)

assumed('substitution._name_match',
        params={'s': 'str', 'pos': ('int', '0')},
        returns='Opt[Ref[rxmatch:name]]',
        requires=[Clause('0 <= pos and pos <= len(s)', label='pos-in-range')],
        ensures=[Clause('(result is None) == (name_len(s, pos) == 0)'),
                 Clause('implies(result is not None, result.g_0 == s[pos:pos + name_len(s, pos)])'),
                 Clause('implies(result is not None, result.end == pos + name_len(s, pos))')],
        pure=False, fresh_result=True,
        notes='generated from the live pattern; agreement of the pattern with name_len for strings of '
              'every length is the automaton obligation rx:substitution._name_re')

contract('substitution._split',
         params={'s': 'str'},
         returns='Tuple[str, Opt[str], Opt[str], Opt[str], Opt[str]]',
         ensures=[Clause('result == split_spec(s)', carries='C04,C05', label='SplitSpec'),
                  Clause("implies('$' in s, result[3] is not None and len(val(result[3])) < len(s))", label='suffix-shorter'),
                  Clause("implies('$' not in s, result == (s, None, None, None, None))", label='no-dollar'),
                  Clause("implies(result[1] is not None, result[1] != '' and result[2] is not None and result[4] is not None)", label='name-shape'),
                  Clause("implies(result[1] is None, result[2] is None and result[4] is None)", label='noname-shape'),
                  Clause("implies(result[4] is not None, result[4] == 'define' or result[4] == 'env')", label='kind')],
         raises=[Raise('ZConfig.SubstitutionSyntaxError', when='split_err(s)', carries='C04',
                       then=[Clause("'$' in s", label='has-dollar')], label='syntax')])

from pyvc.api import shared_dict
shared_dict('defines', 'str', 'str')

prim('env_get', 'str -> Opt[str]', native=S.env_get, args=['name'])

assumed('os.getenv', params={'key': 'str'}, returns='Opt[str]', pure=True,
        ensures=[Clause('result == env_get(key)')],
        notes='os.getenv(n) is the value of the environment variable n or None')

contract('substitution.substitute',
         params={'s': 'str', 'mapping': 'Ref[dict:defines]'},
         returns='str',
         ensures=[Clause('subst_spec(s, mapping.items) == (0, result)', carries='C04', label='Subst'),
                  Clause("implies('$' not in s, result == s)", carries='C04', label='no-dollar-identity')],
         raises=[Raise('ZConfig.SubstitutionSyntaxError', when='subst_spec(s, mapping.items)[0] == 1',
                       carries='C04', label='syntax'),
                 Raise('ZConfig.SubstitutionReplacementError', when='subst_spec(s, mapping.items)[0] == 2',
                       then=[Clause('exc.source == s', carries='C04', label='source'),
                             Clause('exc.name == subst_spec(s, mapping.items)[1]', carries='C04', label='name'),
                             Clause('exc.lineno is None and exc.url is None', label='no-position-yet')],
                       carries='C04', label='replacement')],
         loops=[Loop(invariant=[Clause("prepend(result, subst_spec(orelse(rest, ''), mapping.items)) == subst_spec(s, mapping.items)",
                                       carries='C04', label='fold')],
                     decreases="len(orelse(rest, ''))",
                     locals={'rest': 'Opt[str]', 'name': 'Opt[str]', 'namecase': 'Opt[str]',
                             'vtype': 'Opt[str]', 'v': 'Opt[str]'})])

contract('substitution.isname',
         params={'s': 'str'}, returns='bool',
         ensures=[Clause('result == (len(s) > 0 and name_len(s, 0) == len(s))', carries='C04', label='isname')])
