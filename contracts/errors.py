"""Models of the exception classes in ZConfig/__init__.py.  Their constructors
are tiny and are executed from the real source (inlined), not contracted."""
from pyvc.api import inline, model

model('builtin:BaseException', fields={}, external=True)
# lineno / colno exist only on some subclasses (and on any instance they were assigned to):
# `has_lineno` is the presence flag (reading .lineno without it is an AttributeError).
model('__init__.ConfigurationError',
      fields={'message': 'str', 'url': 'Opt[str]', 'lineno': 'Opt[int]', 'colno': 'Opt[int]',
              'has_lineno': 'bool', 'has_colno': 'bool'},
      optional={'lineno': 'has_lineno', 'colno': 'has_colno'},
      defaults={'has_lineno': 'False', 'has_colno': 'False'}, ghost_fields=('has_lineno', 'has_colno'))
model('__init__._ParseError', fields={})
model('__init__.SchemaResourceError', fields={'filename': 'Opt[str]', 'package': 'Opt[str]',
                                              'path': 'Opt[Seq[str]]'})
model('__init__.DataConversionError', fields={'exception': 'Ref[builtin:ValueError]', 'value': 'Opaque[PyVal]',
                                              })
model('__init__.SubstitutionReplacementError', fields={'source': 'str', 'name': 'str'})

inline('__init__.ConfigurationError.__init__',
       '__init__.DataConversionError.__init__',
       '__init__._ParseError.__init__',
       '__init__.SchemaError.__init__',
       '__init__.SchemaResourceError.__init__',
       '__init__.SubstitutionReplacementError.__init__')
