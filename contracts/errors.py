"""Models of the exception classes in ZConfig/__init__.py.  Their constructors
are tiny and are executed from the real source (inlined), not contracted."""
from pyvc.api import inline, model

model('builtin:BaseException', fields={}, external=True)
model('__init__.ConfigurationError', fields={'message': 'str', 'url': 'Opt[str]'})
model('__init__._ParseError', fields={'lineno': 'Opt[int]', 'colno': 'Opt[int]'})
model('__init__.SchemaResourceError', fields={'filename': 'Opt[str]', 'package': 'Opt[str]',
                                              'path': 'Opt[Seq[str]]'})
model('__init__.DataConversionError', fields={'exception': 'Ref[builtin:ValueError]', 'value': 'Opaque[PyVal]',
                                              'lineno': 'Opt[int]', 'colno': 'Opt[int]'})
model('__init__.SubstitutionReplacementError', fields={'source': 'str', 'name': 'str'})

inline('__init__.ConfigurationError.__init__',
       '__init__._ParseError.__init__',
       '__init__.SchemaError.__init__',
       '__init__.SchemaResourceError.__init__',
       '__init__.SubstitutionReplacementError.__init__')
