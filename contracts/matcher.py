"""Contracts for ZConfig/matcher.py (properties C01, C02, C08, C13, C16)."""
from pyvc.api import (At, Clause, Loop, Raise, assumed, contract, inline, model, prim, shared_dict,
                      shared_list, spec_module)
from pyvc.types import TNone, TUnion, define_type, parse_type
import contracts.matcher_types
import contracts.info
import spec.schema as SS

from contracts.matcher_types import VI, PYVAL
shared_list('handlers', 'Tuple[str, %s]' % PYVAL)

MI = [Clause('invariant_of(self.type)', label='RI-of-the-section-type'),
      Clause('forall(lambda i: implies(0 <= i and i < len(self.type._children), '
             'slot_ok(self.type._children[i][1], self._values)))', label='MI-slot-kinds'),
      Clause("forall('int', 'str', lambda i, x: implies(0 <= i and i < len(self.type._children), "
             'entry_ok(self.type._children[i][1], self._values, x)))', label='MI-wildcard-entries')]
# before a matcher is finished its slots hold collected values only (ValueInfo / section values),
# never converted ones: what finish() / constuct() rely on when they convert (C02, C07).  `finished`
# is a ghost flag set on entry to constuct().
MI.append(Clause('implies(not self.finished, forall(lambda i: implies(0 <= i and i < len(self.type._children), '
                 'kinds_ok(self.type._children[i][1], self._values[val(self.type._children[i][1].attribute)]))))',
                 carries='C02,C07', label='MI-unconverted-until-finished'))
model('matcher.BaseMatcher',
      fields={'info': 'Ref[InfoLike]', 'type': 'Ref[info.SectionType]', '_values': 'Map[str, Slot]',
              '_sectionnames': 'Map[str, str]', 'handlers': 'Ref[list:handlers]'},
      invariant=MI)
model('matcher.SectionMatcher', fields={'name': 'Opt[str]'})

contract('matcher.BaseMatcher.__init__',
         params={'info': 'Ref[InfoLike]', 'type_': 'Ref[info.SectionType]', 'handlers': 'Opt[Ref[list:handlers]]'},
         requires=[Clause('invariant_of(type_)', label='RI-of-the-section-type')],
         ensures=[Clause('self.type == type_ and self.info == info', label='stores-type'),
                  Clause('not self.finished', carries='C02,C07', label='a-new-matcher-is-not-finished'),
                  Clause('len(keys(self._sectionnames)) == 0', carries='C01', label='no-names-used-yet'),
                  Clause('implies(handlers is not None, self.handlers == val(handlers))', carries='C16',
                         label='handler-list-shared-by-reference'),
                  Clause('implies(handlers is None, fresh(self.handlers) and len(self.handlers.items) == 0)',
                         carries='C13,C16', label='fresh-handler-list'),
                  Clause('forall(lambda i: implies(0 <= i and i < len(type_._children), '
                         'slot_empty(type_._children[i][1], self._values)))', carries='C01,C02,C13',
                         label='every-attribute-starts-empty')],
         loops=[Loop(invariant=[Clause('forall(lambda j: implies(0 <= j and j < _i0, '
                                       'slot_empty(type_._children[j][1], self._values)))', label='slots-so-far-empty')],
                     locals={'v': 'Slot'}, modifies=['self._values'])])

CHILD = 'Tuple[Opt[str], Ref[info.BaseInfo]]'
POSN = 'Tuple[int, Opt[int], Opt[str]]'
TARGET = 'key_search(self.type, 0, kt_val(self.type.keytype, key), None)'
T_ATTR = 'val(val(%s)[1].attribute)' % TARGET
contract('matcher.BaseMatcher.addValue',
         params={'key': 'str', 'value': 'str', 'position': POSN},
         modifies=['self._values'],
         ensures=[Clause('%s is not None' % TARGET, carries='C01', label='key-declared-or-wildcard'),
                  Clause('self._values == updated(old(self._values), %s, self._values[%s])' % (T_ATTR, T_ATTR),
                         carries='C01,C02,C15', label='only-the-receiving-attribute-changes'),
                  Clause('slot_after_add(old(self._values)[%s], self._values[%s], val(%s)[0], val(%s)[1], '
                         'kt_val(self.type.keytype, key), value, position)' % (T_ATTR, T_ATTR, TARGET, TARGET),
                         carries='C01,C02,C08,C15', label='value-and-position-recorded-in-file-order')],
         raises=[Raise('ZConfig.DataConversionError', when='kt_raises(self.type.keytype, key)',
                       then=[Clause('exc.has_lineno and exc.lineno == position[0] and exc.url == position[2]',
                                    carries='C08', label='position'),
                             Clause('self._values == old(self._values)', carries='C01', label='nothing-recorded')],
                       carries='C01', label='key-type-rejects'),
                 Raise('ZConfig.ConfigurationError',
                       when='%s is None or key_rejected(val(%s)[0], val(%s)[1], self._values[%s], '
                            'kt_val(self.type.keytype, key))' % (TARGET, TARGET, TARGET, T_ATTR),
                       then=[Clause('self._values == old(self._values)', carries='C01', label='nothing-recorded'),
                             Clause('not exc.has_lineno and exc.url is None', carries='C08', label='no-position-yet-the-parser-adds-the-current-line-and-resource')],
                       carries='C01,C15', label='unknown-or-repeated-key')],
         hints=['key_search(self.type, _i0, realkey, arbkey_info)'],
         loops=[Loop(invariant=[Clause('key_search(self.type, _i0, realkey, arbkey_info) == '
                                       'key_search(self.type, 0, realkey, None)', label='remaining-search-equals-search'),
                                Clause('implies(arbkey_info is not None, '
                                       'child_wf(val(arbkey_info)[0], val(arbkey_info)[1]) and '
                                       'slot_ok(val(arbkey_info)[1], self._values) and '
                                       'is_wildcard_key(val(arbkey_info)[1]))', label='wildcard-seen-is-well-formed'),
                                Clause("implies(arbkey_info is not None, forall('str', lambda x: "
                                       'entry_ok(val(arbkey_info)[1], self._values, x)))', label='wildcard-entries-well-formed'),
                                Clause("implies(arbkey_info is not None, forall('int', lambda j: "
                                       'implies(0 <= j and j < len(self.type._children) and '
                                       'self.type._children[j][1].attribute == val(arbkey_info)[1].attribute, '
                                       'self.type._children[j][1] == val(arbkey_info)[1])))',
                                       label='wildcard-is-the-only-child-with-its-attribute')],
                     locals={'arbkey_info': 'Opt[%s]' % CHILD, 'k': 'Opt[str]', 'ci': 'Ref[info.BaseInfo]', 'i': 'int'},
                     modifies=[])])

SLOT_IDX = 'slot_search(self.type, 0, type_, name)'
S_ATTR = 'val(self.type._children[%s][1].attribute)' % SLOT_IDX
contract('matcher.BaseMatcher.addSection',
         params={'type_': 'str', 'name': 'Opt[str]', 'sectvalue': 'Ref[matcher.SectionValue]'},
         requires=[Clause('sv_ready(sectvalue)', label='the-section-value-comes-from-a-matcher-whose-type-has-a-section-datatype')],
         modifies=['self._values', 'self._sectionnames'],
         inst=[SLOT_IDX],
         ensures=[Clause("implies(name is not None and name != '', val(name) not in old(self._sectionnames) and "
                         'self._sectionnames == updated(old(self._sectionnames), val(name), val(name)))',
                         carries='C01', label='name-recorded-and-was-unused'),
                  Clause("implies(name is None or name == '', self._sectionnames == old(self._sectionnames))",
                         label='unnamed-leaves-names'),
                  Clause('%s >= 0' % SLOT_IDX, carries='C01,C12', label='a-slot-takes-the-section'),
                  Clause('self._values == updated(old(self._values), %s, self._values[%s])' % (S_ATTR, S_ATTR),
                         carries='C01,C02', label='only-the-slot-attribute-changes'),
                  Clause('section_added(old(self._values)[%s], self._values[%s], self.type._children[%s][1], sectvalue)'
                         % (S_ATTR, S_ATTR, SLOT_IDX), carries='C01,C02', label='section-stored-in-file-order')],
         raises=[Raise('ZConfig.ConfigurationError',
                       when="(name is not None and name != '' and val(name) in self._sectionnames) or %s < 0 or "
                            "(not (self.type._children[%s][1].maxOccurs > 1) and "
                            "not is_alt(self._values[%s], 'none'))" % (SLOT_IDX, SLOT_IDX, S_ATTR),
                       carries='C01', label='name-reused-or-no-slot-or-slot-full')])

contract('matcher.SectionMatcher.__init__',
         params={'info': 'Ref[info.SectionInfo]', 'type_': 'Ref[info.SectionType]', 'name': 'Opt[str]',
                 'handlers': 'Opt[Ref[list:handlers]]'},
         requires=[Clause('invariant_of(type_)', label='RI-of-the-section-type')],
         ensures=[Clause('self.name == name and self.type == type_ and self.info == info', label='stores'),
                  Clause('not self.finished', carries='C02,C07', label='a-new-matcher-is-not-finished'),
                  Clause("(name is not None and name != '') or info.name == '*'", carries='C01', label='unnamed-only-in-star-slot'),
                  Clause('implies(handlers is not None, self.handlers == val(handlers))', carries='C16',
                         label='handler-list-shared-by-reference'),
                  Clause('len(keys(self._sectionnames)) == 0', label='no-names-used-yet'),
                  Clause('forall(lambda i: implies(0 <= i and i < len(type_._children), '
                         'slot_empty(type_._children[i][1], self._values)))', carries='C01,C02,C13',
                         label='every-attribute-starts-empty')],
         raises=[Raise('ZConfig.ConfigurationError', when="(name is None or name == '') and info.name != '*'",
                       carries='C01', label='must-be-named')])

CSLOT = 'slot_search(self.type, 0, val(type_.name), name)'
contract('matcher.BaseMatcher.createChildMatcher',
         params={'type_': 'Ref[info.SectionType]', 'name': 'Opt[str]'}, returns='Ref[matcher.SectionMatcher]',
         requires=[Clause('type_.name is not None', label='concrete-type-has-a-name'),
                   Clause('invariant_of(type_)', label='RI-of-the-child-type')],
         inst=[CSLOT], fresh_result=True,
         ensures=[Clause('%s >= 0 and result.info == self.type._children[%s][1]' % (CSLOT, CSLOT),
                         carries='C01,C12', label='slot-found'),
                  Clause("isa(result.info, 'info.SectionInfo')", label='slot-is-a-section-slot'),
                  Clause('allowed_name(self.type._children[%s][1].name, name)' % CSLOT, carries='C01', label='name-rule'),
                  Clause('result.type == type_ and result.name == name', label='child-for-that-type'),
                  Clause('result.handlers == self.handlers', carries='C16', label='shares-the-handler-list'),
                  Clause('fresh(result) and not result.finished', carries='C13,C07', label='new-matcher'),
                  Clause('forall(lambda i: implies(0 <= i and i < len(type_._children), '
                         'slot_empty(type_._children[i][1], result._values)))', carries='C01,C02',
                         label='child-starts-empty')],
         static_ensures=[Clause("isclass(result, 'matcher.SectionMatcher')", label='constructs-a-plain-section-matcher')],
         raises=[Raise('ZConfig.ConfigurationError',
                       when='%s < 0 or not allowed_name(self.type._children[%s][1].name, name)' % (CSLOT, CSLOT),
                       carries='C01,C12', label='no-slot-or-name-not-allowed')])

# ---- closing a container --------------------------------------------------------------------------------------
contract('matcher.BaseMatcher.createValue', returns='Ref[matcher.SectionValue]', fresh_result=True,
         ensures=[Clause("fresh(result) and result._matcher == self and "
                         "result._name == (cast(self, 'matcher.SectionMatcher').name if isa(self, 'matcher.SectionMatcher') else None)",
                         carries='C02', label='reports-its-name-if-it-has-one'),
                  Clause('result._dict == self._values and result._attributes == keys(self._values)',
                         carries='C02', label='exposes-exactly-the-attributes')])
contract('matcher.SectionMatcher.createValue', returns='Ref[matcher.SectionValue]', fresh_result=True,
         ensures=[Clause('fresh(result) and result._matcher == self and result._name == self.name', carries='C02',
                         label='reports-its-name'),
                  Clause('result._dict == self._values and result._attributes == keys(self._values)',
                         carries='C02', label='exposes-exactly-the-attributes')])
contract('matcher.SectionValue.__init__',
         params={'values': 'Map[str, Slot]', 'name': 'Opt[str]', 'matcher': 'Ref[matcher.BaseMatcher]'},
         ensures=[Clause('self._dict == values and self._attributes == keys(values)', carries='C02',
                         label='exposes-exactly-the-attributes'),
                  Clause('self._name == name and self._matcher == matcher', carries='C02')])

# ---- closing a container: completion (C01) and conversion (C02) ---------------------------------------------------
prim('sdt_raises', 'Fun[sdt], Ref[matcher.SectionValue] -> bool')
prim('sdt_val', 'Fun[sdt], Ref[matcher.SectionValue] -> Opaque[PyVal]')
assumed('fun:sdt', params={'fn': 'Fun[sdt]', 'x': 'Ref[matcher.SectionValue]'}, returns='Opaque[PyVal]', pure=True,
        ensures=[Clause('result == sdt_val(fn, x)')],
        raises=[Raise('ValueError', when='sdt_raises(fn, x)')],
        notes='a section datatype of a schema: a function of the section value that returns or raises ValueError')

ATTR_I = 'val(self.type._children[i][1].attribute)'
CONV_ALL = ('forall(lambda i: implies(0 <= i and i < len(self.type._children), '
            'conv_ok(self.type._children[i][1], old(self._values)[%s], self._values[%s])))' % (ATTR_I, ATTR_I))
VALUE_OF = [Clause('fresh(result) and result._matcher == self and result._dict == self._values and '
                   'result._attributes == keys(self._values)', carries='C02', label='value-exposes-exactly-the-attributes'),
            Clause("result._name == (cast(self, 'matcher.SectionMatcher').name if isa(self, 'matcher.SectionMatcher') else None)",
                   carries='C02', label='reports-its-name')]
READY_ALL = ('forall(lambda i: implies(0 <= i and i < len(self.type._children), '
             'kinds_ok(self.type._children[i][1], self._values[%s])))' % ATTR_I)
CHILDREN_READY = ('forall(lambda i: implies(0 <= i and i < len(self.type._children), '
                  'child_ready(self.type._children[i][1])))')
K_ATTR = 'val(self.type._children[k][1].attribute)'
C_DONE = ('forall(lambda k: implies(0 <= k and k < _i0, '
          'conv_ok(self.type._children[k][1], old(self._values)[%s], self._values[%s])))' % (K_ATTR, K_ATTR))
C_TODO = ('forall(lambda k: implies(_i0 <= k and k < len(self.type._children), '
          'self._values[%s] == old(self._values)[%s]))' % (K_ATTR, K_ATTR))
CUR = 'self._values[val(attr)]'
ONLY_ATTR = 'self._values == updated(entry(self._values), val(attr), self._values[val(attr)])'
M0 = "alt(entry(self._values)[val(attr)], 'kmap')"
MM = "alt(self._values[val(attr)], 'kmap')"
DD = "alt(default_of(ci), 'kmap')"


STEP = [At("child_ready(ci) and implies(not isa(ci, 'info.SectionInfo'), key_kinds_ok(ci, default_of(ci))) and "
           "kinds_ok(ci, self._values[val(ci.attribute)])", stmt='Assert', test='ci.attribute is not None', label='this-key-has-a-datatype-and-unconverted-defaults'),
        At("conv_ok(ci, old(self._values)[val(attr)], self._values[val(attr)])", stmt='If', test='ci.handler is not None', carries='C02',
           label='this-child-converted-as-its-kind-demands')]


HANDLER_ENTRIES = ('len(self.handlers.items) == len(old(self.handlers.items)) + handler_count(self.type, 0) and '
                   'is_prefix(old(self.handlers.items), self.handlers.items)')
ENTRY_SHAPE = "forall('str', lambda x: implies(x in %s, is_alt(%s[x], 'lst') == (ci.maxOccurs > 1)))" % (MM, MM)
COMPLETED = ('forall(lambda i: implies(0 <= i and i < len(self.type._children), '
             'self._values[%s] == complete_slot(self.type._children[i][1], self._values[%s])))' % (ATTR_I, ATTR_I))


def _kmap_loop(idx, conv):
    return Loop(invariant=[Clause("is_alt(self._values[val(attr)], 'kmap')", label='still-a-mapping'),
                           Clause(ONLY_ATTR, label='only-this-attribute-changes'),
                           Clause('keys(%s) == keys(%s)' % (MM, M0), label='same-keys-same-order'),
                           Clause(ENTRY_SHAPE, label='entries-keep-their-shape'),
                           Clause("forall('str', lambda x: implies(x in keys(%s)[:%s], %s))"
                                  % (M0, idx, conv % {'b': M0 + '[x]', 'a': MM + '[x]'}), label='entries-so-far-converted'),
                           Clause("forall('str', lambda x: implies(x in %s and x not in keys(%s)[:%s], %s[x] == %s[x]))"
                                  % (M0, M0, idx, MM, M0), label='later-entries-untouched')],
                hints=['mitem_conv(ci, %s[key], %s[key])' % (M0, MM)],
                locals={'key': 'str', 'val': 'MItem'}, modifies=['self._values'])


contract('matcher.BaseMatcher.constuct', returns='Ref[matcher.SectionValue]', fresh_result=True,
         requires=[Clause(READY_ALL, label='nothing-converted-yet'),
                   Clause(COMPLETED, label='defaults-already-filled-in'),
                   Clause('invariant_of(self.type)', label='RI-of-the-section-type (every key child has a datatype and unconverted defaults)')],
         modifies=['self._values', 'self.handlers.items', 'self.finished'],
         ghost_entry=[('finished', 'True')], asserts=STEP,
         ensures=[Clause(CONV_ALL, carries='C02', label='every-attribute-converted-as-its-kind-demands'),
                  Clause('keys(self._values) == keys(old(self._values))', carries='C02', label='same-attributes'),
                  Clause(HANDLER_ENTRIES, carries='C16', label='one-handler-entry-per-handler-bearing-child-appended')] + VALUE_OF,
         raises=[Raise('ZConfig.DataConversionError', then=[Clause('exc.has_lineno')], carries='C01,C08',
                       label='a-value-does-not-convert')],
         hints=['handler_count(self.type, 0)'],
         loops=[Loop(invariant=[Clause(C_DONE, label='children-so-far-converted'),
                                Clause('len(self.handlers.items) + handler_count(self.type, _i0) == '
                                       'len(old(self.handlers.items)) + handler_count(self.type, 0) and '
                                       'is_prefix(old(self.handlers.items), self.handlers.items)',
                                       label='one-handler-entry-per-handler-bearing-child-so-far'),
                                Clause(C_TODO, label='later-children-untouched'),
                                Clause('keys(self._values) == keys(old(self._values))', label='same-attributes'),
                                Clause('self.finished'),
                                ] + MI[1:],
                     hints=['handler_count(self.type, _i0)'],
                     locals={'name': 'Opt[str]', 'ci': 'Ref[info.BaseInfo]', 'attr': 'str', 'v': 'Slot'},
                     modifies=['self._values', 'self.handlers.items']),
                # multisection: the section values in file order, each through its own section datatype
                Loop(invariant=[Clause('len(v) == _i1'),
                                Clause("forall(lambda j: implies(0 <= j and j < _i1, "
                                       "sect_conv(alt(%s, 'lst')[j], v[j])))" % CUR, label='sections-so-far-converted')],
                     locals={'v': 'Seq[Item]', 's': 'Item', 'st': 'Ref[info.SectionType]'}, modifies=[]),
                # wildcard multikey: every entry's list converted in place
                _kmap_loop('_i2', 'mitem_conv(ci, %(b)s, %(a)s)'),
                # wildcard key, no key in the text: the schema defaults, converted
                Loop(invariant=[Clause("is_alt(self._values[val(attr)], 'kmap')", label='still-a-mapping'),
                                Clause(ONLY_ATTR, label='only-this-attribute-changes'),
                                Clause('keys(%s) == keys(%s)[:_i3]' % (MM, DD), label='defaults-so-far-in-order'),
                                Clause(ENTRY_SHAPE, label='entries-keep-their-shape'),
                                Clause("forall('str', lambda x: implies(x in %s, x in %s and mitem_conv(ci, %s[x], %s[x])))"
                                       % (MM, DD, DD, MM), label='entries-so-far-converted')],
                     hints=['mitem_conv(ci, %s[key], %s[key])' % (DD, MM)],
                     locals={'key': 'str', 'val': 'MItem'}, modifies=['self._values']),
                # wildcard key: every entry converted in place
                _kmap_loop('_i4', 'mitem_conv(ci, %(b)s, %(a)s)')])

J_ATTR = 'val(self.type._children[j][1].attribute)'
DONE_J = ('forall(lambda j: implies(0 <= j and j < _i0, '
          'complete_ok(self.type._children[j][1], old(self._values)[%s]) and '
          'self._values[%s] == complete_slot(self.type._children[j][1], old(self._values)[%s])))' % (J_ATTR, J_ATTR, J_ATTR))
TODO_J = ('forall(lambda j: implies(_i0 <= j and j < len(self.type._children), '
          'self._values[%s] == old(self._values)[%s]))' % (J_ATTR, J_ATTR))
NOT_FINISHED = Clause('not self.finished', label='finished-at-most-once (established by the callers: the parser closes every '
                      'section it opens exactly once, DESIGN 10.8)')
contract('matcher.BaseMatcher.finish', returns='Ref[matcher.SectionValue]', fresh_result=True,
         requires=[NOT_FINISHED],
         modifies=['self._values', 'self.handlers.items', 'self.finished'],
         asserts=[At('forall(lambda j: implies(0 <= j and j < len(self.type._children), '
                     'self._values[%s] == old(self._values)[%s] or self._values[%s] == default_of(self.type._children[j][1])))'
                     % (J_ATTR, J_ATTR, J_ATTR), call='self.constuct',
                     label='every-slot-is-what-was-collected-or-the-declared-default'),
                  At('forall(lambda j: implies(0 <= j and j < len(self.type._children), '
                     'self._values[%s] == complete_slot(self.type._children[j][1], old(self._values)[%s])))' % (J_ATTR, J_ATTR),
                     call='self.constuct', carries='C02',
                     label='defaults-filled-in-where-the-text-gave-nothing-before-conversion')],
         ensures=[Clause('first_incomplete(self.type, old(self._values), 0) < 0', carries='C01',
                         label='every-required-key-map-and-slot-is-filled'),
                  Clause('forall(lambda i: implies(0 <= i and i < len(self.type._children), '
                         'conv_ok(self.type._children[i][1], complete_slot(self.type._children[i][1], old(self._values)[%s]), '
                         'self._values[%s])))' % (ATTR_I, ATTR_I), carries='C02',
                         label='value-tree-from-collected-values-and-defaults'),
                  Clause('keys(self._values) == keys(old(self._values))', carries='C02', label='same-attributes'),
                  Clause(HANDLER_ENTRIES, carries='C16', label='one-handler-entry-per-handler-bearing-child-appended')] + VALUE_OF,
         raises=[Raise('ZConfig.DataConversionError', then=[Clause('exc.has_lineno')], carries='C01,C08',
                       label='a-value-does-not-convert'),
                 Raise('ZConfig.ConfigurationError', when='first_incomplete(self.type, self._values, 0) >= 0',
                       carries='C01', label='something-required-is-missing')],
         hints=['first_incomplete(self.type, old(self._values), _i0)'],
         loops=[Loop(invariant=[Clause(DONE_J, label='children-so-far-complete-and-filled'),
                                Clause('not self.finished'),
                                Clause(TODO_J, label='later-children-untouched'),
                                Clause('keys(self._values) == keys(old(self._values))', label='same-attributes'),
                                Clause('first_incomplete(self.type, old(self._values), _i0) == '
                                       'first_incomplete(self.type, old(self._values), 0)', label='remaining-search-equals-search')],
                     hints=['first_incomplete(self.type, old(self._values), _i0)'],
                     locals={'key': 'Opt[str]', 'ci': 'Ref[info.BaseInfo]', 'attr': 'str', 'default': 'Slot'},
                     modifies=['self._values'])])

contract('matcher.SchemaMatcher.finish', returns='Opaque[PyVal]',
         requires=[NOT_FINISHED],
         modifies=['self._values', 'self.handlers.items', 'self.finished'],
         asserts=[At("args[0]._matcher == self and args[0]._dict == self._values and args[0]._name is None and "
                     "args[0]._attributes == keys(self._values)", call='self.type.datatype', carries='C02',
                     label='schema-datatype-applied-to-the-top-level-value')],
         ensures=[Clause('implies(self.type.handler is not None, len(self.handlers.items) >= 1 and '
                         'self.handlers.items[-1] == (val(self.type.handler), result))', carries='C16',
                         label='schema-level-handler-entry-last-with-the-converted-top-value'),
                  Clause('len(self.handlers.items) == len(old(self.handlers.items)) + handler_count(self.type, 0) + '
                         '(1 if self.type.handler is not None else 0) and is_prefix(old(self.handlers.items), self.handlers.items)',
                         carries='C16', label='one-entry-per-handler-bearing-item-of-the-schema-plus-the-schema-level-one')],
         raises=[Raise('ZConfig.ConfigurationError+', carries='C01', label='not-conforming'),
                 Raise('ValueError', label='the schema datatype itself raised (passes through unchanged, C07)')])

contract('matcher.SectionValue.getSectionDefinition', returns='Ref[info.SectionType]', pure=True,
         ensures=[Clause('result == self._matcher.type', carries='C02', label='type-of-the-section')])
