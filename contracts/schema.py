"""Contracts for ZConfig/schema.py (properties C10, C11, C12, C18, C19): the element handlers of the
SAX parser.  What is NOT under contract: the SAX dispatch (startElement / endElement / characters:
dynamic getattr dispatch over the element table), get_datatype / get_sect_typeinfo (datatype names
are resolved through the registry and the import system), start_schema, start_import; xml.sax
itself is assumed to deliver the events of the document in document order."""
from pyvc.api import (At, Clause, Loop, Raise, REGISTRY, MODELS, assumed, contract, inline, model, prim, spec_module)
import contracts.info
import contracts.loader
import spec.schemaxml as SX

spec_module(SX)

# what the parser keeps on its stack: the schema / a section type / an abstract type / an info object
model('StackItem', fields={}, external=True, abstract=True)
MODELS['TypeLike'].bases = ['StackItem']
MODELS['info.BaseInfo'].bases = ['StackItem']
MODELS['info.SectionType'].fields.setdefault('description', 'Opt[str]')
model('xml.Locator', fields={}, external=True)
ATTRS = 'Map[str, str]'
model('schema.BaseParser',
      fields={'_registry': 'Ref[Registry]', '_loader': 'Ref[loader.SchemaLoader]', '_basic_key': 'Fun[kt]',
              '_identifier': 'Fun[kt]', '_prefixes': 'Seq[str]', '_schema': 'Opt[Ref[info.SchemaType]]',
              '_stack': 'Seq[Ref[StackItem]]', '_url': 'Opt[str]', '_elem_stack': 'Seq[str]',
              '_locator': 'Opt[Ref[xml.Locator]]', '_cdata': 'Opt[Seq[str]]'},
      invariant=[Clause('accepts_nonempty(self._identifier) and accepts_nonempty(self._basic_key)',
                        label='identifier-and-basic-key-conversions-never-return-the-empty-string (C09 regex languages; '
                              'established by BaseParser.__init__ from the registry: assumed)')])
SCHEMA_ERROR = Raise('ZConfig.SchemaError+', carries='C10', label='schema-error')
assumed('schema.BaseParser.error', params={'message': 'str', 'kind': ('Opaque[PyVal]', 'None')},
        ensures=[Clause('False')],
        raises=[Raise('ZConfig.SchemaError+', when='True')],
        notes='raises SchemaError (or the given subclass) decorated with the locator position: dynamic class '
              'construction, not verified')
assumed('schema.BaseParser.get_position', returns='Tuple[int, Opt[int], Opt[str]]', pure=True,
        notes='(line, column, URL) from the SAX locator')
# the stock conversions the parser takes from the registry return their argument when they accept it
# (proved for RegularExpressionConversion.__call__ in C09; tied to the registry by bind:datatypes)
for _n in ('dotted-name', 'dotted-suffix'):
    pass
prim('conv_id', 'Fun[kt] -> bool')       # the conversion returns its argument unchanged when it accepts it

contract('schema.BaseParser.basic_key', params={'s': 'str'}, returns='str',
         ensures=[Clause('result == kt_val(self._basic_key, s)', carries='C10', label='basic-key-normal-form')],
         raises=[Raise('ZConfig.SchemaError+', when='kt_raises(self._basic_key, s)', carries='C10',
                       label='not-a-basic-key')])
contract('schema.BaseParser.identifier', params={'s': 'str'}, returns='str',
         ensures=[Clause('result == kt_val(self._identifier, s)', carries='C10', label='identifier')],
         raises=[Raise('ZConfig.SchemaError+', when='kt_raises(self._identifier, s)', carries='C10',
                       label='not-an-identifier')])
contract('schema.BaseParser.get_required', params={'attrs': ATTRS}, returns='bool',
         ensures=[Clause('result == required_of(attrs)', carries='C10', label='required-is-yes-or-no-default-no')],
         raises=[Raise('ZConfig.SchemaError+', when='required_bad(attrs)', carries='C10',
                       label='ill-formed-required-value')])
contract('schema.BaseParser.get_ordinality', params={'attrs': ATTRS}, returns='Tuple[int, MaxOcc]',
         ensures=[Clause('result[0] == (1 if required_of(attrs) else 0) and not (result[1] < 2) and result[1] > result[0]',
                         carries='C10', label='multi-items-at-least-required-times-unbounded-above')],
         raises=[Raise('ZConfig.SchemaError+', when='required_bad(attrs)', carries='C10',
                       label='ill-formed-required-value')])
contract('schema.BaseParser.get_handler', params={'attrs': ATTRS}, returns='Opt[str]',
         ensures=[Clause("implies('handler' not in attrs, result is None)"),
                  Clause("implies('handler' in attrs, result == kt_val(self._basic_key, attrs['handler']))",
                         carries='C16', label='handler-names-are-basic-keys')],
         raises=[Raise('ZConfig.SchemaError+', when="'handler' in attrs and kt_raises(self._basic_key, attrs['handler'])",
                       carries='C10', label='handler-name-not-a-basic-key')])

prim('dash_to_underscore', 'str -> str', native=lambda s: s.replace('-', '_'))
assumed('str.replace2', params={'self': 'str', 'old': 'str', 'new': 'str'}, returns='str', pure=True,
        ensures=[Clause("implies(old == '-' and new == '_', result == dash_to_underscore(self))")],
        notes="str.replace('-', '_')")
TOP_IS_TYPE = Clause("len(self._stack) > 0 and isa(self._stack[-1], 'info.SectionType')",
                     label='inside-a-schema-or-sectiontype-element (nesting table, SAX dispatch: assumed)')
KT = "cast(self._stack[-1], 'info.SectionType').keytype"
NI_ARGS = "attrs, default, self._identifier, self._basic_key, %s" % KT
contract('schema.BaseParser.get_name_info',
         params={'attrs': ATTRS, 'element': 'str', 'default': ('Opt[str]', 'None')},
         returns='Tuple[Opt[str], Opt[str], Opt[str]]', requires=[TOP_IS_TYPE],
         ensures=[Clause('not name_info_bad(%s)' % NI_ARGS, carries='C10', label='well-formed-name-and-attribute'),
                  Clause("implies(name_of(attrs, default) == '*' or name_of(attrs, default) == '+', "
                         "result == (name_of(attrs, default), None, kt_val(self._identifier, attrs['attribute'])))",
                         carries='C10', label='wildcard-name-with-its-attribute'),
                  Clause("implies(name_of(attrs, default) != '*' and name_of(attrs, default) != '+', "
                         "result[0] is None and result[1] == kt_val(%s, val(name_of(attrs, default))) and "
                         "result[2] == attribute_of(%s))" % (KT, NI_ARGS), carries='C02,C10',
                         label='name-normalised-by-the-key-type-attribute-given-or-derived-with-underscores'),
                  Clause("result[2] is not None and val(result[2]) != ''", label='has-an-attribute-name')],
         raises=[Raise('ZConfig.SchemaError+', when='name_info_bad(%s)' % NI_ARGS, carries='C10',
                       label='ill-formed-name-or-attribute')])

assumed('schema.BaseParser.get_datatype',
        params={'attrs': ATTRS, 'attrkey': 'str', 'default': 'str', 'base': ('Opt[Ref[info.SectionType]]', 'None')},
        returns='Fun[dt]', pure=True, raises=[Raise('ZConfig.SchemaError+')],
        notes='datatype name -> callable through the registry / import system (DESIGN 7): not verified')
prim('sect_kt', 'Map[str, str], Opt[Ref[info.SectionType]] -> Fun[kt]')
prim('sect_dt', 'Map[str, str], Opt[Ref[info.SectionType]] -> Fun[sdt]')
assumed('schema.BaseParser.get_sect_typeinfo',
        params={'attrs': ATTRS, 'base': ('Opt[Ref[info.SectionType]]', 'None')},
        returns='Tuple[Fun[kt], Opt[Fun[dt]], Opt[Fun[sdt]]]', pure=True,
        ensures=[Clause('result[0] == sect_kt(attrs, base) and result[2] is not None and val(result[2]) == sect_dt(attrs, base)'),
                 Clause("implies(base is not None and 'keytype' not in attrs, result[0] == val(base).keytype)"),
                 Clause("implies(base is not None and 'datatype' not in attrs, result[2] == val(base).datatype)")],
        raises=[Raise('ZConfig.SchemaError+')],
        notes='key type / value type / datatype of a sectiontype or schema element: the attribute if given, else the '
              "base type's key type / datatype (value type is never inherited), else the default; names resolved through "
              'the registry / import system: not verified')
contract('schema.BaseParser.get_sectiontype', params={'attrs': ATTRS}, returns='Ref[TypeLike]',
         requires=[Clause('self._schema is not None', label='inside-the-document')],
         ensures=[Clause("'type' in attrs and attrs['type'] != '' and attrs['type'].lower() in val(self._schema)._types.items "
                         "and result == val(self._schema)._types.items[attrs['type'].lower()]", carries='C10',
                         label='section-slots-name-a-type-that-is-already-defined')],
         raises=[Raise('ZConfig.SchemaError+',
                       when="'type' not in attrs or attrs['type'] == '' or attrs['type'].lower() not in val(self._schema)._types.items",
                       carries='C10', label='type-missing-or-not-defined-before-use')])
contract('schema.BaseParser.get_key_info', params={'attrs': ATTRS, 'element': 'str'},
         returns='Tuple[str, Fun[dt], Opt[str], Opt[str]]', requires=[TOP_IS_TYPE],
         ensures=[Clause("name_of(attrs, None) != '*' and not name_info_bad(attrs, None, self._identifier, self._basic_key, %s)" % KT,
                         carries='C10', label='keys-are-never-named-star'),
                  Clause("implies(name_of(attrs, None) == '+', result[0] == '+' and "
                         "result[3] == kt_val(self._identifier, attrs['attribute']))", carries='C10',
                         label='wildcard-key-with-its-attribute'),
                  Clause("implies(name_of(attrs, None) != '+', result[0] == kt_val(%s, val(name_of(attrs, None))) and "
                         "result[3] == attribute_of(attrs, None, self._identifier, self._basic_key, %s))" % (KT, KT),
                         carries='C02,C10', label='key-name-normalised-attribute-given-or-derived'),
                  Clause("result[3] is not None and val(result[3]) != '' and result[0] != ''"),
                  Clause("implies('handler' not in attrs, result[2] is None) and "
                         "implies('handler' in attrs, result[2] == kt_val(self._basic_key, attrs['handler']))")],
         raises=[Raise('ZConfig.SchemaError+', carries='C10', label='ill-formed-key-declaration')])

TOPT = "cast(self._stack[-1], 'info.SectionType')"
TOP_WF = Clause('invariant_of(%s)' % TOPT, label='RI-of-the-enclosing-type')
TOP_MOD = ['%s._children' % TOPT, '%s._attrmap' % TOPT, '%s._keymap' % TOPT]
OLD_TOP = "cast(old(self._stack)[-1], 'info.SectionType')"
contract('schema.BaseParser.start_key', params={'attrs': ATTRS}, requires=[TOP_IS_TYPE, TOP_WF],
         modifies=['self._stack'] + TOP_MOD,
         ensures=[Clause('len(self._stack) == len(old(self._stack)) + 1 and self._stack[:-1] == old(self._stack) and '
                         "isclass(self._stack[-1], 'info.KeyInfo') and fresh(self._stack[-1])", carries='C10',
                         label='new-key-info-pushed'),
                  Clause("not (required_of(attrs) and 'default' in attrs)", carries='C10',
                         label='no-default-attribute-on-a-required-key'),
                  Clause("implies(cast(self._stack[-1], 'info.KeyInfo').name != '+', "
                         "('default' in attrs) == is_alt(cast(self._stack[-1], 'info.KeyInfo')._default, 'vi') and "
                         "implies('default' in attrs, alt(cast(self._stack[-1], 'info.KeyInfo')._default, 'vi').value == attrs['default'].strip()))",
                         carries='C02,C10', label='a-default-attribute-also-an-empty-one-is-the-default-of-the-key'),
                  Clause("%s._children == old(%s._children) + [(cast(self._stack[-1], 'info.KeyInfo').name, "
                         "cast(self._stack[-1], 'info.BaseInfo'))]" % (OLD_TOP, OLD_TOP), carries='C10,C11',
                         label='key-added-to-the-enclosing-type-in-document-order'),
                  Clause("cast(self._stack[-1], 'info.KeyInfo').minOccurs == (1 if required_of(attrs) else 0) and "
                         "cast(self._stack[-1], 'info.KeyInfo').attribute is not None", carries='C10', label='declaration-stored')],
         raises=[SCHEMA_ERROR])
contract('schema.BaseParser.start_multikey', params={'attrs': ATTRS}, requires=[TOP_IS_TYPE, TOP_WF],
         modifies=['self._stack'] + TOP_MOD,
         ensures=[Clause('len(self._stack) == len(old(self._stack)) + 1 and self._stack[:-1] == old(self._stack) and '
                         "isclass(self._stack[-1], 'info.MultiKeyInfo') and fresh(self._stack[-1])", carries='C10',
                         label='new-multikey-info-pushed'),
                  Clause("'default' not in attrs", carries='C10', label='multikey-defaults-only-as-elements'),
                  Clause("%s._children == old(%s._children) + [(cast(self._stack[-1], 'info.MultiKeyInfo').name, "
                         "cast(self._stack[-1], 'info.BaseInfo'))]" % (OLD_TOP, OLD_TOP), carries='C10,C11',
                         label='multikey-added-to-the-enclosing-type-in-document-order')],
         raises=[SCHEMA_ERROR])
contract('schema.BaseParser.start_multisection', params={'attrs': ATTRS},
         requires=[TOP_IS_TYPE, TOP_WF, Clause('self._schema is not None', label='inside-the-document')],
         modifies=['self._stack'] + TOP_MOD,
         ensures=[Clause("name_of(attrs, '*') == '*' or name_of(attrs, '*') == '+'", carries='C10',
                         label='multisections-are-named-star-or-plus'),
                  Clause('len(self._stack) == len(old(self._stack)) + 1 and self._stack[:-1] == old(self._stack) and '
                         "isclass(self._stack[-1], 'info.SectionInfo') and fresh(self._stack[-1])", carries='C10',
                         label='new-slot-pushed'),
                  Clause("%s._children == old(%s._children) + [(None, cast(self._stack[-1], 'info.BaseInfo'))]"
                         % (OLD_TOP, OLD_TOP), carries='C10,C11', label='slot-added-to-the-enclosing-type-in-document-order')],
         raises=[SCHEMA_ERROR])
contract('schema.BaseParser.start_section', params={'attrs': ATTRS},
         requires=[TOP_IS_TYPE, TOP_WF, Clause('self._schema is not None', label='inside-the-document'),
                   Clause('accepts_nonempty(%s)' % KT, label='key-types-never-normalise-a-name-to-the-empty-string (assumed)')],
         modifies=['self._stack'] + TOP_MOD,
         ensures=[Clause('len(self._stack) == len(old(self._stack)) + 1 and self._stack[:-1] == old(self._stack) and '
                         "isclass(self._stack[-1], 'info.SectionInfo') and fresh(self._stack[-1])", carries='C10',
                         label='new-slot-pushed'),
                  Clause("len(%s._children) == len(old(%s._children)) + 1 and "
                         "%s._children[len(old(%s._children))][1] == cast(self._stack[-1], 'info.BaseInfo')"
                         % (OLD_TOP, OLD_TOP, OLD_TOP, OLD_TOP), carries='C10,C11',
                         label='slot-added-to-the-enclosing-type-in-document-order')],
         raises=[SCHEMA_ERROR])
contract('schema.BaseParser.start_abstracttype', params={'attrs': ATTRS},
         requires=[Clause('self._schema is not None', label='inside-the-document')],
         modifies=['self._stack', 'self._schema._types.items'],
         ensures=[Clause("'name' in attrs and attrs['name'] != '' and not kt_raises(self._basic_key, attrs['name'])",
                         carries='C10', label='abstract-type-has-a-well-formed-name'),
                  Clause("kt_val(self._basic_key, attrs['name']) not in old(val(self._schema)._types.items) and "
                         "isclass(val(self._schema)._types.items[kt_val(self._basic_key, attrs['name'])], 'info.AbstractType') and "
                         "fresh(val(self._schema)._types.items[kt_val(self._basic_key, attrs['name'])])",
                         carries='C10,C12', label='new-abstract-type-under-an-unused-name-no-implementers'),
                  Clause('len(self._stack) == len(old(self._stack)) + 1 and self._stack[:-1] == old(self._stack)')],
         raises=[SCHEMA_ERROR])
for _e in ('end_key', 'end_multikey'):
    pass
contract('schema.BaseParser.end_section', modifies=['self._stack'],
         requires=[Clause('len(self._stack) > 0')], ensures=[Clause('self._stack == old(self._stack)[:-1]', carries='C10')])
contract('schema.BaseParser.end_multisection', modifies=['self._stack'],
         requires=[Clause('len(self._stack) > 0')], ensures=[Clause('self._stack == old(self._stack)[:-1]', carries='C10')])
contract('schema.BaseParser.end_abstracttype', modifies=['self._stack'],
         requires=[Clause('len(self._stack) > 0')], ensures=[Clause('self._stack == old(self._stack)[:-1]', carries='C10')])

# ---- prefixes (C11) -------------------------------------------------------------------------------------------------
PFX_CONV = "reg_get(self._registry, 'dotted-suffix' if len(old(self._prefixes)) > 0 else 'dotted-name')"
PFX_CONV_PRE = "reg_get(self._registry, 'dotted-suffix' if len(self._prefixes) > 0 else 'dotted-name')"
prim('no_leading_dot', 'Fun[kt] -> bool', args=['fn'])
contract('schema.BaseParser.push_prefix', params={'attrs': ATTRS},
         requires=[Clause("forall('str', lambda x: implies(not kt_raises(reg_get(self._registry, 'dotted-name'), x), "
                          "x[:1] != '.' and kt_val(reg_get(self._registry, 'dotted-name'), x) == x))",
                          label='dotted-name accepts no leading dot and returns its argument (C09, assumed here)'),
                   Clause("forall('str', lambda x: implies(not kt_raises(reg_get(self._registry, 'dotted-suffix'), x), "
                          "kt_val(reg_get(self._registry, 'dotted-suffix'), x) == x and x != ''))",
                          label='dotted-suffix returns its argument (C09, assumed here)')],
         modifies=['self._prefixes'],
         ensures=[Clause("self._prefixes == old(self._prefixes) + [new_prefix(old(self._prefixes), attrs.get('prefix'), %s)]" % PFX_CONV,
                         carries='C11', label='prefix-composes-outward-absolute-relative-or-inherited')],
         raises=[Raise('ZConfig.SchemaError+',
                       when="'prefix' in attrs and attrs['prefix'] != '' and kt_raises(%s, attrs['prefix'])" % PFX_CONV_PRE,
                       carries='C10,C11', label='ill-formed-prefix')])
contract('schema.BaseParser.pop_prefix', requires=[Clause('len(self._prefixes) > 0', label='inside-an-element-that-pushed')],
         modifies=['self._prefixes'],
         ensures=[Clause('self._prefixes == old(self._prefixes)[:-1]', carries='C11', label='prefix-scope-ends-with-the-element')])
contract('schema.BaseParser.get_classname', params={'name': 'str'}, returns='str',
         requires=[Clause('len(self._prefixes) > 0', label='inside-the-document')],
         ensures=[Clause("result == ((self._prefixes[-1] + name) if name[:1] == '.' else name)", carries='C11',
                         label='leading-dot-means-nearest-enclosing-prefix-plus-name')])

# ---- section types: extends / implements (C10, C11, C12) --------------------------------------------------------------
SCH = 'val(self._schema)'
TNAME = "kt_val(self._basic_key, attrs['name'])"
NEWT = "cast(self._stack[-1], 'info.SectionType')"
BASE_T = "cast(%s._types.items[kt_val(self._basic_key, attrs['extends']).lower()], 'info.SectionType')" % SCH
IF_T = "cast(old(%s._types.items)[kt_val(self._basic_key, attrs['implements']).lower()], 'info.AbstractType')" % SCH
contract('schema.BaseParser.start_sectiontype', params={'attrs': ATTRS},
         requires=[Clause('self._schema is not None', label='inside-the-document'),
                   Clause("forall('str', lambda x: implies(x in %s._types.items and isa(%s._types.items[x], 'info.SectionType'), "
                          "invariant_of(cast(%s._types.items[x], 'info.SectionType'))))" % (SCH, SCH, SCH),
                          label='every-type-defined-so-far-is-well-formed'),
                   Clause("forall('str', lambda x: implies(x in %s._types.items, %s._types.items[x].name is not None))" % (SCH, SCH)),
                   REGISTRY['schema.BaseParser.push_prefix'].requires[0], REGISTRY['schema.BaseParser.push_prefix'].requires[1]],
         modifies=['self._stack', 'self._prefixes', 'self._schema._types.items', '*info.AbstractType._subtypes'],
         inst=["kt_val(self._basic_key, attrs['extends']).lower()"],
         ensures=[Clause("'name' in attrs and attrs['name'] != '' and not kt_raises(self._basic_key, attrs['name'])",
                         carries='C10', label='section-type-has-a-well-formed-name'),
                  Clause('len(self._stack) == len(old(self._stack)) + 1 and self._stack[:-1] == old(self._stack) and '
                         "isa(self._stack[-1], 'info.SectionType') and fresh(self._stack[-1]) and %s.name == %s" % (NEWT, TNAME),
                         carries='C10', label='new-type-pushed'),
                  Clause('%s not in old(%s._types.items) and %s._types.items == updated(old(%s._types.items), %s, cast(self._stack[-1], "TypeLike"))'
                         % (TNAME, SCH, SCH, SCH, TNAME), carries='C10', label='type-name-was-unused-type-registered'),
                  Clause("implies('extends' in attrs, not isa(old(%s._types.items)[kt_val(self._basic_key, attrs['extends']).lower()], 'info.AbstractType') "
                         "and %s._keymap == %s._keymap and %s._attrmap == %s._attrmap and len(%s._children) == len(%s._children))"
                         % (SCH, NEWT, BASE_T, NEWT, BASE_T, NEWT, BASE_T), carries='C10,C11',
                         label='extends-names-a-concrete-type-whose-children-come-first'),
                  Clause("implies('extends' in attrs, %s.keytype == sect_kt(attrs, %s) and val(%s.datatype) == sect_dt(attrs, %s))"
                         % (NEWT, BASE_T, NEWT, BASE_T), carries='C11', label='key-type-and-datatype-inherited-unless-overridden'),
                  Clause("implies('extends' not in attrs, len(%s._children) == 0)" % NEWT, carries='C10', label='plain-type-starts-empty'),
                  Clause("implies('implements' in attrs, %s._subtypes == updated(old(%s._subtypes), %s, %s))" % (IF_T, IF_T, TNAME, NEWT),
                         carries='C12', label='registered-as-implementer-of-the-named-abstract-type'),
                  Clause("implies('implements' not in attrs, forall(lambda r: implies(isa(cast(r, 'info.AbstractType'), 'info.AbstractType'), True)))"),
                  Clause("self._prefixes == old(self._prefixes) + [new_prefix(old(self._prefixes), attrs.get('prefix'), %s)]" % PFX_CONV,
                         carries='C11', label='prefix-scope-opened')],
         raises=[SCHEMA_ERROR, Raise('ZConfig.DataConversionError', carries='C10',
                                     label='default-key-refused-by-the-new-key-type (known finding KF-C10-default-key)')])
contract('schema.BaseParser.end_sectiontype',
         requires=[Clause('len(self._stack) > 0 and len(self._prefixes) > 0')],
         modifies=['self._stack', 'self._prefixes'],
         ensures=[Clause('self._stack == old(self._stack)[:-1] and self._prefixes == old(self._prefixes)[:-1]', carries='C10,C11',
                         label='type-and-prefix-scope-closed')])

# ---- closing key elements; loading base schemas and components (C11, C18, C19) -----------------------------------------
KEYTOP = "cast(self._stack[-1], 'info.BaseKeyInfo')"
contract('schema.BaseParser.end_key',
         requires=[Clause("len(self._stack) >= 2 and isa(self._stack[-1], 'info.KeyInfo') and isa(self._stack[-2], 'info.SectionType')",
                          label='closing-a-key-element-inside-a-type (nesting table, SAX dispatch: assumed)'),
                   Clause("invariant_of(cast(self._stack[-1], 'info.KeyInfo'))", label='key-info-well-formed')],
         modifies=['self._stack', '%s._default' % KEYTOP, '%s._rawdefaults' % KEYTOP, '%s._finished' % KEYTOP],
         ensures=[Clause('self._stack == old(self._stack)[:-1]', carries='C10', label='key-element-closed'),
                  Clause("implies(cast(old(self._stack)[-1], 'info.KeyInfo').name == '+', "
                         "cast(old(self._stack)[-1], 'info.KeyInfo')._finished and "
                         "renorm_defaults(raw_defaults_of_old, cast(old(self._stack)[-2], 'info.SectionType').keytype, 0, {}) == "
                         "(0, alt(cast(old(self._stack)[-1], 'info.KeyInfo')._default, 'kmap')))".replace(
                             'raw_defaults_of_old',
                             "(alt(old(cast(self._stack[-1], 'info.KeyInfo')._default), 'kmap') if "
                             "is_alt(old(cast(self._stack[-1], 'info.KeyInfo')._rawdefaults), 'none') else "
                             "alt(old(cast(self._stack[-1], 'info.KeyInfo')._rawdefaults), 'kmap'))"),
                         carries='C10,C11', label='wildcard-defaults-keyed-by-keys-normalised-under-the-enclosing-key-type')],
         raises=[SCHEMA_ERROR, Raise('ZConfig.DataConversionError', carries='C10',
                                     label='default-key-refused-by-the-key-type (known finding KF-C10-default-key)')])
MODELS['schema.BaseParser'].fields['_extending_parser'] = 'Opt[Ref[schema.SchemaParser]]'   # (None except on a SchemaParser that extends)
MODELS['schema.BaseParser'].late_fields = ('_extending_parser',)
model('schema.SchemaParser', fields={})
assumed('schema.SchemaParser.__init__',
        params={'loader': 'Ref[loader.SchemaLoader]', 'url': 'Opt[str]', 'extending_parser': ('Opt[Ref[schema.SchemaParser]]', 'None')},
        ensures=[Clause('self._url == url and self._loader == loader and self._extending_parser == extending_parser')],
        notes='stores its arguments (BaseParser.__init__ reads conversions from the registry): not verified')
model('schema.ComponentParser', fields={'_parent': 'Ref[info.SchemaType]'})
assumed('schema.ComponentParser.__init__',
        params={'loader': 'Ref[loader.SchemaLoader]', 'url': 'Opt[str]', 'schema': 'Ref[info.SchemaType]'},
        ensures=[Clause('self._url == url and self._loader == loader and self._parent == schema and self._extending_parser is None')],
        notes='stores its arguments: not verified')
MODELS['loader.SchemaLoader'].bases = []
SCHEMA_OBJS = ['*info.SectionType.*', '*info.BaseInfo.*', '*info.BaseKeyInfo.*', '*info.AbstractType._subtypes', '*dict:types.items', '*dict:components.items']
NEW_PARSERS = ['+schema.BaseParser.*', '+schema.SchemaParser.*', '+schema.ComponentParser.*']
assumed('xml.sax.parse', params={'source': 'Opt[Ref[File]]', 'handler': 'Ref[schema.BaseParser]'},
        modifies=['source.lines', 'GHOST.open_files', 'handler._prefixes', 'handler._schema', 'handler._stack', 'handler._elem_stack', 'handler._cdata', 'handler._locator', 'handler._extending_parser._base_keytypes', 'handler._extending_parser._base_datatypes', 'handler._extending_parser._descriptions'] + SCHEMA_OBJS + NEW_PARSERS,
        ensures=[Clause('GHOST.open_files == old(GHOST.open_files)')],
        raises=[Raise('Exception+', then=[Clause('GHOST.open_files == old(GHOST.open_files)')])],
        notes='xml.sax delivers the events of the document to the handler (which changes its own state, the schema objects '
              'it builds, the inheritance lists of the parser it extends, and parsers it creates itself); it may load further '
              'resources (each closed again: contracts of extendSchema / loadComponent / loadURL) and may raise anything')
SAX_MOD = ['GHOST.open_files'] + SCHEMA_OBJS + NEW_PARSERS
contract('schema.SchemaParser.extendSchema', params={'src': 'str'},
         modifies=SAX_MOD + ['self._base_keytypes', 'self._base_datatypes', 'self._descriptions'],
         asserts=[At('args[0] == self._loader and args[1] == src and args[2] == self', call='SchemaParser', carries='C18,C11',
                     label='base-schema-parsed-with-ITS-OWN-url-into-the-extending-parsers-schema'),
                  At('args[0] == src', call='self._loader.openResource', carries='C18', label='base-schema-opened-from-that-url')],
         ensures=[Clause('GHOST.open_files == old(GHOST.open_files)', carries='C19', label='base-schema-resource-closed')],
         raises=[Raise('Exception+', then=[Clause('GHOST.open_files == old(GHOST.open_files)', carries='C19',
                                                  label='base-schema-resource-closed-when-parsing-fails')])])
contract('schema.BaseParser.loadComponent', params={'src': 'str'},
         requires=[Clause('self._schema is not None', label='inside-the-document')], modifies=SAX_MOD,
         asserts=[At('args[0] == self._loader and args[1] == src and args[2] == val(self._schema)', call='ComponentParser',
                     carries='C11,C18', label='component-parsed-with-its-own-url-into-THIS-schema'),
                  At('args[0] == src', call='self._loader.openResource', carries='C18', label='component-opened-from-that-url')],
         ensures=[Clause('GHOST.open_files == old(GHOST.open_files)', carries='C19', label='component-resource-closed')],
         raises=[Raise('Exception+', then=[Clause('GHOST.open_files == old(GHOST.open_files)', carries='C19',
                                                  label='component-resource-closed-when-parsing-fails')])])

# ---- <schema> element: creation or extension of the schema, inheritance of key type / datatype (C11) ---------------------
MODELS['schema.SchemaParser'].fields.update({'_base_keytypes': 'Seq[Fun[kt]]', '_base_datatypes': 'Seq[Opt[Fun[sdt]]]',
                                             '_descriptions': 'Seq[str]'})
import contracts.datatypes      # str.split (assumed)
SP_MOD = ['self._base_keytypes', 'self._base_datatypes', 'self._descriptions',
          'self._extending_parser._base_keytypes', 'self._extending_parser._base_datatypes']
KT_DECL = 'sect_kt(attrs, None)'
DT_DECL = 'sect_dt(attrs, None)'
EXT = 'val(self._extending_parser)'
contract('schema.SchemaParser.start_schema', params={'attrs': ATTRS},
         requires=[REGISTRY['schema.BaseParser.push_prefix'].requires[0], REGISTRY['schema.BaseParser.push_prefix'].requires[1],
                   Clause('implies(self._extending_parser is not None, %s._schema is not None)' % EXT,
                          label='an-extending-parser-has-created-its-schema')],
         modifies=['self._prefixes', 'self._schema', 'self._stack'] + SAX_MOD + SP_MOD,
         asserts=[At('args[0] == self._url', call='url.urljoin', carries='C18',
                     label='extends-references-resolve-against-the-url-of-the-schema-that-contains-them')],
         ensures=[Clause('self._schema is not None and len(self._stack) == 1', carries='C10', label='schema-on-the-stack'),
                  Clause("implies('keytype' in attrs or 'extends' not in attrs or len(self._base_keytypes) == 0, "
                         "val(self._schema).keytype == %s)" % KT_DECL, carries='C11',
                         label='own-key-type-when-declared-or-nothing-to-inherit'),
                  Clause("implies('keytype' not in attrs and 'extends' in attrs and len(self._base_keytypes) > 0, "
                         "val(self._schema).keytype == self._base_keytypes[0] and "
                         "forall(lambda j: implies(0 <= j and j < len(self._base_keytypes), "
                         "self._base_keytypes[j] == self._base_keytypes[0])))", carries='C11',
                         label='key-type-inherited-from-the-bases-which-must-agree'),
                  Clause("implies(self._extending_parser is not None, len(%s._base_keytypes) > 0 and "
                         "%s._base_keytypes[-1] == val(self._schema).keytype and "
                         "%s._base_datatypes[-1] == val(self._schema).datatype)" % (EXT, EXT, EXT), carries='C11',
                         label='a-base-schema-reports-the-key-type-and-datatype-it-ENDS-UP-with-inherited-ones-included')],
         raises=[Raise('Exception+', label='schema-error-or-failure-while-loading-a-base')],
         loops=[Loop(invariant=[Clause('self._schema is not None and len(self._stack) == 1'),
                                Clause('implies(self._extending_parser is not None, %s._schema is not None)' % EXT)],
                     locals={'src': 'str', 'fragment': 'str'},
                     modifies=SAX_MOD + SP_MOD),
                Loop(invariant=[Clause('forall(lambda j: implies(1 <= j and j < 1 + _i1 and j < len(self._base_keytypes), '
                                       'self._base_keytypes[j] == keytype))'),
                                Clause('len(self._base_keytypes) > 0 and keytype == self._base_keytypes[0]')],
                     locals={'kt': 'Fun[kt]'}, modifies=[]),
                Loop(invariant=[], locals={'dt': 'Opt[Fun[sdt]]'}, modifies=[])])

# ---- reading one schema / component resource; the schema loader and the two public entry points (C18, C19) --------------
import contracts.loader as _LD
_UNCH = Clause('GHOST.open_files == old(GHOST.open_files)', carries='C19', label='nothing-left-open')
contract('schema.parseResource', params={'resource': 'Ref[loader.Resource]', 'loader': 'Ref[loader.SchemaLoader]'},
         returns='Opt[Ref[info.SchemaType]]',
         modifies=SAX_MOD + ['resource.file.lines'],
         asserts=[At('args[0] == loader and args[1] == resource.url', call='SchemaParser', carries='C18',
                     label='schema-parsed-under-the-url-of-its-resource')],
         ensures=[_UNCH],
         raises=[Raise('Exception+', then=[_UNCH], label='schema-error-or-malformed-xml')])
contract('schema.parseComponent',
         params={'resource': 'Ref[loader.Resource]', 'loader': 'Ref[loader.SchemaLoader]', 'schema': 'Ref[info.SchemaType]'},
         modifies=SAX_MOD + ['resource.file.lines'],
         asserts=[At('args[0] == loader and args[1] == resource.url and args[2] == schema', call='ComponentParser',
                     carries='C11,C18', label='component-parsed-under-the-url-of-its-resource-into-the-given-schema')],
         ensures=[_UNCH],
         raises=[Raise('Exception+', then=[_UNCH], label='schema-error-or-malformed-xml')])

MODELS['loader.SchemaLoader'].fields.update({'registry': 'Ref[Registry]', '_cache': 'Map[Opt[str], Opt[Ref[info.SchemaType]]]'})
model('datatypes.Registry', fields={}, bases=['Registry'])
assumed('datatypes.Registry.__init__', params={'stock': ('Opt[Opaque[PyVal]]', 'None')},
        notes='ZConfig.datatypes.Registry(): a new registry holding the stock datatypes (registry lookups are assumed, C09 binds the stock table)')
contract('loader.SchemaLoader.__init__', params={'registry': ('Opt[Ref[Registry]]', 'None')},
         ensures=[Clause('len(self._cache) == 0', carries='C13', label='empty-cache'),
                  Clause('implies(registry is not None, self.registry == val(registry))', label='uses-the-given-registry')])
contract('loader.SchemaLoader.loadResource', params={'resource': 'Ref[loader.Resource]'},
         returns='Opt[Ref[info.SchemaType]]',
         modifies=SAX_MOD + ['resource.file.lines', 'self._cache'],
         ensures=[_UNCH,
                  Clause("implies(resource.url is not None and resource.url != '' and resource.url in old(self._cache), "
                         "result == old(self._cache)[resource.url] and self._cache == old(self._cache))", carries='C13',
                         label='a-url-loaded-before-yields-the-same-schema-object'),
                  Clause('self._cache == old(self._cache) or self._cache == updated(old(self._cache), resource.url, result)',
                         carries='C13', label='only-this-schema-is-remembered')],
         raises=[Raise('Exception+', then=[_UNCH, Clause('self._cache == old(self._cache)', carries='C19',
                                                         label='a-failed-load-is-not-remembered')],
                       label='schema-error-or-malformed-xml')])

# character-data elements: endElement hands the stripped text to characters_<tag>; the attributes and
# the position of the element were recorded by startElement / characters / endElement (not under contract)
MODELS['schema.BaseParser'].fields.update({'_attrs': ATTRS, '_position': 'Opt[Tuple[int, Opt[int], Opt[str]]]'})
MODELS['schema.BaseParser'].late_fields = tuple(MODELS['schema.BaseParser'].late_fields) + ('_attrs', '_position')
KEYLIKE_TOP = "cast(self._stack[-1], 'info.BaseKeyInfo')"
contract('schema.BaseParser.characters_default', params={'data': 'str'},
         requires=[Clause("len(self._stack) > 0 and isa(self._stack[-1], 'info.BaseKeyInfo')",
                          label='inside-a-key-or-multikey-element (nesting table, SAX dispatch: assumed)'),
                   Clause('self._position is not None', label='the-element-has-a-position (endElement supplies that of the end tag when '
                                                              'there was no character data: fix a8dc912)'),
                   Clause('key_default_shape(%s)' % KEYLIKE_TOP, label='defaults-have-the-shape-of-the-kind-of-key')],
         modifies=['%s._default' % KEYLIKE_TOP],
         ensures=[Clause("not %s._finished and (%s.name == '+') == ('key' in self._attrs)" % (KEYLIKE_TOP, KEYLIKE_TOP), carries='C10',
                         label='a-default-element-carries-a-key-attribute-exactly-for-a-wildcard-key')],
         raises=[SCHEMA_ERROR])

# ---- closing a <multikey> (C10) ------------------------------------------------------------------------------------------
MKTOP = "cast(self._stack[-1], 'info.MultiKeyInfo')"
contract('schema.BaseParser.end_multikey',
         requires=[Clause("len(self._stack) >= 2 and isa(self._stack[-1], 'info.MultiKeyInfo') and isa(self._stack[-2], 'info.SectionType')",
                          label='closing-a-multikey-element-inside-a-type (nesting table, SAX dispatch: assumed)'),
                   Clause("invariant_of(cast(self._stack[-1], 'info.MultiKeyInfo'))", label='multikey-info-well-formed')],
         modifies=['self._stack', '%s._default' % MKTOP, '%s._rawdefaults' % MKTOP, '%s._finished' % MKTOP],
         ensures=[Clause('self._stack == old(self._stack)[:-1]', carries='C10', label='multikey-element-closed'),
                  Clause("cast(old(self._stack)[-1], 'info.MultiKeyInfo')._finished", carries='C10', label='finished')],
         raises=[SCHEMA_ERROR, Raise('ZConfig.DataConversionError', carries='C10',
                                     label='default-key-refused-by-the-key-type (known finding KF-C10-default-key)')])

# ---- ComponentParser overrides (session 4) --------------------------------------------------------------------------
# The four element handlers a component document overrides: each is the BaseParser handler behind a guard that the
# element is not at top level.  Each override is verified against the SAME contract as the handler it overrides
# (behavioural subtyping: a component document obeys every rule a schema document obeys), the BaseParser handler
# being used through its own discharged contract at the static call `BaseParser.start_xxx(self, attrs)`.
import copy as _copy
contract('schema.ComponentParser._check_not_toplevel', params={'what': 'str'}, pure=True,
         ensures=[Clause('len(self._stack) > 0', carries='C10', label='inside-a-type-element')],
         raises=[Raise('ZConfig.SchemaError+', when='len(self._stack) == 0', carries='C10',
                       label='top-level-item-in-a-component')])
for _n in ('start_key', 'start_multikey', 'start_section', 'start_multisection'):
    _c = _copy.copy(REGISTRY['schema.BaseParser.' + _n])
    _c.qualname = 'schema.ComponentParser.' + _n
    REGISTRY[_c.qualname] = _c
_PP = REGISTRY['schema.BaseParser.push_prefix']
contract('schema.ComponentParser.start_component', params={'attrs': ATTRS},
         requires=[_PP.requires[0], _PP.requires[1]],
         modifies=['self._schema', 'self._prefixes'],
         ensures=[Clause('self._schema is not None and val(self._schema) == self._parent', carries='C10,C11',
                         label='a-component-extends-the-schema-that-imports-it'),
                  Clause("self._prefixes == old(self._prefixes) + [new_prefix(old(self._prefixes), attrs.get('prefix'), %s)]" % PFX_CONV,
                         carries='C11', label='prefix-scope-opened')],
         raises=[Raise('ZConfig.SchemaError+', when=_PP.raises[0].when, carries='C10,C11', label='ill-formed-prefix')])
contract('schema.ComponentParser.end_component', requires=[Clause('len(self._prefixes) > 0', label='inside-an-element-that-pushed')],
         modifies=['self._prefixes'],
         ensures=[Clause('self._prefixes == old(self._prefixes)[:-1]', carries='C11', label='prefix-scope-ends-with-the-element')])
contract('schema.BaseParser.__init__', params={'loader': 'Ref[loader.SchemaLoader]', 'url': 'Opt[str]'},
         requires=[Clause("accepts_nonempty(reg_get(loader.registry, 'identifier')) and accepts_nonempty(reg_get(loader.registry, 'basic-key'))",
                          label='the-registry-holds-conversions-that-never-return-the-empty-string (C09 regex languages; '
                                'bind:datatypes ties the stock registry to them)')],
         modifies=['self.*'],
         ensures=[Clause('self._loader == loader and self._url == url and self._registry == loader.registry', label='arguments-stored'),
                  Clause("self._basic_key == reg_get(loader.registry, 'basic-key') and self._identifier == reg_get(loader.registry, 'identifier')",
                         carries='C10', label='names-are-checked-by-the-registered-conversions'),
                  Clause('len(self._stack) == 0 and len(self._prefixes) == 0 and len(self._elem_stack) == 0 and self._schema is None '
                         'and self._cdata is None and self._locator is None', carries='C10', label='parser-starts-outside-any-element')])
