"""Binding obligations (see pyvc/bindcheck.py)."""
DT = 'ZConfig.datatypes'
BINDINGS = []


def b(group, id, expr, expect=None, carries=None, imports=(DT,)):
    d = {'group': group, 'id': group + ':' + id, 'expr': expr, 'carries': carries, 'imports': list(imports)}
    if expect is not None:
        d['expect'] = expect
    BINDINGS.append(d)


# ---- C09: the stock registry hands out the instances the contracts speak about ----------
g = 'bind:datatypes'
b(g, 'port-number-range', '(datatypes.port_number.__self__._min, datatypes.port_number.__self__._max)', (0, 65535), 'C09')
b(g, 'port-number-conv', 'datatypes.port_number.__self__._conversion is datatypes.integer and '
                         'type(datatypes.port_number.__self__) is datatypes.RangeCheckedConversion', carries='C09')
b(g, 'byte-size-table', "dict(datatypes.stock_datatypes['byte-size']._d)", {'kb': 1024, 'mb': 1024 ** 2, 'gb': 1024 ** 3}, 'C09')
b(g, 'byte-size-default', "(datatypes.stock_datatypes['byte-size']._default, datatypes.stock_datatypes['byte-size']._keysz)", (1, 2), 'C09')
b(g, 'time-interval-table', "dict(datatypes.stock_datatypes['time-interval']._d)", {'s': 1, 'm': 60, 'h': 3600, 'd': 86400}, 'C09')
b(g, 'time-interval-default', "(datatypes.stock_datatypes['time-interval']._default, datatypes.stock_datatypes['time-interval']._keysz)", (1, 1), 'C09')
b(g, 'suffix-classes', "all(type(datatypes.stock_datatypes[n]) is datatypes.SuffixMultiplier for n in ('byte-size', 'time-interval'))", carries='C09')
b(g, 'default-hosts', "(datatypes.stock_datatypes['inet-address'].DEFAULT_HOST, "
                      "datatypes.stock_datatypes['inet-binding-address'].DEFAULT_HOST, "
                      "datatypes.stock_datatypes['inet-connection-address'].DEFAULT_HOST)", ('', '', '127.0.0.1'), 'C09')
b(g, 'inet-classes', "all(type(datatypes.stock_datatypes[n]) is datatypes.InetAddress for n in "
                     "('inet-address', 'inet-binding-address', 'inet-connection-address'))", carries='C09')
b(g, 'function-types', "(datatypes.stock_datatypes['boolean'] is datatypes.asBoolean, "
                       "datatypes.stock_datatypes['integer'] is datatypes.integer, "
                       "datatypes.stock_datatypes['float'] is datatypes.float_conversion, "
                       "datatypes.stock_datatypes['string'] is str, "
                       "datatypes.stock_datatypes['string-list'] is datatypes.string_list, "
                       "datatypes.stock_datatypes['null'] is datatypes.null_conversion, "
                       "datatypes.stock_datatypes['port-number'] == datatypes.port_number, "
                       "datatypes.stock_datatypes['timedelta'] is datatypes.timedelta, "
                       "datatypes.stock_datatypes['socket-address'] is datatypes.SocketAddress, "
                       "datatypes.stock_datatypes['socket-binding-address'] is datatypes.SocketBindingAddress, "
                       "datatypes.stock_datatypes['socket-connection-address'] is datatypes.SocketConnectionAddress)",
  (True,) * 11, 'C09')
b(g, 'regex-classes', "(type(datatypes.stock_datatypes['basic-key']) is datatypes.BasicKeyConversion, "
                      "type(datatypes.stock_datatypes['identifier']) is datatypes.IdentifierConversion, "
                      "type(datatypes.stock_datatypes['dotted-name']) is datatypes.DottedNameConversion, "
                      "type(datatypes.stock_datatypes['dotted-suffix']) is datatypes.DottedNameSuffixConversion, "
                      "type(datatypes.stock_datatypes['ipaddr-or-hostname']) is datatypes.IpaddrOrHostname)",
  (True,) * 5, 'C09')
b(g, 'registry-get-is-stock', "all(datatypes.Registry().get(n) is datatypes.stock_datatypes[n] or "
                              "datatypes.Registry().get(n) == datatypes.stock_datatypes[n] for n in datatypes.stock_datatypes)",
  carries='C09')
b(g, 'regex-call-not-overridden',
  "all('__call__' not in vars(c) for c in (datatypes.IdentifierConversion, datatypes.DottedNameConversion, "
  "datatypes.DottedNameSuffixConversion, datatypes.ASCIIConversion))", carries='C09')

# ---- C16: the composite handler normalises names with the stock basic-key conversion ----------
g = 'bind:handlers'
b(g, 'registry-basic-key', "datatypes.Registry().get('basic-key') is datatypes.stock_datatypes['basic-key'] and "
                           "type(datatypes.stock_datatypes['basic-key']) is datatypes.BasicKeyConversion", carries='C16')
