"""Contracts for ZConfig/schemaless.py (property C17).  Section.__str__ (the serialiser) is NOT
under contract: the round trip is decided by the bounded stand-in."""
from pyvc.api import (At, Clause, Loop, Raise, REGISTRY, MODELS, assumed, contract, inline, model, prim, spec_module)
import contracts.cfgparser

model('schemaless.Section',
      fields={'data': 'Map[str, Seq[str]]', 'sections': 'Seq[Ref[schemaless.Section]]', 'type': 'Opt[str]',
              'name': 'Opt[str]', 'imports': 'Seq[str]'},
      bases=['Sink'], dict_field='data', defaults={}, late_fields=('imports',))
model('schemaless.Context', fields={'top': 'Ref[schemaless.Section]', 'sections': 'Seq[Ref[schemaless.Section]]'},
      bases=['ParserContext'])
contract('schemaless.Section.addValue', params={'key': 'str', 'value': 'str', 'args': 'Tuple[int, Opt[int], Opt[str]]'},
         modifies=['self.data'],
         ensures=[Clause('self.data == updated(old(self.data), key, (old(self.data)[key] if key in old(self.data) else []) + [value])',
                         carries='C17', label='value-appended-to-the-list-of-its-key-in-file-order-nothing-else-changes')])
contract('schemaless.Context.startSection',
         params={'container': 'Ref[schemaless.Section]', 'type_': 'str', 'name': 'Opt[str]'},
         returns='Ref[schemaless.Section]', fresh_result=True, modifies=['container.sections'],
         ensures=[Clause('fresh(result) and result.type == type_ and result.name == name and len(result.data) == 0 and '
                         'len(result.sections) == 0', carries='C17', label='new-empty-section-of-that-type-and-name'),
                  Clause('container.sections == old(container.sections) + [result]', carries='C17',
                         label='appended-to-its-container-in-file-order')])
contract('schemaless.Context.endSection',
         params={'container': 'Ref[schemaless.Section]', 'type_': 'str', 'name': 'Opt[str]', 'newsect': 'Ref[schemaless.Section]'},
         ensures=[Clause('True')])
contract('schemaless.Context.includeConfiguration',
         params={'section': 'Ref[schemaless.Section]', 'newurl': 'str', 'defines': 'Ref[dict:defines]'},
         ensures=[Clause('False', carries='C17', label='includes-are-refused-not-dropped')],
         raises=[Raise('NotImplementedError', when='True', carries='C17', label='include-refused')])
model('schemaless.Parser', fields={})
contract('schemaless.Parser.handle_define', params={'section': 'Ref[schemaless.Section]', 'rest': 'str'},
         ensures=[Clause('False', carries='C17', label='defines-are-refused-not-dropped')],
         raises=[Raise('NotImplementedError', when='True', carries='C17', label='define-refused')])
contract('schemaless.Section.__init__',
         params={'type': ('Opt[str]', "''"), 'name': ('Opt[str]', "''"), 'data': ('Opt[Map[str, Seq[str]]]', 'None'),
                 'sections': ('Opt[Seq[Ref[schemaless.Section]]]', 'None')},
         ensures=[Clause('self.type == type and self.name == name', carries='C17', label='type-and-name-stored'),
                  Clause('implies(data is None, len(self.data) == 0) and implies(sections is None, len(self.sections) == 0)',
                         carries='C17', label='starts-empty')])

# ---- the schema-less entry point: a new context, the text read into its top section (C17) -------------------------------
model('schemaless.Resource', fields={}, bases=['ParserResource'])
contract('schemaless.Resource.__init__', params={'file': 'Ref[File]', 'url': ('Opt[str]', "''")},
         ensures=[Clause('self.file == file and self.url == url', carries='C17', label='stores-file-and-url')])
contract('schemaless.Context.__init__',
         ensures=[Clause("fresh(self.top) and not self.top.finished and len(self.top.data) == 0 and len(self.top.sections) == 0 and "
                         "self.top.type == '' and self.top.name == ''", carries='C17', label='a-new-empty-untyped-top-section'),
                  Clause('len(self.sections) == 0')])
contract('schemaless.Context.importSchemaComponent', params={'pkgname': 'str'}, modifies=['self.top.imports'],
         ensures=[Clause('implies(pkgname in old(self.top.imports), self.top.imports == old(self.top.imports))', carries='C17',
                         label='an-import-seen-before-is-not-recorded-twice'),
                  Clause('implies(pkgname not in old(self.top.imports), self.top.imports == old(self.top.imports) + [pkgname])',
                         carries='C17', label='a-new-import-is-recorded-after-the-earlier-ones')])
