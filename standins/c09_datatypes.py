"""C09 stand-in: every stock datatype against the independent reference in
standins/refmodel/datatypes_ref.py.

Bounded exhaustive enumeration (all strings up to a per-type length over an
alphabet with one representative per character class the type distinguishes)
plus seeded random Unicode strings and seeded random token compositions.
"""
import itertools
import random

from standins.common import Collector, pmap, use_repo
from standins.refmodel import datatypes_ref as R

PROPERTY = "C09"

KELVIN = "\u212a"     # KELVIN SIGN: lower() == 'k'
LONG_S = "\u017f"     # LATIN SMALL LETTER LONG S: casefold() == 's'
AR1 = "\u0661"        # ARABIC-INDIC DIGIT ONE (non-ASCII decimal digit)
E_ACUTE = "\u00e9"

# (datatype, alphabet, quick length, thorough length)
SPECS = [
    ("basic-key", ["a", "Z", "0", "-", ".", "_", " ", E_ACUTE, AR1], 6, 7),
    ("identifier", ["a", "Z", "_", "0", "-", ".", " ", E_ACUTE, AR1], 6, 7),
    ("dotted-name", ["a", "Z", "_", "0", ".", "-", " ", E_ACUTE], 6, 7),
    ("dotted-suffix", ["a", "Z", "_", "0", ".", "-", " ", E_ACUTE], 6, 7),
    ("boolean", list("yestruonfal") + ["Y", "N", "O", "F", " ", "x"], 5, 5),
    ("integer", ["0", "1", "9", "-", "+", " ", "_", "a", ".", "e", AR1, "x"],
     5, 6),
    ("float", ["0", "1", "9", ".", "e", "E", "-", "+", " ", "_", "i", "n",
               "f", "a", AR1], 5, 6),
    ("port-number", ["0", "3", "5", "6", "7", "-", "+", " ", "_", "a", AR1],
     6, 7),
    ("byte-size", ["0", "1", "k", "K", "m", "M", "g", "G", "b", "B", "-",
                   " ", KELVIN, "_"], 5, 6),
    ("time-interval", ["0", "1", "s", "S", "m", "h", "d", "D", "-", " ", "w",
                       LONG_S], 5, 6),
    ("timedelta", ["1", "9", ".", "e", "w", "d", "s", "W", "x", " ", "-",
                   "i", "n", "f", "a"], 5, 6),
    ("inet-address", ["a", "Z", "0", "1", "6", ":", "[", "]", ".", " ", "-"],
     6, 7),
    ("inet-binding-address",
     ["a", "Z", "0", "1", "6", ":", "[", "]", ".", " ", "-"], 5, 6),
    ("inet-connection-address",
     ["a", "Z", "0", "1", "6", ":", "[", "]", ".", " ", "-"], 5, 6),
    ("socket-address",
     ["a", "Z", "0", "1", "6", ":", "[", "]", ".", " ", "-", "/"], 5, 6),
    ("socket-binding-address",
     ["a", "Z", "0", "1", ":", "[", "]", ".", " ", "/"], 5, 6),
    ("socket-connection-address",
     ["a", "Z", "0", "1", ":", "[", "]", ".", " ", "/"], 5, 6),
    # three alphabets for ipaddr-or-hostname: all classes (short), dotted
    # quads with the octet boundary (long), IPv6 / host names (medium)
    ("ipaddr-or-hostname", ["1", "2", "5", "6", "0", ".", ":", "a", "f", "g",
                            "Z", "_", "-", " ", AR1], 5, 5),
    ("ipaddr-or-hostname", ["0", "2", "5", "6", "."], 9, 10),
    ("ipaddr-or-hostname", ["1", "a", "g", ":", ".", "-", "_", "F"], 7, 8),
    ("string", ["a", " ", E_ACUTE, "\n"], 5, 6),
    ("string-list", ["a", "b", " ", "\t", "\n", "\xa0", "\u2003", "\x1f"],
     6, 7),
    ("null", ["a", " ", E_ACUTE], 5, 6),
]

TOKENS = {
    "boolean": ["yes", "no", "true", "false", "on", "off", "Yes", "TRUE",
                "oN", "y", "1", "0", " ", ""],
    "float": ["inf", "-inf", "Infinity", "nan", "NaN", "1e999", "-1e999",
              "1e308", "1e-400", "1.5", "1_0", " ", "e", AR1, "+"],
    "timedelta": ["4w", "2.5d", "7h", "12m", "0.001s", " ", "  ", "infw",
                  "1e308w", "1e9w", "-1e9d", "999999999d", "1d", "1x", "xx",
                  "w", "1W", "nanw", "1e999s", "\t", "1_0s", "-3h"],
    "byte-size": ["128", "MB", "kb", "Gb", "gB", " ", "-", "1", "0",
                  KELVIN + "b", "b", "_"],
    "time-interval": ["12", "h", "H", "s", "m", "d", "D", " ", "-", "1",
                      LONG_S, "w"],
    "inet": ["host", "Host.Example", "[", "]", ":", "80", "65535", "65536",
             "-1", "::1", "[::1]", "FE80::1", " ", "0", "127.0.0.1", "\t",
             "[FE80::A]:8080", "\u0668\u0660"],
    "socket": ["/", "/tmp/s", "host", ":", "80", "::1", "[::1]", " ",
               "FE80::1", "[", "]"],
    "ipaddr-or-hostname": ["1", "25", "255", "256", "0", "00", "199", "299",
                           ".", ":", "::", "fe80", "FE80", "a", "g", "_", "-",
                           "host", "Example.COM", "1.2.3.4", "::1", "ffff",
                           "::ffff:1.2.3.4", AR1, "\u0662", " ", "\n"],
    "key": ["a", "Z", "9", "-", ".", "_", " ", E_ACUTE, AR1, "key", "\n"],
    "integer": ["1", "0", "-", "+", " ", "_", "65535", "65536", AR1, "x"],
    "other": ["a", " ", "\n", E_ACUTE, "b"],
}


def tokens_for(name):
    if name in TOKENS:
        return TOKENS[name]
    if name.startswith("inet-"):
        return TOKENS["inet"]
    if name.startswith("socket-"):
        return TOKENS["socket"]
    if name in ("basic-key", "identifier", "dotted-name", "dotted-suffix"):
        return TOKENS["key"]
    if name in ("integer", "port-number"):
        return TOKENS["integer"]
    return TOKENS["other"]


UNICODE_POOL = (
    [chr(c) for c in range(0x20, 0x7f)]
    + ["\t", "\n", "\r", "\x0b", "\x0c", "\x00", "\x1c", "\x85", "\xa0",
       "\u2003", "\u2028", "\u3000", "\ufeff"]
    + [chr(c) for c in range(0xc0, 0x100)]
    + ["\u0130", "\u0131", KELVIN, LONG_S, "\u00df", "\u03a3", "\u03c2"]
    + [chr(0x0660 + i) for i in range(10)]          # Arabic-Indic digits
    + [chr(0xff10 + i) for i in range(10)]          # full-width digits
    + [chr(0x0966 + i) for i in range(10)]          # Devanagari digits
    + ["\u00b2", "\u2460", "\u0301", "\u200d", "\uff21", "\uff3f", "\uff0e",
       "\uff1a", "\U0001d7d8", "\U0001f600", "\ud800", "\u4e2d"]
)


def get_converter(name):
    import ZConfig.datatypes
    return ZConfig.datatypes.Registry().get(name)


def normalise(v):
    fam = getattr(v, "family", None)
    if fam is not None and hasattr(v, "address"):
        return (fam, v.address)
    return v


def same(exp, got):
    if isinstance(exp, (R.ApproxTimedelta, R.AnyHost)):
        return exp == got
    if isinstance(exp, tuple):
        return (isinstance(got, tuple) and len(exp) == len(got)
                and all(same(a, b) for a, b in zip(exp, got)))
    if isinstance(exp, list):
        return (isinstance(got, list) and len(exp) == len(got)
                and all(same(a, b) for a, b in zip(exp, got)))
    if isinstance(exp, float):
        return type(got) is float and (exp == got or (exp != exp
                                                      and got != got))
    if isinstance(exp, (bool, int, str)):
        return type(exp) is type(got) and exp == got
    if exp is None:
        return got is None
    return type(exp) is type(got) and exp == got


SPECIAL_SIGS = {
    ("ipaddr-or-hostname", "accepts", "non-ascii-digits"):
        "C09:ipaddr-or-hostname:non-ascii-digits",
}


def sig_for(name, kind, why):
    return SPECIAL_SIGS.get((name, kind, why),
                            "C09:%s:%s-%s" % (name, kind, why))


class Checker:
    def __init__(self, name):
        self.name = name
        self.conv = get_converter(name)
        self.ref = R.REFERENCE[name]
        self.idem = name in R.KEY_NORMALISERS
        self.col = Collector()
        self.nontrivial = 0

    def check(self, s):
        col = self.col
        col.evaluations += 1
        exp = self.ref(s)
        try:
            got = normalise(self.conv(s))
        except Exception as e:      # noqa: BLE001 - the class is the outcome
            cls = type(e)
            if exp.ok or exp.why != "invalid":
                self.nontrivial += 1
            if exp.err and issubclass(cls, exp.err):
                return
            if issubclass(cls, ValueError) or (
                    cls is TypeError and self.name == "timedelta"):
                sig = sig_for(self.name, "rejects", exp.why)
            else:
                sig = "C09:%s:%s" % (self.name, cls.__name__.lower())
            col.violation(sig, "%s(%r) raised %s" % (self.name, s,
                                                      cls.__name__),
                          s, exp.describe(),
                          "raises %s: %s" % (cls.__name__, str(e)[:120]))
            return
        self.nontrivial += 1
        if len(col.samples) < 2 and exp.ok:
            col.samples.append({"datatype": self.name, "input": s,
                                "value": repr(got)})
        if not exp.ok:
            col.violation(sig_for(self.name, "accepts", exp.why),
                          "%s(%r) returned a value" % (self.name, s),
                          s, exp.describe(), "returns %r" % (got,))
            return
        if not any(same(v, got) for v in exp.ok):
            col.violation(sig_for(self.name, "wrong-value", exp.why),
                          "%s(%r) returned the wrong value" % (self.name, s),
                          s, exp.describe(), "returns %r" % (got,))
            return
        if self.idem:
            col.evaluations += 1
            try:
                again = self.conv(got)
            except Exception as e:      # noqa: BLE001
                again = "raises %s" % type(e).__name__
            if again != got:
                col.violation("C09:%s:not-idempotent" % self.name,
                              "conv(conv(s)) != conv(s)", s,
                              "conv(%r) == %r" % (got, got), repr(again))

    def partial(self):
        d = self.col.partial()
        d["nontrivial"] = self.nontrivial
        return d


def work_enum(item):
    """Enumerate alphabet^(0..maxlen) restricted to one prefix."""
    idx, prefix_len, prefix, maxlen, skip = item
    name, alphabet = SPECS[idx][0], SPECS[idx][1]
    ck = Checker(name)
    skips = [(set(a), ln) for a, ln in skip]

    def wanted(s):
        for aset, ln in skips:
            if len(s) <= ln and all(c in aset for c in s):
                return False
        return True

    if prefix is None:
        # all strings shorter than the prefix length
        for n in range(0, prefix_len):
            for t in itertools.product(alphabet, repeat=n):
                s = "".join(t)
                if wanted(s):
                    ck.check(s)
    else:
        for n in range(0, maxlen - prefix_len + 1):
            for t in itertools.product(alphabet, repeat=n):
                s = prefix + "".join(t)
                if wanted(s):
                    ck.check(s)
    return ck.partial()


def work_random(item):
    name, seed, count = item
    rnd = random.Random("%s/%d" % (name, seed))
    ck = Checker(name)
    toks = tokens_for(name)
    alphabet = []
    for spec in SPECS:
        if spec[0] == name:
            alphabet.extend(c for c in spec[1] if c not in alphabet)
    for i in range(count):
        mode = i % 3
        if mode == 0:
            s = "".join(rnd.choice(UNICODE_POOL)
                        for _ in range(rnd.randint(0, 12)))
        elif mode == 1:
            s = "".join(rnd.choice(toks) for _ in range(rnd.randint(1, 5)))
        else:
            # a token composition with one random Unicode / alphabet mutation
            s = "".join(rnd.choice(toks) for _ in range(rnd.randint(1, 4)))
            pos = rnd.randint(0, len(s))
            c = rnd.choice(UNICODE_POOL if rnd.random() < 0.5 else alphabet)
            if rnd.random() < 0.5 and pos < len(s):
                s = s[:pos] + c + s[pos + 1:]
            else:
                s = s[:pos] + c + s[pos:]
        ck.check(s)
    return ck.partial()


def registry_names(col):
    """Registry.get normalises stock names as basic keys."""
    import ZConfig.datatypes
    reg = ZConfig.datatypes.Registry()
    for name in R.REFERENCE:
        col.evaluations += 1
        try:
            a, b = reg.get(name), reg.get(name.upper())
        except Exception as e:      # noqa: BLE001
            a, b = None, "raises %s: %s" % (type(e).__name__, e)
        if a is not b:
            col.violation("C09:registry:name-not-normalised",
                          "Registry.get is not case-insensitive for a stock"
                          " name", name, "same converter", repr((a, b)))


def run(tier, seed):
    use_repo()
    col = Collector()
    thorough = tier == "thorough"
    items = []
    bounds = []
    seen = {}
    for idx, (name, alphabet, lq, lt) in enumerate(SPECS):
        maxlen = lt if thorough else lq
        plen = 2 if maxlen >= 3 else 1
        skip = list(seen.get(name, ()))
        items.append((idx, plen, None, maxlen, skip))
        for t in itertools.product(alphabet, repeat=plen):
            items.append((idx, plen, "".join(t), maxlen, skip))
        seen.setdefault(name, []).append((alphabet, maxlen))
        bounds.append("%s: |A|=%d len<=%d" % (name, len(alphabet), maxlen))
    nrand = 60000 if thorough else 15000
    ritems = [(name, seed, nrand) for name in R.REFERENCE]
    # interleave so that the pool stays busy
    rnd = random.Random(seed)
    rnd.shuffle(items)
    parts = pmap(work_enum, items, chunksize=4)
    parts += pmap(work_random, ritems, chunksize=1)
    nontrivial = 0
    for p in parts:
        col.merge(p)
        nontrivial += p["nontrivial"]
    registry_names(col)
    res = col.result(
        bound="exhaustive: " + "; ".join(bounds)
        + "; random: %d strings per datatype (Unicode pool of %d code points,"
          " length<=12, token compositions, one-character mutations)"
        % (nrand, len(UNICODE_POOL)),
        rule="every string over the per-type alphabet (one representative per"
             " character class) up to the length bound, each string once per"
             " datatype; non-trivial = the real converter or the reference"
             " accepts it, or the reference rejects it for a named reason"
             " other than plain shape mismatch (range, suffix, port, unit,"
             " IPv6 validity ...). Compared: returns vs raises, exception"
             " class, value, idempotence of key normalisers. Input classes"
             " left open by statement and docs: "
             + " | ".join(R.UNSPECIFIED))
    res["distinct_nontrivial"] = nontrivial
    res["samples"] = res["samples"][:5]
    return res
