"""C14 stand-in: loading T with overrides vs loading the hand-edited T."""
import random
from io import StringIO

from standins.common import Collector, pmap, use_repo
from standins.refmodel import schemamodel as sm
from standins.c01_conforms import crash_sig, crc, msg_template, real_load
from standins.c02_tree import compare_tree, real_tree

PROPERTY = "C14"

edit = sm.edit_text     # the statement of C14, acted out on the text

MALFORMED = ["novalue", "a//k=v", "/k=v", "a/=v", "=v", "a/b/", "//=",
             "a/b//c=1"]
BAD_KEYS = ["zzz", "no-such", "zzz", "nokey", "1bad", "a:b", "$$", "_q", "x y"]
VALUES_EXTRA = ["a=b", "$x", "x$$y", "${n}", "", "# v", "<v>", "%v"]


def _mix(rng, s):
    r = rng.random()
    if r < 0.5:
        return s
    return s.upper() if r < 0.8 else s.capitalize()


def _gen_spec(rng, model, root):
    """-> (specifier, fault tags)."""
    tags = []
    node, tm = root, model.top
    path = []
    depth = rng.choice([0, 1, 1, 1, 2, 2, 3])
    for _ in range(depth):
        subs = [it for it in node["items"] if it["k"] == "sect"]
        r = rng.random()
        if not subs or r < 0.08:
            path.append(rng.choice(["nosuch", "leaf1", "n9", "a:b", "$$",
                                    "10.9.9.9", "*"]))
            tags.append("no-section")
            tm = None
            break
        s = rng.choice(subs)
        if s["name"] and rng.random() < 0.6:
            path.append(_mix(rng, s["rawname"]))
        else:
            path.append(_mix(rng, s["type"]))
        node = s
        tm = model.types.get(s["type"])
    # which section does that path really select?
    if tm is not None:
        node, tm = root, model.top
        for comp in path:
            for it in node["items"]:
                if it["k"] == "sect" and comp.lower() in (it["name"],
                                                          it["type"]):
                    node = it
                    break
            tm = model.types[node["type"]]
    key, value = None, None
    if tm is None:
        key, value = "k", "v"
    else:
        keys = [cm for cm in tm.children if not cm.isslot()]
        r = rng.random()
        if keys and r < 0.88:
            cm = rng.choice(keys)
            if cm.iswild():
                key = rng.choice(sm.WILD_KEYS[tm.keytype])
            else:
                key = cm.dname if tm.keytype == "identifier" \
                    else _mix(rng, cm.dname)
            good, bad = sm.VALUE_VOCAB[cm.datatype]
            if bad and rng.random() < 0.2:
                value = rng.choice(bad)
                tags.append("unconvertible")
            else:
                value = rng.choice(good).replace("$$", "$")
                if cm.datatype in ("string", "null") and rng.random() < 0.4:
                    value = rng.choice(VALUES_EXTRA).replace("$$", "$")
        else:
            slots = [cm.dname for cm in tm.children if cm.isslot()
                     and cm.dname]
            key = rng.choice(BAD_KEYS + slots)
            value = "v"
            tags.append("bad-key")
    return "/".join(path + [key]) + "=" + value, tags


def _gen_overrides(rng, model, root):
    specs, tags = [], []
    for _ in range(rng.choice([1, 1, 2, 2, 3, 4])):
        if rng.random() < 0.04:
            specs.append(rng.choice(MALFORMED))
            tags.append("malformed")
            continue
        if specs and rng.random() < 0.2:
            # same key again: several values for one key, in order
            head = specs[-1].split("=", 1)[0]
            if "=" in specs[-1] and "" not in head.split("/"):
                specs.append(head + "=" + rng.choice(["1", "yes", "w2", "x"]))
                tags.append("repeat")
                continue
        s, t = _gen_spec(rng, model, root)
        specs.append(s)
        tags.extend(t)
    return specs, tags


def _compare(ZConfig, col, view, xml, schema, text, specs, tags):
    inp = {"schema": xml, "text": text, "overrides": specs}
    try:
        edited = edit(view, text, specs)
        plan = ("edit", edited)
    except sm.Reject as r:
        plan = ("reject", r.kind)
    a = real_load(ZConfig, schema, text, specs)
    if a[0] == "crash":
        col.violation(crash_sig(a[1]), "override list made an internal"
                      " exception escape", inp, "ConfigurationError or a"
                      " configuration", repr(a[1]))
        return
    if plan[0] == "reject":
        if a[0] == "ok":
            col.violation("C14:accepted:" + plan[1], "override list that must"
                          " be refused (%s) was accepted" % plan[1], inp,
                          "rejected", "accepted")
        elif plan[1] == "override-syntax" and not isinstance(
                a[1], ZConfig.ConfigurationSyntaxError):
            col.violation("C14:malformed-specifier-error-class", "malformed"
                          " specifier not refused as a syntax error", inp,
                          "ConfigurationSyntaxError", msg_template(a[1]))
        return
    b = real_load(ZConfig, schema, plan[1])
    inp["edited"] = plan[1]
    if b[0] == "crash":
        col.violation(crash_sig(b[1]), "edited text made an internal"
                      " exception escape", inp, "ConfigurationError or a"
                      " configuration", repr(b[1]))
        return
    if a[0] == "ok" and b[0] == "ok":
        d = compare_tree(_as_ref(real_tree(b[1])), real_tree(a[1]))
        if d:
            col.violation("C14:tree-differs:" + d[0][0], "overrides and the"
                          " edited text give different values at " + d[0][1],
                          inp, d[0][2], d[0][3])
        return
    if a[0] == "ok":
        col.violation("C14:accepted-but-edit-refused:" + msg_template(b[1]),
                      "override list accepted, edited text refused", inp,
                      msg_template(b[1]), "accepted")
        return
    if b[0] == "ok":
        t = msg_template(a[1])
        if "could not convert basic-key value" in t:
            sig = "C14:path-component-must-be-a-basic-key"
        else:
            sig = "C14:refused-but-edit-accepted:" + t
        col.violation(sig, "override list refused, edited text accepted",
                      inp, "accepted", t)
        return
    # both refused
    only_conv = tags and all(t in ("unconvertible", "repeat") for t in tags)
    if only_conv and isinstance(b[1], ZConfig.DataConversionError) and \
            not isinstance(a[1], ZConfig.DataConversionError):
        sig = "C14:unconvertible-override-not-a-conversion-error"
        if "could not convert basic-key value" in msg_template(a[1]):
            sig = "C14:path-component-must-be-a-basic-key"
        col.violation(sig, "the only fault is an unconvertible override"
                      " value", inp, "DataConversionError",
                      msg_template(a[1]))


def _as_ref(t):
    """A real snapshot in the shape compare_tree wants on its left."""
    if isinstance(t, dict) and "attrlist" in t:
        return {"type": t["type"], "name": t["name"], "wrapped": t["wrapped"],
                "attrs": dict((k, _as_ref(v)) for k, v in t["attrs"].items()),
                "kinds": {}}
    if isinstance(t, list):
        return [_as_ref(x) for x in t]
    if isinstance(t, dict):
        return dict((k, _as_ref(v)) for k, v in t.items())
    return t


def _work(job):
    seed, idx, ntexts, nlists = job
    ZConfig = use_repo()
    from ZConfig.cmdline import ExtendedConfigLoader
    col = Collector()
    rng = random.Random(seed * 13 + idx)
    view = sm.schema_family(seed * 100000 + idx, 1)[0]
    xml = sm.render_xml(view)
    try:
        schema = ZConfig.loadSchemaFile(StringIO(xml))
    except Exception as e:      # noqa: BLE001
        col.case()
        col.violation("C01:generated-schema-refused:" + msg_template(e),
                      "a schema of the family does not load", {"schema": xml},
                      "loads", repr(e))
        return col.partial()
    model = sm.expand(view)
    texts = []
    for t in sm.texts_for(view, seed * 100000 + idx, 60, fault_rate=0.0):
        if len(texts) >= ntexts:
            break
        text = t["text"]
        if "<" not in text or text in texts:
            continue
        if real_load(ZConfig, schema, text)[0] != "ok":
            continue
        texts.append(text)
    tagcount = {}
    for text in texts:
        root = sm._parse_nodes(text)
        for _ in range(nlists):
            specs, tags = _gen_overrides(rng, model, root)
            for t in tags or ["plain"]:
                tagcount[t] = tagcount.get(t, 0) + 1
            sample = None
            if idx == 0 and len(col.samples) < 2:
                sample = {"schema": xml, "text": text, "overrides": specs}
            col.case(crc(xml, text, "\x01".join(specs)), sample)
            _compare(ZConfig, col, view, xml, schema, text, specs, tags)
            # "refused when it is added"
            for s in specs:
                loader = ExtendedConfigLoader(schema)
                try:
                    loader.addOption(s)
                    added = True
                except ZConfig.ConfigurationSyntaxError:
                    added = False
                except Exception as e:      # noqa: BLE001
                    col.violation("C07:%s@cmdline.addOption"
                                  % type(e).__name__, "addOption", s,
                                  "ConfigurationSyntaxError or accepted",
                                  repr(e))
                    continue
                try:
                    sm.split_specifier(s)
                    wellformed = True
                except sm.Reject:
                    wellformed = False
                if added != wellformed:
                    col.violation("C14:addOption-syntax-check", "specifier"
                                  " syntax check when the option is added", s,
                                  "accepted" if wellformed else
                                  "ConfigurationSyntaxError",
                                  "accepted" if added else "refused")
    part = col.partial()
    part["tags"] = tagcount
    return part


def run(tier, seed):
    nschemas, ntexts, nlists = (3200, 4, 8) if tier == "quick" \
        else (24000, 6, 12)
    col = Collector()
    tags = {}
    jobs = [(seed, i, ntexts, nlists) for i in range(nschemas)]
    for part in pmap(_work, jobs):
        col.merge(part)
        for k, n in part.get("tags", {}).items():
            tags[k] = tags.get(k, 0) + n
    return col.result(
        bound="%d schemas of the C01 family x up to %d accepted texts with at"
              " least one section x %d override lists of 1..4 specifiers"
              " (sections addressed by name or type, mixed case, depth 0..3;"
              " existing / wildcard / unknown / invalid keys; convertible,"
              " unconvertible and '$'-bearing values; missing sections;"
              " malformed specifiers)" % (nschemas, ntexts, nlists),
        rule="one evaluation = loadConfigFile(schema, T, overrides) compared"
             " with loadConfigFile(schema, edit(T, overrides)) (outcome,"
             " value tree, error class), edit() written from C14's"
             " statement; distinct by (schema, text, override list);"
             " specifier features generated: " + ", ".join(
                 "%s %d" % kv for kv in sorted(tags.items())))
