"""C01 stand-in: accept / reject of the real loader vs the reference model.

Also hosts the real-side helpers shared by the other stand-ins of this
group (schema construction, guarded load, crash signatures).
"""
import re
import traceback
import zlib
from io import StringIO

from standins.common import Collector, pmap, use_repo
from standins.refmodel import schemamodel as sm

PROPERTY = "C01"


# --------------------------------------------------------------------------
# real-side helpers (shared)

def build_schema(ZConfig, view):
    return ZConfig.loadSchemaFile(StringIO(sm.render_xml(view)))


def crash_sig(exc):
    """Stable root-cause signature for a non-ZConfig exception (C07)."""
    frames = traceback.extract_tb(exc.__traceback__)
    zf = [f for f in frames if "/ZConfig/" in f.filename]
    names = [(f.filename.rsplit("/", 1)[-1][:-3], f.name) for f in zf]
    tname = type(exc).__name__
    ctx = exc.__context__
    if tname == "TypeError" and names and names[-1][0] == "cfgparser" and \
            ctx is not None and isinstance(getattr(ctx, "lineno", None), str):
        # a command-line position (url, line, col) was stored where
        # (line, col, url) is consumed: lineno is the url string
        return "C07:override-position-order"
    outer = [n for n in names if n[0] != "datatypes"]
    if tname == "ValueError" and outer and outer[-1] == ("cmdline", "__init__"):
        # OptionBag.__init__ applies the key type to a path component bare
        return "C07:override-keytype-valueerror"
    where = "%s.%s" % names[-1] if names else "?"
    return "C07:%s@%s" % (tname, where)


def real_load(ZConfig, schema, text, overrides=()):
    """('ok', config, handler) | ('reject', exc) | ('crash', exc)."""
    try:
        cfg, handler = ZConfig.loadConfigFile(schema, StringIO(text),
                                              overrides=list(overrides))
    except ZConfig.ConfigurationError as e:
        return ("reject", e, None)
    except Exception as e:        # noqa: BLE001 -- that is the point
        return ("crash", e, None)
    return ("ok", cfg, handler)


_quoted = re.compile(r"""0x[0-9a-fA-F]+|'[^']*'|"[^"]*"|\d+""")


def msg_template(exc):
    msg = getattr(exc, "message", None) or str(exc)
    msg = msg.split("\n")[0]
    return type(exc).__name__ + ":" + _quoted.sub("_", msg)[:70]


ALT_READINGS = [
    ("slot-search-order-dependent-on-declared-names",
     {"order_dependent_names": True}),
    ("nonfixed-slot-claims-by-type-before-name-rule",
     {"claim_by_type": True}),
    ("slot-search-order-dependent+claims-by-type",
     {"order_dependent_names": True, "claim_by_type": True}),
]


def _all_keys(items, out):
    for it in items:
        if it[0] == "kv":
            out.append(it[1])
        elif it[0] == "sect":
            _all_keys(it[3], out)
    return out


def keytype_disagreement(ZConfig, view, text):
    """A C09 root cause hiding behind a C01 disagreement: some key token of
    the text on which the real key type and the documented one differ."""
    try:
        keys = _all_keys(sm.parse_text(text), [])
    except sm.Reject:
        return None
    used = [view.get("keytype") or "basic-key"]
    for e in view.get("types") or ():
        if e.get("keytype"):
            used.append(e["keytype"])
    reg = ZConfig.datatypes.Registry()
    for kt in sorted(set(used)):
        real = reg.get(kt)
        for k in keys:
            try:
                a = ("ok", sm.KEYTYPES[kt](k))
            except ValueError:
                a = ("bad",)
            try:
                b = ("ok", real(k))
            except ValueError:
                b = ("bad",)
            if a != b:
                if kt == "ipaddr-or-hostname" and len(k) == 1 and b == ("bad",):
                    return "C09:ipaddr-or-hostname:rejects-one-character-hostname"
                return "C09:%s:disagrees-with-documented-key-type" % kt
    return None


def classify(view, text, real_kind, ref, packages=None, overrides=()):
    """Root-cause signature tail for an accept/reject disagreement."""
    for tail, reading in ALT_READINGS:
        alt = sm.ref_load(view, text, overrides, packages, reading)
        if (alt[0] == "ok") == (real_kind == "ok"):
            return tail
    return None


def crc(*parts):
    return zlib.crc32("\x00".join(parts).encode("utf-8", "replace"))


# --------------------------------------------------------------------------

def _work(job):
    seed, idx, ntexts = job
    ZConfig = use_repo()
    col = Collector()
    view = sm.schema_family(seed * 100000 + idx, 1)[0]
    xml = sm.render_xml(view)
    try:
        schema = ZConfig.loadSchemaFile(StringIO(xml))
    except Exception as e:    # noqa: BLE001
        col.case()
        col.violation("C01:generated-schema-refused:" + msg_template(e),
                      "a schema of the family does not load", {"schema": xml},
                      "schema loads", repr(e))
        return col.partial()
    kinds = {}
    for t in sm.texts_for(view, seed * 100000 + idx, ntexts):
        text = t["text"]
        ref = sm.ref_load(view, text)
        if ref[0] == "reject" and ref[1] == "unsupported":
            continue
        real = real_load(ZConfig, schema, text)
        nontrivial = bool(text.strip())
        key = crc(xml, text) if nontrivial else None
        sample = None
        if idx < 3 and len(col.samples) < 2:
            sample = {"schema": xml, "text": text, "faults": t["faults"],
                      "ref": ref[0] if ref[0] == "ok" else list(ref),
                      "real": real[0]}
        col.case(key, sample)
        k = ref[1] if ref[0] == "reject" else "ok"
        kinds[k] = kinds.get(k, 0) + 1
        inp = {"schema": xml, "text": text}
        if real[0] == "crash":
            col.violation(crash_sig(real[1]), "internal exception escaped",
                          inp, "ConfigurationError or a configuration",
                          repr(real[1]))
            continue
        if (real[0] == "ok") != (ref[0] == "ok"):
            c09 = keytype_disagreement(ZConfig, view, text)
            if c09:
                col.violation(c09, "key type differs from its documentation",
                              inp, "ref: " + str(ref[:2] if ref[0] != "ok"
                                                 else "accepted"),
                              real[0] if real[0] == "ok"
                              else msg_template(real[1]))
                continue
            tail = classify(view, text, real[0], ref)
            if ref[0] == "ok":
                sig = "C01:" + (tail or "rejects-conforming:"
                                + msg_template(real[1]))
                col.violation(sig, "conforming text refused", inp, "accepted",
                              msg_template(real[1]))
            else:
                sig = "C01:" + (tail or "accepts-nonconforming:" + ref[1])
                col.violation(sig, "non-conforming text accepted", inp,
                              "rejected (%s)" % ref[1], "accepted")
    part = col.partial()
    part["kinds"] = kinds
    return part


def run(tier, seed):
    nschemas, ntexts = (3000, 50) if tier == "quick" else (40000, 60)
    col = Collector()
    kinds = {}
    for part in pmap(_work, [(seed, i, ntexts) for i in range(nschemas)]):
        col.merge(part)
        for k, n in part.get("kinds", {}).items():
            kinds[k] = kinds.get(k, 0) + n
    res = col.result(
        bound="%d generated schemas (nesting <= 3; key / multikey / '+' key /"
              " '+' multikey, with and without defaults and required; section"
              " and multisection slots named fixed / '*' / '+'; 0..2 abstract"
              " types with 0..3 implementers; derived types, some changing"
              " the key type; key types basic-key / identifier /"
              " ipaddr-or-hostname) x %d generated texts each (conforming, or"
              " with 1..3 simultaneous faults out of %d fault kinds);"
              " datatype corner cases are left to C09"
              % (nschemas, ntexts, len(sm.FAULTS)),
        rule="texts are rendered from a document generated against the"
             " reference model, then mutated; a case is one (schema, text)"
             " pair, distinct by content, non-trivial when the text is not"
             " empty; reference outcomes: " + ", ".join(
                 "%s %d" % kv for kv in sorted(kinds.items())))
    return res
