"""C11 stand-in (relational): a schema written with composition features
behaves like its mechanically produced expansion, for every generated text.

A scenario is a set of documents: three component packages (diamond import
graph), 0..3 base schemas and a main schema.  Section types may extend each
other (chains <= 3, also across documents); datatype / keytype names are
dotted names of converters in a temporary package, spelled absolutely or
relatively to the prefix of the enclosing schema / component / sectiontype
element (prefixes composing outward).  The *composed* form is loaded through
the main schema (schema-level ``extends``, ``<import>``, ``extends=``,
``prefix=``).  The *expansion* is one plain schema document: every type
defined in place once, base keys and sections written out first, key type and
datatype inherited unless overridden, 'implements' not inherited, every dotted
name written out in full.  For each scenario the schema load outcome and, for a
set of generated texts, the ``ZConfig.loadConfigFile`` outcome (value tree or
error class) must be identical.
"""
import io
import os
import random
import shutil
import sys
import tempfile

from standins.common import Collector, pmap, use_repo

PROPERTY = "C11"

CONV_SRC = '''\
LEVEL = __name__


class W:
    def __init__(self, tag, v):
        self.tag = tag
        self.v = v


def tag(v):
    return (LEVEL, "tag", v)


def num(v):
    return (LEVEL, "num", int(v))


def fold(v):
    """A folding key type."""
    if not (v[:1].isalpha() and v.replace("-", "").isalnum() and v.isascii()):
        raise ValueError("bad key %r" % (v,))
    return v.lower()


def exact(v):
    """A case-preserving key type."""
    if not (v.isidentifier() and v.isascii()):
        raise ValueError("bad key %r" % (v,))
    return v


def sect(v):
    return W(LEVEL, v)
'''

NGROUPS = 97

STOCK_KEYTYPES = ["basic-key", "identifier", "ipaddr-or-hostname"]
STOCK_VALUETYPES = [None, None, "integer", "boolean", "string-list",
                    "port-number", "byte-size"]
FOLDING = {"basic-key": True, "identifier": False,
           "ipaddr-or-hostname": True}


def folds(keytype):
    if keytype in FOLDING:
        return FOLDING[keytype]
    return keytype.endswith(".fold")


# ------------------------------------------------------------------ scenario

class TypeDef:
    def __init__(self, name, abstract=False):
        self.name = name
        self.abstract = abstract
        self.extends = None
        self.implements = None
        self.keytype = None         # explicit, absolute; None = inherit
        self.datatype = None
        self.items = []
        self.doc = None


class Item:
    def __init__(self, kind, name, attribute=None, datatype=None,
                 default=None, defaults=(), required=False, type=None):
        self.kind = kind
        self.name = name
        self.attribute = attribute
        self.datatype = datatype
        self.default = default
        self.defaults = list(defaults)      # [(key or None, text)]
        self.required = required
        self.type = type


class Doc:
    def __init__(self, kind, ident):
        self.kind = kind            # component | base | main
        self.ident = ident          # package name / file name
        self.imports = []           # Docs (components)
        self.types = []
        self.items = []
        self.keytype = None
        self.datatype = None
        self.extends = []           # base Docs (main only)


class Scenario:
    def __init__(self, rnd, root, idx):
        self.rnd = rnd
        self.root = root            # root package of the converters
        self.idx = idx
        self.uid = 0
        self.types = {}             # name -> TypeDef
        self.refold = False
        self.features = set()

    # names valid under every key type, with letter case to fold
    def name(self):
        self.uid += 1
        return self.rnd.choice(["k%d", "Key%d", "kX%d"]) % self.uid

    def attr(self):
        self.uid += 1
        return "at%d" % self.uid

    def conv(self, what):
        lvl = self.rnd.choice(["", ".sub", ".sub.sub"])
        self.features.add("prefix")
        return "%s%s.conv.%s" % (self.root, lvl, what)

    def value_type(self):
        r = self.rnd.random()
        if r < 0.3:
            return self.conv(self.rnd.choice(["tag", "num"]))
        return self.rnd.choice(STOCK_VALUETYPES)

    def key_type(self):
        r = self.rnd.random()
        if r < 0.3:
            return self.conv(self.rnd.choice(["fold", "exact"]))
        return self.rnd.choice(STOCK_KEYTYPES)

    def effective_keytype(self, t):
        while t is not None:
            if t.keytype:
                return t.keytype
            t = self.types[t.extends] if t.extends else None
        return "basic-key"

    def all_items(self, t):
        out = []
        if t.extends:
            out.extend(self.all_items(self.types[t.extends]))
        out.extend(t.items)
        return out

    def chain(self, t):
        n = 0
        while t.extends:
            n += 1
            t = self.types[t.extends]
        return n

    def depth(self, t):
        if t.abstract:
            return 1
        d = 1
        for it in self.all_items(t):
            if it.type:
                d = max(d, 1 + self.depth(self.types[it.type]))
        return d

    def make_items(self, has_wild, visible, maxdepth, n):
        rnd = self.rnd
        items = []
        for _ in range(n):
            kind = rnd.choice(["key", "key", "multikey", "wkey", "wmultikey",
                               "section", "multisection"])
            if kind in ("key", "multikey"):
                nm = self.name()
                it = Item(kind, nm, datatype=self.value_type())
                if rnd.random() < 0.3:
                    it.attribute = self.attr()
                r = rnd.random()
                if kind == "key":
                    if r < 0.4:
                        it.default = rnd.choice(["7", "on", "abc"])
                    elif r < 0.6:
                        it.required = True
                else:
                    if r < 0.4:
                        it.defaults = [(None, rnd.choice(["7", "off"]))
                                       for _ in range(rnd.randint(1, 2))]
                    elif r < 0.55:
                        it.required = True
                items.append(it)
            elif kind in ("wkey", "wmultikey"):
                if has_wild[0]:
                    continue
                has_wild[0] = True
                it = Item("key" if kind == "wkey" else "multikey", "+",
                          attribute=self.attr(), datatype=self.value_type())
                r = rnd.random()
                if r < 0.55:
                    self.uid += 1
                    keys = ["Dk%d" % self.uid, "dj%d" % self.uid]
                    if rnd.random() < 0.08:
                        keys[1] = keys[0].lower()     # may collide on folding
                    it.defaults = [(k, rnd.choice(["7", "on"]))
                                   for k in keys[:rnd.randint(1, 2)]]
                elif r < 0.7:
                    it.required = True
                items.append(it)
            else:
                cands = [t for t in visible if self.depth(t) <= maxdepth]
                if not cands:
                    continue
                t = rnd.choice(cands)
                form = rnd.choice(["fixed", "*", "+"]) if kind == "section" \
                    else rnd.choice(["*", "+"])
                if form == "fixed":
                    it = Item(kind, self.name(), type=t.name)
                    if rnd.random() < 0.3:
                        it.attribute = self.attr()
                else:
                    it = Item(kind, form, attribute=self.attr(), type=t.name)
                it.required = rnd.random() < 0.2
                items.append(it)
        return items

    def make_types(self, doc, visible, n, prefix):
        rnd = self.rnd
        for j in range(n):
            name = "%st%d" % (prefix, j)
            t = TypeDef(name)
            t.doc = doc
            bases = [b for b in visible if not b.abstract
                     and self.chain(b) < 2]
            if bases and rnd.random() < 0.55:
                t.extends = rnd.choice(bases).name
                self.features.add("extends")
            if rnd.random() < 0.4:
                t.keytype = self.key_type()
            if rnd.random() < 0.3:
                t.datatype = self.conv("sect")
            abstracts = [a for a in visible if a.abstract]
            # implementers stay flat so that abstract slots have depth 1
            if abstracts and rnd.random() < 0.5 and not (
                    t.extends and self.depth(self.types[t.extends]) > 1):
                t.implements = rnd.choice(abstracts).name
            self.types[name] = t
            inherited = self.all_items(t)
            has_wild = [any(i.name == "+" and i.kind in ("key", "multikey")
                            for i in inherited)]
            maxdepth = 2
            if t.implements or (t.extends and self._implemented(t.extends)):
                maxdepth = 0
            t.items = self.make_items(has_wild, list(visible), maxdepth,
                                      rnd.randint(0, 4))
            if t.extends and t.keytype:
                b = self.types[t.extends]
                if folds(t.keytype) != folds(self.effective_keytype(b)) and \
                        any(i.name not in "*+" and i.name != i.name.lower()
                            for i in inherited):
                    self.refold = True
            doc.types.append(t)
            visible.append(t)

    def _implemented(self, name):
        t = self.types[name]
        while t:
            if t.implements:
                return True
            t = self.types[t.extends] if t.extends else None
        return False

    def build(self):
        rnd = self.rnd
        # sharded so that no directory on the import path grows large
        group = "%s.g%d" % (self.root, self.idx % NGROUPS)
        p3 = Doc("component", "%s.s%dp3" % (group, self.idx))
        p1 = Doc("component", "%s.s%dp1" % (group, self.idx))
        p2 = Doc("component", "%s.s%dp2" % (group, self.idx))
        for i in range(rnd.randint(0, 2)):
            a = TypeDef("c3abs%d" % i, abstract=True)
            a.doc = p3
            self.types[a.name] = a
            p3.types.append(a)
        vis3 = list(p3.types)
        self.make_types(p3, vis3, rnd.randint(1, 2), "c3")
        p1.imports = [p3]
        vis1 = list(vis3)
        self.make_types(p1, vis1, rnd.randint(0, 2), "c1")
        p2.imports = [p3] if rnd.random() < 0.7 else [p1, p3]
        vis2 = list(vis3) + ([t for t in p1.types] if p1 in p2.imports
                             else [])
        self.make_types(p2, vis2, rnd.randint(0, 2), "c2")
        self.comps = [p3, p1, p2]
        self.bases = []
        main = Doc("main", "main.xml")
        nb = rnd.choice([0, 1, 1, 2, 3])
        main_kt = rnd.choice([None, None] + STOCK_KEYTYPES[:2]
                             + [self.root + ".conv.fold"])
        base_kt = rnd.choice([None, "identifier", "basic-key"]) if nb else None
        for k in range(nb):
            self.features.add("schema-extends")
            b = Doc("base", "base%d.xml" % k)
            b.keytype = base_kt
            b.imports = rnd.sample(self.comps, rnd.randint(0, 2))
            vis = self.visible_from(b.imports)
            self.make_types(b, vis, rnd.randint(0, 2), "b%d" % k)
            # The order in which several bases are merged is not documented
            # (the code merges them last-listed first).  Only one base of a
            # scenario declares top-level section slots, and only over its
            # own types, so that slots of different bases never compete for
            # a section; keys cannot compete.
            slot_types = list(b.types) if not any(
                i.type for o in self.bases for i in o.items) else []
            b.items = self.make_items([True], slot_types, 3,
                                      rnd.randint(0, 3))
            self.bases.append(b)
        main.extends = list(self.bases)
        main.keytype = main_kt
        if rnd.random() < 0.25:
            main.datatype = self.conv("sect")
        main.imports = rnd.sample([p1, p2, p3], rnd.randint(1, 3))
        if p1 in main.imports or p2 in main.imports:
            self.features.add("import")
        vis = self.visible_from(main.imports)
        for b in self.bases:
            for d in [b] + self.closure(b.imports):
                for t in d.types:
                    if t not in vis:
                        vis.append(t)
        self.make_types(main, vis, rnd.randint(0, 3), "m")
        main.items = self.make_items([False], vis, 3, rnd.randint(1, 5))
        self.main = main
        eff_main = main.keytype or base_kt or "basic-key"
        for b in self.bases:
            if folds(b.keytype or "basic-key") != folds(eff_main) and any(
                    i.name not in "*+" and i.name != i.name.lower()
                    for i in b.items):
                self.refold = True
        self.main_keytype = eff_main
        return self

    def closure(self, docs):
        out = []

        def visit(d):
            for i in d.imports:
                visit(i)
            if d not in out:
                out.append(d)
        for d in docs:
            visit(d)
        return out

    def visible_from(self, imports):
        vis = []
        for d in self.closure(imports):
            vis.extend(d.types)
        return vis


# ----------------------------------------------------------------- rendering

def esc(s):
    return (s.replace("&", "&amp;").replace("<", "&lt;")
            .replace(">", "&gt;").replace('"', "&quot;"))


def attrs_xml(pairs):
    return "".join(' %s="%s"' % (k, esc(v)) for k, v in pairs if v is not None)


def item_xml(it, spell, pad):
    a = [("name", it.name)]
    if it.type:
        a.insert(0, ("type", it.type))
    a.append(("attribute", it.attribute))
    if it.kind in ("key", "multikey"):
        a.append(("datatype", spell(it.datatype) if it.datatype else None))
    if it.required:
        a.append(("required", "yes"))
    if it.default is not None:
        a.append(("default", it.default))
    if it.defaults:
        kids = "".join('%s  <default%s>%s</default>\n'
                       % (pad, attrs_xml([("key", k)]), esc(v))
                       for k, v in it.defaults)
        return "%s<%s%s>\n%s%s</%s>\n" % (pad, it.kind, attrs_xml(a), kids,
                                          pad, it.kind)
    return "%s<%s%s/>\n" % (pad, it.kind, attrs_xml(a))


class Composer:
    """Renders the documents of a scenario with prefixes, relative names,
    extends and imports."""

    def __init__(self, scn, rnd):
        self.scn = scn
        self.rnd = rnd

    def pick_prefix(self, outer):
        """(attribute text or None, effective prefix)."""
        root = self.scn.root
        r = self.rnd.random()
        if r < 0.35:
            return None, outer
        target = self.rnd.choice([root, root + ".sub", root + ".sub.sub"])
        if outer and target.startswith(outer + ".") and \
                self.rnd.random() < 0.7:
            return "." + target[len(outer) + 1:], target
        return target, target

    def speller(self, prefix):
        def spell(name):
            if name and "." in name and prefix and \
                    name.startswith(prefix + ".") and \
                    self.rnd.random() < 0.8:
                return "." + name[len(prefix) + 1:]
            return name
        return spell

    def type_xml(self, t, outer):
        if t.abstract:
            return '  <abstracttype name="%s"/>\n' % t.name
        pattr, eff = self.pick_prefix(outer)
        spell = self.speller(eff)
        a = [("name", t.name), ("prefix", pattr), ("extends", t.extends),
             ("implements", t.implements),
             ("keytype", spell(t.keytype) if t.keytype else None),
             ("datatype", spell(t.datatype) if t.datatype else None)]
        body = "".join(item_xml(i, spell, "    ") for i in t.items)
        return "  <sectiontype%s>\n%s  </sectiontype>\n" % (attrs_xml(a),
                                                          body)

    def imports_xml(self, doc, eff):
        out = []
        for d in doc.imports:
            pkg = d.ident
            if eff and pkg.startswith(eff + ".") and self.rnd.random() < 0.6:
                pkg = "." + pkg[len(eff) + 1:]
            out.append('  <import package="%s"/>\n' % pkg)
            if self.rnd.random() < 0.2:     # importing twice is harmless
                out.append('  <import package="%s"/>\n' % d.ident)
        return "".join(out)

    def doc_xml(self, doc):
        pattr, eff = self.pick_prefix("")
        spell = self.speller(eff)
        if doc.kind == "component":
            head = "<component%s>\n" % attrs_xml([("prefix", pattr)])
            tail = "</component>\n"
        else:
            a = [("prefix", pattr)]
            if doc.extends:
                a.append(("extends", " ".join(b.ident for b in doc.extends)))
            a.append(("keytype", spell(doc.keytype) if doc.keytype else None))
            a.append(("datatype",
                      spell(doc.datatype) if doc.datatype else None))
            head = "<schema%s>\n" % attrs_xml(a)
            tail = "</schema>\n"
        body = self.imports_xml(doc, eff)
        body += "".join(self.type_xml(t, eff) for t in doc.types)
        body += "".join(item_xml(i, spell, "  ") for i in doc.items)
        return head + body + tail


def expand(scn):
    """The single plain schema document equivalent to the scenario."""
    def ident(name):
        return name

    docs = scn.closure(scn.main.imports)
    for b in scn.bases:
        for d in scn.closure(b.imports):
            if d not in docs:
                docs.append(d)
    # components in dependency order, then bases, then the main schema
    ordered = []
    for d in scn.comps:
        if d in docs:
            ordered.append(d)
    ordered += scn.bases + [scn.main]
    out = []
    sa = [("keytype", scn.main_keytype), ("datatype", scn.main.datatype)]
    out.append("<schema%s>\n" % attrs_xml(sa))
    for d in ordered:
        for t in d.types:
            if t.abstract:
                out.append('  <abstracttype name="%s"/>\n' % t.name)
                continue
            kt = dt = None
            b = t
            while b is not None and (kt is None or dt is None):
                kt = kt or b.keytype
                dt = dt or b.datatype
                b = scn.types[b.extends] if b.extends else None
            a = [("name", t.name), ("implements", t.implements),
                 ("keytype", kt), ("datatype", dt)]
            body = "".join(item_xml(i, ident, "    ")
                           for i in scn.all_items(t))
            out.append("  <sectiontype%s>\n%s  </sectiontype>\n"
                       % (attrs_xml(a), body))
    for d in scn.bases + [scn.main]:
        out.extend(item_xml(i, ident, "  ") for i in d.items)
    out.append("</schema>\n")
    return "".join(out)


# --------------------------------------------------------------------- texts

VALUES = ["7", "on", "abc", "", "x y", "-5", "99999", "1kb", "Off"]
GOOD_VALUE = {None: ["abc", "x y", "7"], "integer": ["7", "-5"],
              "boolean": ["on", "Off"], "string-list": ["x y", "abc"],
              "port-number": ["80", "7"], "byte-size": ["1kb", "7"]}


def good_value(rnd, datatype):
    if datatype in GOOD_VALUE:
        return rnd.choice(GOOD_VALUE[datatype])
    if datatype.endswith(".num"):
        return rnd.choice(["7", "-5"])
    return rnd.choice(["abc", "7"])


def vary(rnd, name):
    r = rnd.random()
    if r < 0.6:
        return name
    if r < 0.75:
        return name.lower()
    if r < 0.9:
        return name.upper()
    return name.swapcase()


def gen_text(scn, rnd):
    """A text over the scenario's vocabulary: mostly conforming, with a
    fault rate that rises with ``wild`` (several simultaneous faults occur)."""
    lines = []
    all_types = list(scn.types.values())
    wild = rnd.choice([0.0, 0.0, 0.03, 0.1, 0.3])
    counter = [0]

    def fault():
        return rnd.random() < wild

    def body(items, depth, pad):
        pool = list(items)
        rnd.shuffle(pool)
        for it in pool:
            multi = it.kind in ("multikey", "multisection") or (
                it.name == "+" and it.kind == "key")
            if it.required:
                reps = 0 if fault() else 1
            else:
                reps = rnd.choice([0, 1, 1])
            if reps and (fault() or (multi and rnd.random() < 0.4)):
                reps += 1
            for _ in range(reps):
                if it.kind in ("key", "multikey"):
                    if it.name == "+":
                        counter[0] += 1
                        nm = rnd.choice(["wk%d", "WK%d", "Wk%d"]) % (
                            counter[0] if not fault() else 1)
                        if fault():
                            nm = rnd.choice(["Wk-2", "w_3", "x.y", "Dk1"])
                    else:
                        nm = vary(rnd, it.name)
                    val = rnd.choice(VALUES) if fault() \
                        else good_value(rnd, it.datatype)
                    lines.append("%s%s %s" % (pad, nm, val))
                else:
                    section(it, depth, pad)
        if fault():
            lines.append("%snosuchkey 1" % pad)
        if fault() and all_types:
            t = rnd.choice(all_types)
            lines.append("%s<%s stray>" % (pad, t.name))
            lines.append("%s</%s>" % (pad, t.name))

    def section(it, depth, pad):
        slot = scn.types[it.type]
        if slot.abstract:
            impls = [t for t in all_types if t.implements == slot.name]
            # types derived from an implementer do not implement
            derived = [t for t in all_types if t.extends and
                       scn.types[t.extends].implements == slot.name
                       and t.implements != slot.name]
            good, odd = impls, derived + [slot]
        else:
            derived = [t for t in all_types if t.extends == slot.name]
            good, odd = [slot], derived
        if good and not (fault() or (odd and rnd.random() < 0.1)):
            t = rnd.choice(good)
        elif odd and rnd.random() < 0.7:
            t = rnd.choice(odd)
        else:
            t = rnd.choice(all_types)
        if it.name in ("*", "+"):
            counter[0] += 1
            nm = "sn%d" % counter[0]
            if it.name == "*" and rnd.random() < 0.5:
                nm = ""
            if fault():
                nm = rnd.choice(["", "sn1", "SN1", "+", "*"])
        else:
            nm = vary(rnd, it.name) if not fault() else "other"
        lines.append("%s<%s%s>" % (pad, vary(rnd, t.name),
                                   " " + nm if nm else ""))
        if depth < 4 and not t.abstract:
            body(scn.all_items(t), depth + 1, pad + "  ")
        lines.append("%s</%s>" % (pad, t.name))

    top = []
    for b in scn.bases:
        top.extend(b.items)
    top.extend(scn.main.items)
    body(top, 1, "")
    return "\n".join(lines) + "\n"


# ------------------------------------------------------------------ observing

def plain(v, seen=0):
    if seen > 12:
        return "<deep>"
    if hasattr(v, "getSectionAttributes"):
        d = {}
        for a in v.getSectionAttributes():
            d[a] = plain(getattr(v, a), seen + 1)
        return ("section", v.getSectionType(), v.getSectionName(),
                sorted(d.items()))
    if hasattr(v, "tag") and hasattr(v, "v"):
        return ("W", v.tag, plain(v.v, seen + 1))
    if isinstance(v, dict):
        return ("dict", sorted((k, plain(x, seen + 1)) for k, x in v.items()))
    if isinstance(v, (list, tuple)):
        return (type(v).__name__, [plain(x, seen + 1) for x in v])
    return v


def load_schema(path_or_text, is_path):
    import ZConfig
    try:
        if is_path:
            return "ok", ZConfig.loadSchema(path_or_text)
        return "ok", ZConfig.loadSchemaFile(io.StringIO(path_or_text))
    except ZConfig.SchemaError as e:
        return "SchemaError", str(e)[:200]
    except ZConfig.ConfigurationError as e:
        return type(e).__name__, str(e)[:200]
    except Exception as e:      # noqa: BLE001
        return "raw:" + type(e).__name__, str(e)[:200]


def load_config(schema, text):
    import ZConfig
    try:
        cfg, _h = ZConfig.loadConfigFile(schema, io.StringIO(text))
    except ZConfig.ConfigurationError as e:
        return ("rejected", type(e).__name__)
    except Exception as e:      # noqa: BLE001
        return ("raw", type(e).__name__)
    return ("accepted", plain(cfg))


def work(item):
    seed, idx, tmp, root, ntexts = item
    use_repo()
    if tmp not in sys.path:
        sys.path.insert(0, tmp)
    rnd = random.Random("c11/%d/%d" % (seed, idx))
    col = Collector()
    scn = Scenario(rnd, root, idx).build()
    comp = Composer(scn, rnd)
    sdir = os.path.join(tmp, "scn%d" % (idx % NGROUPS), "scn%d" % idx)
    os.mkdir(sdir)
    files = {}
    for d in scn.comps:
        pdir = os.path.join(tmp, *d.ident.split("."))
        os.mkdir(pdir)
        with open(os.path.join(pdir, "__init__.py"), "w"):
            pass
        files[d.ident] = comp.doc_xml(d)
        with open(os.path.join(pdir, "component.xml"), "w") as f:
            f.write(files[d.ident])
    for d in scn.bases + [scn.main]:
        files[d.ident] = comp.doc_xml(d)
        with open(os.path.join(sdir, d.ident), "w") as f:
            f.write(files[d.ident])
    expanded = expand(scn)
    shown = {"composed": files, "expanded": expanded}
    feats = "+".join(sorted(scn.features)) or "plain"
    if scn.refold:
        cls = "keytype-override:inherited-names-keep-base-normal-form"
    else:
        cls = "composed-differs-from-expansion"
    distinct = set()
    oc, sc = load_schema(os.path.join(sdir, "main.xml"), True)
    oe, se = load_schema(expanded, False)
    col.case(sample={"features": feats, "main.xml": files["main.xml"],
                     "expanded": expanded} if idx < 2 else None)
    if oc != oe:
        col.violation("C11:schema-load:%s" % cls,
                      "composed and expanded schema load differently"
                      " (features: %s)" % feats,
                      shown, "expanded: %s %s" % (oe, se if oe != "ok" else ""),
                      "composed: %s %s" % (oc, sc if oc != "ok" else ""))
    if oc == "ok" and oe == "ok":
        distinct.add("%d|schema" % idx)
        trnd = random.Random("c11t/%d/%d" % (seed, idx))
        seen = set()
        for _ in range(ntexts):
            text = gen_text(scn, trnd)
            if text in seen:
                continue
            seen.add(text)
            a = load_config(sc, text)
            b = load_config(se, text)
            col.case()
            if a[0] == "accepted" or b[0] == "accepted":
                distinct.add("%d|%d" % (idx, len(seen)))
            else:
                distinct.add("%d|%s" % (idx, a[1]))
            if a != b:
                col.violation(
                    "C11:%s" % cls,
                    "same text, different outcome against composed and"
                    " expanded schema (features: %s)" % feats,
                    dict(shown, text=text), "expanded: %r" % (b,),
                    "composed: %r" % (a,))
            if a[0] == "raw":
                pass    # raw exceptions belong to C01/C07, not to C11
    elif oc == oe:
        distinct.add("%d|schema-rejected|%s" % (idx, oc))
    d = col.partial()
    d["distinct"] = list(distinct)
    d["stats"] = (1, int(scn.refold), int(oc == "ok" and oe == "ok"))
    return d


# schema-level `extends` CHAINS (a base that itself extends a base): the key type / datatype a
# middle schema merely inherits must reach the top schema exactly as if it had been written there
CHAINS = [
    # (files, top, expanded single document, texts)
    ({"base.xml": '<schema keytype="identifier"><key name="Port" datatype="integer"/></schema>',
      "mid.xml": '<schema extends="base.xml"><key name="HostName"/></schema>',
      "top.xml": '<schema extends="mid.xml"><key name="Extra"/></schema>'},
     "top.xml",
     '<schema keytype="identifier"><key name="Port" datatype="integer"/><key name="HostName"/><key name="Extra"/></schema>',
     ["Port 1\nHostName h\nExtra e\n", "port 1\n", "Port 1\n", "hostname h\n", "Extra x\nExtra y\n", ""]),
    ({"base.xml": '<schema keytype="identifier"><key name="Port" datatype="integer"/></schema>',
      "mid.xml": '<schema extends="base.xml"><key name="HostName"/></schema>',
      "other.xml": '<schema keytype="identifier"><key name="Other"/></schema>',
      "top.xml": '<schema extends="mid.xml other.xml"><key name="Extra"/></schema>'},
     "top.xml",
     '<schema keytype="identifier"><key name="Port" datatype="integer"/><key name="HostName"/><key name="Other"/>'
     '<key name="Extra"/></schema>',
     ["Port 1\nOther o\n", "other o\n", "Extra e\nHostName h\n"]),
    ({"b0.xml": '<schema keytype="ipaddr-or-hostname"><key name="+" attribute="hosts"/></schema>',
      "b1.xml": '<schema extends="b0.xml"></schema>',
      "b2.xml": '<schema extends="b1.xml"></schema>',
      "top.xml": '<schema extends="b2.xml"><key name="xx"/></schema>'},
     "top.xml",
     '<schema keytype="ipaddr-or-hostname"><key name="+" attribute="hosts"/><key name="xx"/></schema>',
     ["A.Example.COM v\n", "a.example.com v\nA.Example.Com w\n", "not_a_host! v\n", "xx 1\n"]),
]


def chains(col):
    ZConfig = use_repo()
    root = tempfile.mkdtemp(prefix="c11c-")
    try:
        for n, (files, top, expanded, texts) in enumerate(CHAINS):
            sub = os.path.join(root, "c%d" % n)
            os.makedirs(sub)
            for name, xml in files.items():
                with open(os.path.join(sub, name), "w", encoding="utf-8") as f:
                    f.write(xml)

            def load(which):
                try:
                    if which == "composed":
                        return ("ok", ZConfig.loadSchema(os.path.join(sub, top)))
                    return ("ok", ZConfig.loadSchemaFile(io.StringIO(expanded)))
                except ZConfig.ConfigurationError as e:
                    return ("rejected", type(e).__name__ + ": " + str(e)[:120])
            a, b = load("composed"), load("expanded")
            col.case(("chain", n, "schema"))
            inp = {"files": files, "top": top, "expanded": expanded}
            if a[0] != b[0]:
                col.violation("C11:extends-chain-schema-outcome-differs",
                              "a chain of schema-level extends is accepted / rejected differently from the single "
                              "merged document", inp, list(b) if b[0] != "ok" else ["ok"], list(a) if a[0] != "ok" else ["ok"])
                continue
            if a[0] != "ok":
                continue
            for text in texts:
                col.case(("chain", n, text))

                def outcome(schema):
                    try:
                        cfg, _ = ZConfig.loadConfigFile(schema, io.StringIO(text))
                    except ZConfig.ConfigurationError as e:
                        return ["rejected", type(e).__name__]
                    return ["ok", sorted((k, repr(getattr(cfg, k))) for k in cfg.getSectionAttributes())]
                oa, ob = outcome(a[1]), outcome(b[1])
                if oa != ob:
                    col.violation("C11:extends-chain-differs-from-merged-document",
                                  "a text loads differently against a chain of schema-level extends and against the "
                                  "single merged document (inherited key type / datatype lost on the way?)",
                                  dict(inp, text=text), ob, oa)
    finally:
        shutil.rmtree(root, ignore_errors=True)


def run(tier, seed):
    use_repo()
    col = Collector()
    chains(col)
    nscn = 12000 if tier == "thorough" else 1600
    ntexts = 60 if tier == "thorough" else 40
    tmp = tempfile.mkdtemp(prefix="c11_")
    root = "c11r%d" % seed
    try:
        d = os.path.join(tmp, root)
        for _lvl in range(3):
            os.mkdir(d)
            with open(os.path.join(d, "__init__.py"), "w"):
                pass
            with open(os.path.join(d, "conv.py"), "w") as f:
                f.write(CONV_SRC)
            d = os.path.join(d, "sub")
        for g in range(NGROUPS):
            os.mkdir(os.path.join(tmp, "scn%d" % g))
            os.mkdir(os.path.join(tmp, root, "g%d" % g))
            with open(os.path.join(tmp, root, "g%d" % g, "__init__.py"),
                      "w"):
                pass
        sys.path.insert(0, tmp)
        parts = pmap(work, [(seed, i, tmp, root, ntexts)
                            for i in range(nscn)], chunksize=2)
    finally:
        if tmp in sys.path:
            sys.path.remove(tmp)
        for name in [m for m in sys.modules if m.startswith(root)]:
            del sys.modules[name]
        shutil.rmtree(tmp, ignore_errors=True)
    stats = [0, 0, 0]
    for p in parts:
        col.merge(p)
        for i in range(3):
            stats[i] += p["stats"][i]
    res = col.result(
        bound="3 directed chains of schema-level extends (depth 2-3, inherited key type) against the merged document; "
              "%d scenarios (3 component packages in a diamond import graph,"
              " 0..3 base schemas, one main schema; <=2 abstract types, <=3"
              " types per document, extends chains <=3 also across"
              " documents, <=5 items per container, nesting depth <=3,"
              " prefixes on schema/component/sectiontype with 1..3 name"
              " components, relative and absolute dotted names), %d"
              " generated texts per scenario" % (nscn, ntexts),
        rule="a case is one (scenario, text) pair evaluated against composed"
             " and expanded schema, plus one schema-load comparison per"
             " scenario; distinct/non-trivial = pairs where at least one side"
             " accepts the text, plus distinct (scenario, error class) for"
             " texts both reject. Scenarios in which a derived type or an"
             " extending schema overrides the key type with one of the other"
             " folding behaviour while inheriting mixed-case fixed names are"
             " reported under one signature"
             " (keytype-override:inherited-names-keep-base-normal-form)")
    res["scenario_stats"] = {"scenarios": stats[0],
                             "with_folding_key_type_override": stats[1],
                             "both_schemas_loaded": stats[2]}
    return res
