"""C12 stand-in: abstract slots accept exactly their implementers, including
%import-ed ones; %import extends the vocabulary of that load only."""
import importlib
import itertools
import os
import random
import shutil
import sys
import tempfile
from io import StringIO

from standins.common import Collector, pmap, use_repo
from standins.refmodel import schemamodel as sm
from standins.c01_conforms import crash_sig, crc, msg_template, real_load
from standins.c02_tree import compare_tree, real_tree

PROPERTY = "C12"
KNOWN = "import-mutates-shared-abstract-type"


# --------------------------------------------------------------------------
# generated component packages (shared with C13)

def _ctype(name, implements=None, extends=None, key="pk"):
    kids = []
    if key:
        kids.append({"kind": "key", "name": key, "attribute": None,
                     "datatype": "integer", "required": False,
                     "default": "7", "handler": None})
    return {"kind": "concrete", "name": name, "keytype": None,
            "datatype": None, "extends": extends, "implements": implements,
            "children": kids}


PACKAGES = {
    # adds an implementer of abs1
    "zcsi_p1": {"types": [_ctype("ext1", implements="abs1")]},
    # same type name, implements nothing
    "zcsi_p2": {"types": [_ctype("ext1")]},
    # adds an implementer of abs2
    "zcsi_p3": {"types": [_ctype("ext3", implements="abs2")]},
    # merely extends the schema's c1 (which may implement something)
    "zcsi_p4": {"types": [_ctype("ext4", extends="c1", key="pk4")]},
    # own abstract type with an implementer, and one more for abs1
    "zcsi_p5": {"types": [{"kind": "abstract", "name": "pabs"},
                          _ctype("ext5", implements="pabs"),
                          _ctype("ext6", implements="abs1")]},
    # same type name as p1, implements the other abstract type
    "zcsi_p6": {"types": [_ctype("ext1", implements="abs2")]},
    # the three abstract types themselves, for schemas that import them
    # (a component imported by the schema can only implement abstract
    # types that an earlier import has defined)
    "zcsi_base": {"types": [{"kind": "abstract", "name": "abs1"},
                            {"kind": "abstract", "name": "abs2"},
                            {"kind": "abstract", "name": "abs3"}]},
    # importable package without a component
    "zcsi_nocomp": None,
}
NOT_PACKAGES = ["zcsi_mod", "zcsi_missing", "zcsi_p1.nosub"]


class PackageDir:
    """Writes the packages into a temp dir on sys.path; cleans everything."""

    def __enter__(self):
        self.dir = tempfile.mkdtemp(prefix="zcsi-")
        for name, comp in PACKAGES.items():
            d = os.path.join(self.dir, name)
            os.mkdir(d)
            with open(os.path.join(d, "__init__.py"), "w") as f:
                f.write("# generated component package\n")
            if comp is not None:
                with open(os.path.join(d, "component.xml"), "w") as f:
                    f.write(sm.render_component_xml(comp))
        with open(os.path.join(self.dir, "zcsi_mod.py"), "w") as f:
            f.write("# a module, not a package\n")
        self._purge_modules()
        sys.path.insert(0, self.dir)
        importlib.invalidate_caches()
        return self

    def _purge_modules(self):
        for m in list(sys.modules):
            if m.startswith("zcsi_"):
                del sys.modules[m]

    def __exit__(self, *exc):
        try:
            while self.dir in sys.path:
                sys.path.remove(self.dir)
            sys.path_importer_cache.pop(self.dir, None)
            self._purge_modules()
            importlib.invalidate_caches()
        finally:
            shutil.rmtree(self.dir, ignore_errors=True)
        return False


# --------------------------------------------------------------------------
# schemas and texts

def _key(name, dt="integer", default="0"):
    return {"kind": "key", "name": name, "attribute": None, "datatype": dt,
            "required": False, "default": default, "handler": None}


def make_view(nabs, concretes, imports, abs_in_pkg=False):
    """concretes: [(implements-index-or-None, extends-index-or-None)]."""
    if abs_in_pkg:
        types = []
        imports = ["zcsi_base"] + [p for p in imports if p != "zcsi_base"]
    else:
        types = [{"kind": "abstract", "name": "abs%d" % (i + 1)}
                 for i in range(nabs)]
    for i, (impl, ext) in enumerate(concretes):
        types.append({"kind": "concrete", "name": "c%d" % (i + 1),
                      "keytype": None, "datatype": None,
                      "extends": None if ext is None else "c%d" % (ext + 1),
                      "implements": None if impl is None
                      else "abs%d" % (impl + 1),
                      "children": [_key("k%d" % (i + 1))]})
    # the fixed-name slot comes first: how a '*' slot declared before a
    # fixed name behaves is C01's question, not this one's
    children = [{"kind": "section", "name": "only", "type": "abs1",
                 "attribute": None, "required": False, "handler": None}]
    for i in range(nabs):
        children.append({"kind": "multisection", "name": "*", "type":
                         "abs%d" % (i + 1), "attribute": "s%d" % (i + 1),
                         "required": False, "handler": None})
    if concretes:
        children.append({"kind": "multisection", "name": "+", "type": "c1",
                         "attribute": "direct", "required": False,
                         "handler": None})
    children.append(_key("top", "string", None))
    return {"keytype": "basic-key", "datatype": None, "handler": None,
            "imports": list(imports), "types": types, "children": children}


def all_shapes(nabs, nconc):
    """Every implements / extends combination for nconc concrete types."""
    per = []
    for i in range(nconc):
        per.append([(impl, ext) for impl in [None] + list(range(nabs))
                    for ext in [None] + list(range(i))])
    return [list(c) for c in itertools.product(*per)]


def compatible_packages(view):
    """Packages whose %import on its own succeeds against `view`."""
    out = []
    for p, comp in PACKAGES.items():
        if comp is None:
            continue
        if sm.ref_load(view, "%import " + p + "\n", packages=PACKAGES)[0] == "ok":
            out.append(p)
    return out


def gen_text(rng, view, pkgpool):
    """Uses of schema / package / abstract types with %import lines before,
    between and after them (also inside a section body)."""
    model = sm.expand(view, PACKAGES)
    known = [n for n, t in model.types.items() if not t.abstract]
    abstract = [n for n, t in model.types.items() if t.abstract]
    later = []
    for p in pkgpool:
        for e in (PACKAGES.get(p) or {"types": []})["types"]:
            if e["kind"] == "concrete" and e["name"] not in known:
                later.append((p, e["name"]))
    lines = []
    names = 0
    imported = []

    def do_import(pk):
        lines.append(("  " if lines and lines[-1].startswith("  ") else "")
                     + "%import " + pk)
        if pk not in imported:
            imported.append(pk)
            for e in (PACKAGES.get(pk) or {"types": []})["types"]:
                if e["kind"] == "concrete" and e["name"] not in known:
                    known.append(e["name"])

    for _ in range(rng.randint(1, 6)):
        r = rng.random()
        if r < 0.33:
            do_import(rng.choice(pkgpool) if rng.random() < 0.9 else
                      rng.choice(list(PACKAGES) + NOT_PACKAGES))
        elif r < 0.4:
            lines.append("top v")
        else:
            q = rng.random()
            if q < 0.62 and known:
                t = rng.choice(known)
            elif q < 0.85 and later:
                t = rng.choice(later)[1]      # maybe before its import
            else:
                t = rng.choice(abstract + ["pabs", "nosuch", "ext4"])
            names += 1
            nm = rng.choice(["", "", " n%d" % names, " only"])
            if rng.random() < 0.4:
                lines.append("<%s%s/>" % (t, nm))
            else:
                lines.append("<%s%s>" % (t, nm))
                if rng.random() < 0.25:
                    lines.append("  %import " + rng.choice(pkgpool))
                if rng.random() < 0.5:
                    keys = [cm.dname for cm in model.types[t].children] \
                        if t in model.types and not model.types[t].abstract \
                        else []
                    lines.append("  " + rng.choice(
                        [k + " 5" for k in keys] * 3 + ["pk 3", "k1 x"]))
                lines.append("</%s>" % t)
    return "\n".join(lines) + "\n"


def subtype_table(schema, names):
    return dict((n, schema.gettype(n).getsubtypenames()) for n in names)


def ref_subtype_table(view, packages):
    m = sm.expand(view, packages)
    return dict((n, sorted(t.implementers)) for n, t in m.types.items()
                if t.abstract)


# --------------------------------------------------------------------------

def _as_plain(ref):
    return ref[0] if ref[0] == "ok" else "reject(%s)" % ref[1]


def check_sequence(ZConfig, col, prop, view, texts, stats=None):
    """Run `texts` one after the other against ONE schema object."""
    if stats is None:
        stats = {}
    xml = sm.render_xml(view)
    try:
        schema = ZConfig.loadSchemaFile(StringIO(xml))
    except Exception as e:      # noqa: BLE001
        col.case()
        col.violation("%s:generated-schema-refused:%s" % (prop,
                                                            msg_template(e)),
                      "schema does not load", {"schema": xml}, "loads",
                      repr(e))
        return
    want_table = ref_subtype_table(view, PACKAGES)
    table0 = subtype_table(schema, sorted(want_table))
    if table0 != want_table:
        col.violation(prop + ":implementer-table-of-fresh-schema",
                      "getsubtypenames() of a freshly loaded schema",
                      {"schema": xml}, want_table, table0)
    polluted = False
    for step, text in enumerate(texts):
        hist = texts[:step]
        inp = {"schema": xml, "earlier_loads": hist, "text": text}
        ref = sm.ref_load(view, text, packages=PACKAGES)
        real = real_load(ZConfig, schema, text)
        k = "ok" if ref[0] == "ok" else ref[1]
        stats[k] = stats.get(k, 0) + 1
        col.case(crc(xml, "\x01".join(hist), text),
                 {"schema": xml, "loads": texts[:step + 1],
                  "ref": _as_plain(ref)} if not col.samples and step else None)
        if real[0] == "crash":
            col.violation(crash_sig(real[1]), "internal exception", inp,
                          "ConfigurationError or a configuration",
                          repr(real[1]))
        else:
            bad = None
            if (real[0] == "ok") != (ref[0] == "ok"):
                bad = ("accept/reject", _as_plain(ref), real[0] if real[0] ==
                       "ok" else msg_template(real[1]))
            elif real[0] == "ok":
                d = compare_tree(ref[1], real_tree(real[1]))
                if d:
                    bad = ("value tree at " + d[0][1], d[0][2], d[0][3])
            if bad:
                # is it the history (shared schema changed) or this load?
                fresh = ZConfig.loadSchemaFile(StringIO(xml))
                again = real_load(ZConfig, fresh, text)
                same_as_ref = (again[0] == "ok") == (ref[0] == "ok") and (
                    again[0] != "ok" or not compare_tree(
                        ref[1], real_tree(again[1])))
                alt_tail = None
                if not same_as_ref:
                    from standins.c01_conforms import ALT_READINGS
                    for tail, reading in ALT_READINGS:
                        alt = sm.ref_load(view, text, (), PACKAGES, reading)
                        if (alt[0] == "ok") == (real[0] == "ok") and (
                                alt[0] != "ok" or not compare_tree(
                                    alt[1], real_tree(real[1]))):
                            alt_tail = tail
                            break
                if alt_tail:
                    col.violation("C01:" + alt_tail, bad[0], inp, bad[1],
                                  bad[2])
                elif same_as_ref and polluted:
                    stats["history-dependent outcome"] = stats.get(
                        "history-dependent outcome", 0) + 1
                    if stats["history-dependent outcome"] == 1 and \
                            len(col.samples) < 5:
                        col.samples.append(dict(
                            inp, note="consequence of the shared abstract"
                            " type: expected %s, observed %s" % bad[1:]))
                    col.violation("%s:%s" % (prop, KNOWN), "outcome of a load"
                                  " depends on %%import lines of earlier"
                                  " loads (%s)" % bad[0], inp, bad[1], bad[2])
                elif same_as_ref:
                    col.violation(prop + ":outcome-depends-on-history",
                                  bad[0] + " differs from the same load on a"
                                  " fresh schema", inp, bad[1], bad[2])
                else:
                    tail = "accepts-nonconforming:" + ref[1] if ref[0] != \
                        "ok" else ("rejects-conforming:" + bad[2]
                                   if real[0] != "ok" else "tree")
                    col.violation("%s:%s" % (prop, tail), bad[0], inp,
                                  bad[1], bad[2])
        table = subtype_table(schema, sorted(want_table))
        if table != table0:
            polluted = True
            col.violation("%s:%s" % (prop, KNOWN), "a load changed"
                          " getsubtypenames() of the application schema",
                          {"schema": xml, "loads": texts[:step + 1]},
                          table0, table)
            table0 = table      # report each change once


def _work(job):
    seed, idx, shape, nseq, seqlen = job
    ZConfig = use_repo()
    col = Collector()
    rng = random.Random(seed * 31 + idx)
    nabs, concretes = shape
    pool = list(PACKAGES)
    stats = {}
    for s in range(nseq):
        nimp = rng.choice([0, 0, 1, 1, 2])
        imports = rng.sample([p for p in pool if PACKAGES[p]], nimp)
        in_pkg = rng.random() < 0.5
        view = make_view(nabs, concretes, imports, in_pkg)
        try:
            sm.expand(view, PACKAGES)
        except sm.BadView:
            view = make_view(nabs, concretes, [], in_pkg)
        compat = compatible_packages(view)
        pkgpool = rng.sample(compat, min(2, len(compat))) if compat and \
            rng.random() < 0.8 else rng.sample(pool, 2)
        texts = [gen_text(rng, view, pkgpool)
                 for _ in range(rng.randint(1, seqlen))]
        check_sequence(ZConfig, col, "C12", view, texts, stats)
    part = col.partial()
    part["stats"] = stats
    return part


def shapes_for(tier, rng):
    shapes = []
    for nabs in (1, 2, 3):
        for nconc in (0, 1, 2, 3, 4):
            allc = all_shapes(nabs, nconc)
            cap = 40 if tier == "quick" else 400
            if len(allc) > cap:
                allc = rng.sample(allc, cap)
            shapes.extend((nabs, c) for c in allc)
    return shapes


def run(tier, seed):
    rng = random.Random(seed)
    shapes = shapes_for(tier, rng)
    nseq, seqlen = (60, 4) if tier == "quick" else (360, 4)
    col = Collector()
    stats = {}
    with PackageDir():
        jobs = [(seed, i, sh, nseq, seqlen) for i, sh in enumerate(shapes)]
        for part in pmap(_work, jobs):
            col.merge(part)
            for k, n in part["stats"].items():
                stats[k] = stats.get(k, 0) + n
    return col.result(
        bound="%d schema shapes: 1..3 abstract types x 0..4 concrete types,"
              " every implements / extends combination up to 2 concrete"
              " types, at most %d sampled combinations per (abstract,"
              " concrete) count beyond; 0..2 of 6 generated component"
              " packages imported by the schema, 2 more offered to the"
              " texts (plus a package without component, a plain module, a"
              " missing name); %d sequences of 1..%d loads per shape against"
              " one schema object"
              % (len(shapes), 40 if tier == "quick" else 400, nseq, seqlen),
        rule="texts are 1..6 items: '%import' lines (top level and inside"
             " section bodies) before / between / after uses of schema,"
             " package, abstract, extending and unknown types; one"
             " evaluation = one load compared with the reference (accept /"
             " reject, value tree) plus getsubtypenames() of every abstract"
             " type before / after; a mismatch is replayed on a fresh schema"
             " to tell history dependence from a wrong single load;"
             " reference outcomes: " + ", ".join(
                 "%s %d" % kv for kv in sorted(stats.items())))
