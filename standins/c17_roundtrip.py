"""C17: schema-less load -> str() -> load is the identity on structures.

Corpus: the C03 corpus (standins.c03_lines.jobs / texts_of).  For every text
the real schema-less loader accepts: t1 = str(load(t)); load(t1) must
succeed, give an equal structure (keys with value lists in order, section
types / names / order / nesting, imports) and print as t1 again.  For every
text in which the reference meets a `%define` / `%include` directive before
any rejection, the loader must raise instead of returning a structure.
"""
import io

from standins.common import Collector, pmap, use_repo
from standins.refmodel import textmodel as T
from standins import c03_lines as C3

PROPERTY = "C17"


def _load(text):
    import ZConfig.schemaless as SL
    return SL.loadConfigFile(io.StringIO(text))


def _neutralised(struct, dollar, slash):
    """(Section to print, structure its reload should give): the original
    structure with the features of the two known defects taken out: '$'
    replaced by 'S' in values and import names, 'x' appended to section
    types / names that end in '/'."""
    import ZConfig.schemaless as SL

    def fix_name(n):
        if slash and n and n.endswith("/"):
            return n + "x"
        return n

    def fix_text(v):
        return v.replace("$", "S") if dollar else v

    def conv(st, top):
        sec = SL.Section(fix_name(st["type"]), fix_name(st["name"]))
        exp = {"type": sec.type, "name": sec.name, "keys": {},
               "sections": []}
        for k, vals in st["keys"].items():
            sec[k] = [fix_text(v) for v in vals]
            exp["keys"][k] = list(sec[k])
        for sub in st["sections"]:
            s2, e2 = conv(sub, False)
            sec.sections.append(s2)
            exp["sections"].append(e2)
        if top:
            imports = []
            for i in st["imports"]:
                if fix_text(i) not in imports:
                    imports.append(fix_text(i))
            exp["imports"] = imports
            if imports:
                sec.imports = tuple(imports)
        return sec, exp

    return conv(struct, True)


def _survives(struct, dollar, slash):
    sec, exp = _neutralised(struct, dollar, slash)
    try:
        t1 = str(sec)
        top2 = _load(t1)
        return C3._struct(top2) == exp
    except Exception:
        return False


def _sig(struct, stage):
    """Label by cause: a known signature is given only when taking that
    feature out of the structure makes the round trip work."""
    if _survives(struct, True, True):
        if _survives(struct, True, False):
            return "C17:dollar-not-escaped"
        if _survives(struct, False, True):
            return "C17:slash-before-gt"
        # both known causes at once, neither alone: filed under the first
        return "C17:dollar-not-escaped"
    return "C17:roundtrip:" + stage


def _ref_refuses(text):
    """The directive the reference refuses in `text`, or None."""
    if "%" not in text:         # a directive needs a '%'
        return None
    try:
        T.parse_schemaless(text)
    except T.RefRefused as e:
        return e.directive
    except T.RefError:
        return None
    return None


def check_text(col, text):
    """Returns True when the text was accepted with a non-empty structure."""
    try:
        top = _load(text)
    except Exception:
        if _ref_refuses(text):
            col.evaluations += 1        # refused, as required
        return False
    d = _ref_refuses(text)
    if d:
        col.evaluations += 1
        col.violation("C17:%s-silently-dropped" % d,
                      "%%%s was not refused" % d, text,
                      "an exception", C3._struct(top))
        return False
    col.evaluations += 1
    s1 = C3._struct(top)
    t1 = str(top)
    try:
        top2 = _load(t1)
    except Exception as e:
        col.violation(_sig(s1, "reload-raises:" + type(e).__name__),
                      "str() of the loaded configuration does not load",
                      text, {"printed": t1, "structure": s1},
                      "%s: %s" % (type(e).__name__, e))
        return True
    s2 = C3._struct(top2)
    if s1 != s2:
        col.violation(_sig(s1, "structure-differs"),
                      "the reload of str() is another structure", text,
                      {"printed": t1, "structure": s1}, s2)
        return True
    t2 = str(top2)
    if t2 != t1:
        col.violation(_sig(s1, "text-differs"),
                      "str() of the reload is another text", text, t1, t2)
    return bool(s1["keys"] or s1["sections"] or s1["imports"])


def _run_job(job):
    use_repo()
    col = Collector()
    nontriv = 0
    hashes = []
    for text, kind, key in C3.texts_of(job):
        if check_text(col, text):
            if kind == "random":
                hashes.append(hash(text))
            else:
                nontriv += 1
            if len(col.samples) < 1 and text.count("\n") >= 3 \
                    and "k" in text and "<" in text:
                col.samples.append({"text": text,
                                    "printed": str(_load(text))})
    p = col.partial()
    p["nontriv"] = nontriv
    p["hashes"] = hashes
    return p


PROBES = [
    "%define a b\n", "%include f\n", "<a>\n%define a b\n</a>\n",
    "k v\n%include f\n", "%define a\n", "%include\n",
    "k $$\n", "k $$$$\n", "k $$x\n", "%import $$p\n", "<a/ >\n</a/>\n",
    "<a b/ >\n</a>\n", "<a / >\n</a>\n",
    "K v\nk v\nk w\nK u\n<S N>\n<t/>\n<s n>\n k\n</s>\n</S>\n%import P\n",
]


def run(tier, seed):
    use_repo()
    col = Collector()
    nontriv = 0
    hashes = set()
    for p in pmap(_run_job, C3.jobs(tier, seed), chunksize=1):
        col.merge(p)
        nontriv += p["nontriv"]
        hashes.update(p["hashes"])
    for text in PROBES:
        if check_text(col, text):
            nontriv += 1
    quick = tier == "quick"
    res = col.result(
        bound="the C03 corpus (single lines of length <= %d in 3 embeddings, "
              "texts of <= %s over whole-line vocabularies, %d seeded random "
              "texts of <= 40 lines / depth <= 6): every text of it that the "
              "schema-less loader accepts"
              % (5 if quick else 6, "3-4 lines" if quick else "4 lines",
                 20000 if quick else 200000),
        rule="an evaluation is one accepted text taken through load, str, "
             "load, str (or one refused-directive check); distinct "
             "non-trivial = distinct accepted texts whose structure has a "
             "key, a section or an import")
    res["distinct_nontrivial"] = nontriv + len(hashes)
    return res
