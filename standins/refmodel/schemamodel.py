"""Independent executable reference for ZConfig schemas and loads.

Written from the statements of properties C01, C02, C12, C14, C16 and from
docs/writing-schema.rst, docs/using-zconfig.rst, docs/standard-datatypes.rst
-- not from matcher.py / info.py.  Nothing in here imports ZConfig.

A schema is described by a *View* (plain dicts / lists / strings, picklable
and json-able):

  view = {
    'keytype':  'basic-key' | 'identifier' | 'ipaddr-or-hostname',
    'datatype': None | 'null' | 'wrap' | 'checked',     # top-level datatype
    'handler':  None | str,                             # schema-level handler
    'imports':  [package name, ...],                    # <import package=.../>
    'types':    [ {'kind': 'abstract', 'name': n}
                | {'kind': 'concrete', 'name': n, 'keytype': None | kt,
                   'datatype': None | dt, 'extends': None | n,
                   'implements': None | n, 'children': [child, ...]} ],
    'children': [child, ...],
  }
  child = {'kind': 'key' | 'multikey' | 'section' | 'multisection',
           'name': str,          # keys: a name or '+'; sections: name, '*', '+'
           'attribute': None | str,
           'datatype': str,      # keys only
           'type': str,          # sections only
           'required': bool,
           'default': None | str,            # plain key
           'defaults': [str] | [(key, str)], # multikey | wildcard key/multikey
           'handler': None | str}

A component package (C12) is {'types': [...]} with the same type entries;
`packages` maps importable package names to such a description (or to None
for "importable, but provides no component").

Reading rules used where the statements are terse (all configurable through
the `reading` argument so that a disagreement can be attributed to one rule):

 * a name declared in a container (key name or fixed section name) is
   reserved: a '*' / '+' slot and a wildcard key never take it;
 * when several non-fixed slots could take a section (type fits and name rule
   satisfied) the first in schema order takes it;
 * wildcard-key defaults apply only when the text supplies no key at all for
   that wildcard; a required wildcard needs at least one key from the text;
 * a declared name is normalised under the key type of the type that declares
   it; a key in the text under the key type of the section it stands in;
 * the default attribute name is the (normalised) declared name with '-'
   replaced by '_'.
"""
import ipaddress
import random
from xml.sax.saxutils import escape, quoteattr

# ---------------------------------------------------------------------------
# outcomes


class Reject(Exception):
    """The reference refuses the text (kind says which rule)."""

    def __init__(self, kind, detail=""):
        Exception.__init__(self, kind, detail)
        self.kind = kind
        self.detail = detail


class BadView(Exception):
    """The View itself is not a legal schema (generator bug, or a component
    that cannot be added to the vocabulary)."""


DEFAULT_READING = {
    # False: declared names are reserved (documented).  True: slots are
    # searched strictly in schema order, so an earlier '*'/'+' slot may take
    # a name that a later item declares.
    "order_dependent_names": True,
    # False: a non-fixed slot "could take" a section when type AND name rule
    # fit.  True: the first slot fitting by type claims it, name rule after.
    "claim_by_type": True,
    # False: default attribute = normalised name with '-' -> '_'.
    # True: additionally lower-cased.
    "attr_lower": True,
}

# ---------------------------------------------------------------------------
# key types (docs/standard-datatypes.rst)

_LOWER = "abcdefghijklmnopqrstuvwxyz"
_UPPER = _LOWER.upper()
_LETTERS = _LOWER + _UPPER
_DIGITS = "0123456789"


def kt_basic_key(s):
    """Lower-cased; the result matches [a-z][-._a-z0-9]*."""
    if not isinstance(s, str) or not s:
        raise ValueError("empty basic-key")
    if s[0] not in _LETTERS:
        raise ValueError("basic-key must start with a letter")
    for c in s[1:]:
        if c not in _LETTERS and c not in _DIGITS and c not in "-._":
            raise ValueError("bad character in basic-key")
    return s.lower()


def kt_identifier(s):
    """Any (ASCII) Python identifier, unchanged."""
    if not isinstance(s, str) or not s:
        raise ValueError("empty identifier")
    if s[0] not in _LETTERS and s[0] != "_":
        raise ValueError("bad identifier start")
    for c in s[1:]:
        if c not in _LETTERS and c not in _DIGITS and c != "_":
            raise ValueError("bad identifier character")
    return s


def kt_ipaddr_or_hostname(s):
    """First character a digit: dotted-quad IPv4.  Contains a colon: IPv6.
    Otherwise a host name, lower-cased."""
    if not isinstance(s, str) or not s:
        raise ValueError("empty address")
    if ":" in s:
        if "%" in s or "/" in s:
            raise ValueError("not an IPv6 address")
        try:
            ipaddress.IPv6Address(s)
        except ValueError:
            raise ValueError("not an IPv6 address")
        return s.lower()
    if s[0] in _DIGITS:
        parts = s.split(".")
        if len(parts) != 4:
            raise ValueError("not a dotted quad")
        for p in parts:
            if not (1 <= len(p) <= 3) or any(c not in _DIGITS for c in p):
                raise ValueError("not a dotted quad")
            if int(p) > 255:
                raise ValueError("octet out of range")
        return s
    if s[0] not in _LETTERS and s[0] != "_":
        raise ValueError("bad host name start")
    for c in s[1:]:
        if c not in _LETTERS and c not in _DIGITS and c not in "-_.":
            raise ValueError("bad host name character")
    if s[-1] == ".":
        raise ValueError("host name ends with a period")
    if len(s) == 1:
        # The statement does not say whether a ONE-character name is a host
        # name (the shipped pattern needs two); not compared - see DESIGN.md,
        # readings.
        raise ValueError("one-character host names are left unspecified")
    return s.lower()


KEYTYPES = {
    "basic-key": kt_basic_key,
    "identifier": kt_identifier,
    "ipaddr-or-hostname": kt_ipaddr_or_hostname,
}

# ---------------------------------------------------------------------------
# value datatypes (docs/standard-datatypes.rst)


def dt_string(v):
    return v


def dt_null(v):
    return v


def dt_integer(v):
    t = v
    if t[:1] in ("+", "-"):
        t = t[1:]
    if not t or any(c not in _DIGITS for c in t):
        raise ValueError("not an integer: %r" % (v,))
    return int(v)


def dt_boolean(v):
    w = v.lower()
    if w in ("yes", "on", "true"):
        return True
    if w in ("no", "off", "false"):
        return False
    raise ValueError("not a boolean: %r" % (v,))


def dt_float(v):
    w = v.strip().lower().lstrip("+-")
    if w.startswith("inf") or w.startswith("nan"):
        raise ValueError("Inf / NaN are not allowed")
    return float(v)


def dt_port_number(v):
    n = dt_integer(v)
    if n < 0 or n > 65535:
        raise ValueError("port out of range")
    return n


def _suffixed(v, table):
    w = v.lower()
    for suffix, mult in table:
        if w.endswith(suffix):
            return dt_integer(w[:len(w) - len(suffix)]) * mult
    return dt_integer(w)


def dt_byte_size(v):
    return _suffixed(v, (("kb", 1024), ("mb", 1024 ** 2), ("gb", 1024 ** 3)))


def dt_time_interval(v):
    return _suffixed(v, (("s", 1), ("m", 60), ("h", 3600), ("d", 86400)))


def dt_string_list(v):
    return v.split()


def dt_inet_address(v):
    """(host, port); host '' when only a port is given (non-Windows), port
    None when omitted; [v6]:port for IPv6 with a port."""
    if len(v.split()) > 1:
        raise ValueError("white space in address")
    host, port = "", None
    if v.startswith("["):
        close = v.find("]")
        if close < 0:
            raise ValueError("unterminated [")
        host = v[1:close]
        rest = v[close + 1:]
        if rest.startswith(":"):
            port = dt_port_number(rest[1:])
        elif rest:
            raise ValueError("garbage after ]")
    elif v.count(":") >= 2:
        host = v
    elif v.count(":") == 1:
        host, p = v.split(":")
        port = dt_port_number(p)
    elif v and all(c in _DIGITS for c in v):
        port = dt_port_number(v)
    else:
        host = v
    return host.lower(), port


DATATYPES = {
    "string": dt_string,
    "null": dt_null,
    "integer": dt_integer,
    "boolean": dt_boolean,
    "float": dt_float,
    "port-number": dt_port_number,
    "byte-size": dt_byte_size,
    "time-interval": dt_time_interval,
    "identifier": kt_identifier,
    "basic-key": kt_basic_key,
    "string-list": dt_string_list,
    "inet-address": dt_inet_address,
}

# raw text forms: (convertible, unconvertible).  Corner cases on which the
# documentation is silent (port 0, 'inf', digits-only host names, ...) are
# left to property C09 and deliberately absent.
VALUE_VOCAB = {
    "string": (["hello", "two words", "x$$y", "", "#not a comment"], []),
    "null": (["anything", ""], []),
    "integer": (["0", "42", "-7"], ["4.5", "abc", ""]),
    "boolean": (["yes", "ON", "False", "off"], ["maybe", "1", ""]),
    "float": (["1.5", "-2", "1e3"], ["abc", "1,5", ""]),
    "port-number": (["1", "80", "65535"], ["65536", "-1", "http"]),
    "byte-size": (["10", "128MB", "1kb", "2Gb"], ["10TB", "MB", "1.5MB"]),
    "time-interval": (["90", "12h", "5M", "1d", "30s"], ["1w", "h", "x"]),
    "identifier": (["abc", "_x1", "CamelCase"], ["1x", "a-b", "a b", ""]),
    "basic-key": (["Foo-Bar.1", "abc"], ["1x", "_x", "a b", ""]),
    "string-list": (["a b  c", "single", ""], []),
    "inet-address": (["host:80", "80", "Host.Example", "[::1]:8080", "::1"],
                     ["host:99999", "host:abc", "a b"]),
}

SECTION_DATATYPES = {
    None: None,
    "null": "null",
    "wrap": "standins.refmodel.dt.wrap",
    "checked": "standins.refmodel.dt.checked",
}
REJECT_MARK = "reject-me"       # see dt.checked

# ---------------------------------------------------------------------------
# expanded model


class TypeModel:
    __slots__ = ("name", "abstract", "implementers", "keytype", "datatype",
                 "children", "handler", "implements")

    def __init__(self, name, abstract=False):
        self.name = name
        self.abstract = abstract
        self.implementers = []      # abstract: names, in registration order
        self.keytype = "basic-key"
        self.datatype = None
        self.children = []
        self.handler = None
        self.implements = None


class ChildModel:
    __slots__ = ("kind", "dname", "slot", "attribute", "datatype", "type",
                 "required", "default", "defaults", "rawdefaults", "handler")

    def isslot(self):
        return self.kind in ("section", "multisection")

    def iswild(self):
        return self.kind in ("wkey", "wmultikey")


class Model:
    def __init__(self):
        self.types = {}             # name -> TypeModel (ordered)
        self.components = []        # package names already incorporated
        self.top = None

    def clone_vocabulary(self):
        """Per-load copy: the type table and the implementer lists."""
        m = Model()
        m.top = self.top
        m.components = list(self.components)
        for n, t in self.types.items():
            if t.abstract:
                c = TypeModel(t.name, True)
                c.implementers = list(t.implementers)
                m.types[n] = c
            else:
                m.types[n] = t
        return m


def _norm_handler(h):
    return None if h is None else kt_basic_key(h)


def _make_child(c, owner_keytype, reading):
    cm = ChildModel()
    kind, name = c["kind"], c["name"]
    cm.handler = _norm_handler(c.get("handler"))
    cm.required = bool(c.get("required"))
    cm.datatype = c.get("datatype") or "string"
    cm.type = c.get("type")
    cm.default = None
    cm.defaults = []
    cm.rawdefaults = []
    cm.slot = None
    attr = c.get("attribute")
    if kind in ("key", "multikey"):
        if name == "*":
            raise BadView("keys may not be named '*'")
        if name == "+":
            cm.kind = "wkey" if kind == "key" else "wmultikey"
            cm.dname = None
            if not attr:
                raise BadView("wildcard key needs an attribute")
            cm.rawdefaults = [tuple(d) for d in c.get("defaults") or ()]
        else:
            cm.kind = kind
            cm.dname = KEYTYPES[owner_keytype](name)
            if kind == "key":
                cm.default = c.get("default")
                if cm.required and cm.default is not None:
                    raise BadView("required key with default")
            else:
                cm.defaults = list(c.get("defaults") or ())
        if cm.datatype not in DATATYPES:
            raise BadView("unknown datatype %r" % cm.datatype)
    else:
        cm.kind = kind
        if name in ("*", "+"):
            cm.slot = name
            cm.dname = None
            if not attr:
                raise BadView("'*'/'+' slot needs an attribute")
        else:
            if kind == "multisection":
                raise BadView("multisection must be named '*' or '+'")
            cm.slot = "fixed"
            cm.dname = KEYTYPES[owner_keytype](name)
    if not attr:
        attr = cm.dname.replace("-", "_")
        if reading["attr_lower"]:
            attr = attr.lower()
    cm.attribute = attr
    return cm


def _renorm_wild(cm, keytype):
    """(Re)compute the default table of a wildcard key under `keytype`."""
    n = ChildModel()
    for s in ChildModel.__slots__:
        setattr(n, s, getattr(cm, s))
    table = {}
    for k, v in cm.rawdefaults:
        nk = KEYTYPES[keytype](k)
        if cm.kind == "wkey":
            if nk in table:
                raise BadView("duplicate default key %r" % (nk,))
            table[nk] = v
        else:
            table.setdefault(nk, []).append(v)
    n.defaults = table
    return n


def _check_children(children):
    names, attrs, wild = [], [], 0
    for cm in children:
        if cm.dname is not None:
            if cm.dname in names:
                raise BadView("name %r used twice" % (cm.dname,))
            names.append(cm.dname)
        if cm.attribute in attrs:
            raise BadView("attribute %r used twice" % (cm.attribute,))
        attrs.append(cm.attribute)
        if cm.iswild():
            wild += 1
    if wild > 1:
        raise BadView("two wildcard keys")


def add_types(model, entries, reading):
    """Add abstract / concrete type declarations, in order."""
    for e in entries:
        name = kt_basic_key(e["name"])
        if name in model.types:
            raise BadView("type %r redefined" % (name,))
        if e["kind"] == "abstract":
            model.types[name] = TypeModel(name, True)
            continue
        t = TypeModel(name)
        base = None
        if e.get("extends"):
            base = model.types.get(kt_basic_key(e["extends"]))
            if base is None or base.abstract:
                raise BadView("bad base type for %r" % (name,))
        t.keytype = e.get("keytype") or (base.keytype if base else "basic-key")
        t.datatype = e.get("datatype") or (base.datatype if base else None)
        if base is not None:
            for cm in base.children:
                if cm.iswild():
                    cm = _renorm_wild(cm, t.keytype)
                t.children.append(cm)
        if e.get("implements"):
            a = model.types.get(kt_basic_key(e["implements"]))
            if a is None or not a.abstract:
                raise BadView("%r implements a non-abstract type" % (name,))
            a.implementers.append(name)
            t.implements = a.name
        model.types[name] = t     # visible to its own children? no: not yet
        for c in e.get("children") or ():
            cm = _make_child(c, t.keytype, reading)
            if cm.isslot():
                st = model.types.get(kt_basic_key(cm.type))
                if st is None:
                    raise BadView("unknown slot type %r" % (cm.type,))
                cm.type = st.name
            if cm.iswild():
                cm = _renorm_wild(cm, t.keytype)
            t.children.append(cm)
        _check_children(t.children)


def expand(view, packages=None, reading=None):
    """View -> Model (derived types expanded, names normalised)."""
    reading = dict(DEFAULT_READING, **(reading or {}))
    packages = packages or {}
    m = Model()
    for pkg in view.get("imports") or ():
        if pkg in m.components:
            continue
        comp = packages.get(pkg)
        if comp is None:
            raise BadView("schema imports a package without component")
        m.components.append(pkg)
        add_types(m, comp["types"], reading)
    add_types(m, view.get("types") or (), reading)
    top = TypeModel(None)
    top.keytype = view.get("keytype") or "basic-key"
    top.datatype = view.get("datatype")
    top.handler = _norm_handler(view.get("handler"))
    for c in view.get("children") or ():
        cm = _make_child(c, top.keytype, reading)
        if cm.isslot():
            st = m.types.get(kt_basic_key(cm.type))
            if st is None:
                raise BadView("unknown slot type %r" % (cm.type,))
            cm.type = st.name
        if cm.iswild():
            cm = _renorm_wild(cm, top.keytype)
        top.children.append(cm)
    _check_children(top.children)
    m.top = top
    return m


# ---------------------------------------------------------------------------
# XML rendering


def _attrs(pairs):
    return "".join(" %s=%s" % (k, quoteattr(v)) for k, v in pairs
                   if v is not None)


def _render_child(c, ind):
    kind, name = c["kind"], c["name"]
    pairs = [("name", name)]
    if kind in ("section", "multisection"):
        pairs.append(("type", c["type"]))
    pairs.append(("attribute", c.get("attribute") or None))
    if kind in ("key", "multikey") and c.get("datatype"):
        pairs.append(("datatype", c["datatype"]))
    if c.get("required"):
        pairs.append(("required", "yes"))
    pairs.append(("handler", c.get("handler")))
    body = []
    if kind == "key" and name != "+" and c.get("default") is not None:
        pairs.append(("default", c["default"]))
    if kind in ("key", "multikey") and name == "+":
        for k, v in c.get("defaults") or ():
            body.append("%s  <default key=%s>%s</default>"
                        % (ind, quoteattr(k), escape(v)))
    elif kind == "multikey":
        for v in c.get("defaults") or ():
            body.append("%s  <default>%s</default>" % (ind, escape(v)))
    if body:
        return ["%s<%s%s>" % (ind, kind, _attrs(pairs))] + body + \
               ["%s</%s>" % (ind, kind)]
    return ["%s<%s%s/>" % (ind, kind, _attrs(pairs))]


def _render_types(entries, out, ind):
    for e in entries:
        if e["kind"] == "abstract":
            out.append('%s<abstracttype name=%s/>' % (ind, quoteattr(e["name"])))
            continue
        pairs = [("name", e["name"]), ("keytype", e.get("keytype")),
                 ("datatype", SECTION_DATATYPES[e.get("datatype")]),
                 ("extends", e.get("extends")),
                 ("implements", e.get("implements"))]
        out.append("%s<sectiontype%s>" % (ind, _attrs(pairs)))
        for c in e.get("children") or ():
            out.extend(_render_child(c, ind + "  "))
        out.append("%s</sectiontype>" % ind)


def render_xml(view):
    pairs = [("keytype", view.get("keytype")),
             ("datatype", SECTION_DATATYPES[view.get("datatype")]),
             ("handler", view.get("handler"))]
    out = ["<schema%s>" % _attrs(pairs)]
    for pkg in view.get("imports") or ():
        out.append("  <import package=%s/>" % quoteattr(pkg))
    _render_types(view.get("types") or (), out, "  ")
    for c in view.get("children") or ():
        out.extend(_render_child(c, "  "))
    out.append("</schema>")
    return "\n".join(out) + "\n"


def render_component_xml(comp):
    out = ["<component>"]
    _render_types(comp["types"], out, "  ")
    out.append("</component>")
    return "\n".join(out) + "\n"


# ---------------------------------------------------------------------------
# configuration text (minimal: the line grammar is another property's job)


def _expand_dollars(value):
    out, i = [], 0
    while i < len(value):
        c = value[i]
        if c == "$":
            if value[i + 1:i + 2] == "$":
                out.append("$")
                i += 2
                continue
            raise Reject("unsupported", "$-reference outside the text model")
        out.append(c)
        i += 1
    return "".join(out)


def _name_token(tok):
    if not tok or "(" in tok or ")" in tok:
        raise Reject("syntax", "bad name token %r" % (tok,))
    return tok


def parse_text(text):
    """-> nested items: ('kv', key, value) | ('sect', type, name, items)
    | ('import', package).  type / name are lower-cased."""
    root = []
    stack = []          # (type, items-of-parent)
    cur = root
    for line in text.split("\n"):
        s = line.strip()
        if not s or s[0] == "#":
            continue
        if s.startswith("</"):
            if s[-1] != ">":
                raise Reject("syntax", "malformed section end")
            t = s[2:-1].strip().lower()
            if not stack:
                raise Reject("syntax", "unexpected section end")
            opened, parent = stack.pop()
            if opened != t:
                raise Reject("syntax", "unbalanced section end")
            cur = parent
        elif s[0] == "<":
            if s[-1] != ">":
                raise Reject("syntax", "malformed section start")
            body = s[1:-1]
            empty = body.endswith("/")
            if empty:
                body = body[:-1]
            parts = body.split()
            if len(parts) not in (1, 2):
                raise Reject("syntax", "malformed section header")
            t = _name_token(parts[0]).lower()
            n = _name_token(parts[1]).lower() if len(parts) == 2 else None
            items = []
            cur.append(("sect", t, n, items))
            if not empty:
                stack.append((t, cur))
                cur = items
        elif s[0] == "%":
            parts = s[1:].split(None, 1)
            if parts and parts[0] == "import" and len(parts) == 2:
                cur.append(("import", _expand_dollars(parts[1].strip())))
            else:
                raise Reject("unsupported", "directive outside the text model")
        else:
            parts = s.split(None, 1)
            key = _name_token(parts[0])
            value = _expand_dollars(parts[1].strip()) if len(parts) == 2 else ""
            cur.append(("kv", key, value))
    if stack:
        raise Reject("syntax", "unclosed section")
    return root


# ---------------------------------------------------------------------------
# the load itself


def _fits(model, slot_type, t):
    st = model.types[slot_type]
    if st.abstract:
        return t in st.implementers
    return slot_type == t


def _name_rule_ok(cm, name):
    if cm.slot == "*":
        return True
    if cm.slot == "+":
        return bool(name)
    return name == cm.dname


def _find_slot(model, tm, t, name, reading):
    """Index of the child slot that takes section <t name>, or Reject."""
    children = tm.children
    if reading["order_dependent_names"]:
        # strictly in schema order: whichever item claims first
        for i, cm in enumerate(children):
            if cm.dname is not None:
                if name and cm.dname == name:
                    if not cm.isslot():
                        raise Reject("name-is-key")
                    if not _fits(model, cm.type, t):
                        raise Reject("type-for-fixed-name")
                    return i
            elif cm.isslot() and _fits(model, cm.type, t):
                if reading["claim_by_type"] or _name_rule_ok(cm, name):
                    if not _name_rule_ok(cm, name):
                        raise Reject("name-rule")
                    return i
        raise Reject("no-slot")
    if name:
        for i, cm in enumerate(children):
            if cm.dname is not None and cm.dname == name:
                if not cm.isslot():
                    raise Reject("name-is-key")
                if not _fits(model, cm.type, t):
                    raise Reject("type-for-fixed-name")
                return i
    for i, cm in enumerate(children):
        if cm.isslot() and cm.slot in ("*", "+") and _fits(model, cm.type, t):
            if _name_rule_ok(cm, name):
                return i
            if reading["claim_by_type"]:
                raise Reject("name-rule")
    raise Reject("no-slot")


def _convert(datatype, raw):
    try:
        return DATATYPES[datatype](raw)
    except ValueError:
        raise Reject("convert", "%s(%r)" % (datatype, raw))


def _import(model, pkg, packages, reading):
    if pkg in model.components:
        return
    comp = (packages or {}).get(pkg)
    if comp is None:
        raise Reject("import", "no component in %r" % (pkg,))
    model.components.append(pkg)
    try:
        add_types(model, comp["types"], reading)
    except (BadView, ValueError) as e:
        raise Reject("import", str(e))


def _load_container(model, tm, items, path, handlers, packages, reading,
                    secname):
    children = tm.children
    keytype = KEYTYPES[tm.keytype]
    slots = []
    for cm in children:
        if cm.iswild():
            slots.append({})
        elif cm.kind in ("multikey", "multisection"):
            slots.append([])
        else:
            slots.append(None)
    names = []
    for it in items:
        if it[0] == "import":
            _import(model, it[1], packages, reading)
        elif it[0] == "kv":
            try:
                nk = keytype(it[1])
            except ValueError:
                raise Reject("bad-key", it[1])
            idx = None
            wild = None
            for i, cm in enumerate(children):
                if cm.dname is not None and cm.dname == nk:
                    idx = i
                    break
                if cm.iswild():
                    wild = i
            if idx is None:
                if wild is None:
                    raise Reject("unknown-key", nk)
                idx = wild
            cm = children[idx]
            if cm.isslot():
                raise Reject("key-names-section", nk)
            if cm.kind == "key":
                if slots[idx] is not None:
                    raise Reject("dup-key", nk)
                slots[idx] = (it[2],)
            elif cm.kind == "multikey":
                slots[idx].append(it[2])
            elif cm.kind == "wkey":
                if nk in slots[idx]:
                    raise Reject("dup-key", nk)
                slots[idx][nk] = it[2]
            else:
                slots[idx].setdefault(nk, []).append(it[2])
        else:
            _, t, name, sub = it
            st = model.types.get(t)
            if st is None:
                raise Reject("unknown-type", t)
            if st.abstract:
                raise Reject("abstract-type", t)
            if name in ("*", "+"):
                raise Reject("star-name", name)
            if name:
                if name in names:
                    raise Reject("dup-name", name)
                names.append(name)
            idx = _find_slot(model, tm, t, name, reading)
            cm = children[idx]
            if cm.kind == "section":
                if slots[idx] is not None:
                    raise Reject("slot-full", cm.attribute)
                step = (cm.attribute, None)
            else:
                step = (cm.attribute, len(slots[idx]))
            val = _load_container(model, st, sub, path + (step,), handlers,
                                  packages, reading, name)
            if cm.kind == "section":
                slots[idx] = val
            else:
                slots[idx].append(val)
    # completion, defaults, conversion -- in schema order
    attrs = {}
    for i, cm in enumerate(children):
        v = slots[i]
        k = cm.kind
        if k == "key":
            if v is None:
                if cm.required:
                    raise Reject("missing-required", cm.attribute)
                val = None if cm.default is None else \
                    _convert(cm.datatype, cm.default)
            else:
                val = _convert(cm.datatype, v[0])
        elif k == "multikey":
            if not v:
                if cm.required:
                    raise Reject("missing-required", cm.attribute)
                v = cm.defaults
            val = [_convert(cm.datatype, x) for x in v]
        elif k == "wkey":
            if not v:
                if cm.required:
                    raise Reject("missing-required", cm.attribute)
                v = cm.defaults
            val = dict((kk, _convert(cm.datatype, x)) for kk, x in v.items())
        elif k == "wmultikey":
            if not v:
                if cm.required:
                    raise Reject("missing-required", cm.attribute)
                v = cm.defaults
            val = dict((kk, [_convert(cm.datatype, x) for x in xs])
                       for kk, xs in v.items())
        elif k == "section":
            if v is None and cm.required:
                raise Reject("missing-required", cm.attribute)
            val = v
        else:
            if not v and cm.required:
                raise Reject("missing-required", cm.attribute)
            val = v
        attrs[cm.attribute] = val
    node = {"type": tm.name, "name": secname or None,
            "wrapped": tm.datatype in ("wrap", "checked"), "attrs": attrs,
            "kinds": dict((cm.attribute, cm.kind) for cm in children)}
    for cm in children:
        if cm.handler is not None:
            handlers.append((cm.handler, path + (cm.attribute,),
                             attrs[cm.attribute]))
    if tm.datatype == "checked":
        for cm in children:
            if attrs[cm.attribute] == REJECT_MARK:
                raise Reject("section-datatype", cm.attribute)
    return node


def ref_load(view, text, overrides=(), packages=None, reading=None):
    """('ok', tree, handler_entries) | ('reject', kind).

    tree node: {'type', 'name', 'wrapped', 'attrs': {attribute: value}};
    values are converted scalars, lists, dicts, nodes, None.
    handler_entries: [(handler name, path, value)], path = steps
    (attribute, index-or-None) down the sections then the attribute; the
    schema-level entry has path ().
    """
    reading = dict(DEFAULT_READING, **(reading or {}))
    try:
        base = expand(view, packages, reading)
        if overrides:
            text = edit_text(view, text, overrides, packages, _model=base)
        items = parse_text(text)
        model = base.clone_vocabulary()
        handlers = []
        tree = _load_container(model, model.top, items, (), handlers,
                               packages, reading, None)
        # the top-level node was built with the schema's datatype as well
        if model.top.handler is not None:
            handlers.append((model.top.handler, (), tree))
        return ("ok", tree, handlers)
    except Reject as r:
        return ("reject", r.kind)


# ---------------------------------------------------------------------------
# C14: the hand edit that an override list stands for


def split_specifier(spec):
    """'a/b/key=value' -> (['a', 'b'], 'key', 'value'); Reject on bad syntax."""
    if "=" not in spec:
        raise Reject("override-syntax", "no '='")
    opt, val = spec.split("=", 1)
    path = opt.split("/")
    if "" in path:
        raise Reject("override-syntax", "empty path component")
    return path[:-1], path[-1], val


def _parse_nodes(text):
    """Line-preserving parse used by edit_text."""
    root = {"k": "root", "items": [], "type": None}
    stack = [root]
    for line in text.split("\n"):
        s = line.strip()
        cur = stack[-1]
        if not s or s[0] in "#%":
            cur["items"].append({"k": "raw", "line": line})
        elif s.startswith("</"):
            if len(stack) == 1:
                raise Reject("syntax", "unexpected section end")
            stack.pop()["close"] = line
        elif s[0] == "<":
            body = s[1:-1]
            empty = body.endswith("/")
            if empty:
                body = body[:-1]
            parts = body.split()
            if s[-1] != ">" or len(parts) not in (1, 2):
                raise Reject("syntax", "malformed section header")
            node = {"k": "sect", "type": parts[0].lower(),
                    "name": parts[1].lower() if len(parts) == 2 else None,
                    "rawtype": parts[0],
                    "rawname": parts[1] if len(parts) == 2 else None,
                    "open": line, "close": None, "empty": empty, "items": []}
            cur["items"].append(node)
            if not empty:
                stack.append(node)
        else:
            cur["items"].append({"k": "kv", "key": s.split(None, 1)[0],
                                 "line": line, "ov": False})
    if len(stack) != 1:
        raise Reject("syntax", "unclosed section")
    return root


def _render_nodes(node, out):
    for it in node["items"]:
        if it["k"] == "sect":
            if it["empty"] and not it["items"]:
                out.append(it["open"])
                continue
            if it["empty"]:
                hdr = "<" + it["rawtype"]
                if it["rawname"]:
                    hdr += " " + it["rawname"]
                out.append(hdr + ">")
            else:
                out.append(it["open"])
            _render_nodes(it, out)
            out.append(it["close"] if it["close"] is not None
                       else "</%s>" % it["rawtype"])
        else:
            out.append(it["line"])


def edit_text(view, text, overrides, packages=None, _model=None):
    """Text T edited as C14 says the override list acts.  Raises Reject for
    a malformed specifier, an unresolvable section, a key that is not valid
    under the section's key type."""
    model = _model or expand(view, packages)
    specs = [split_specifier(s) for s in overrides]     # refused when added
    root = _parse_nodes(text)
    for path, key, value in specs:
        node, tm = root, model.top
        for comp in path:
            want = comp.lower()
            for it in node["items"]:
                if it["k"] == "sect" and (it["name"] == want
                                          or it["type"] == want):
                    node = it
                    break
            else:
                raise Reject("override-unresolved", comp)
            tm = model.types.get(node["type"])
            if tm is None or tm.abstract:
                raise Reject("unknown-type", node["type"])
        try:
            nk = KEYTYPES[tm.keytype](key)
        except ValueError:
            raise Reject("override-bad-key", key)
        kept = []
        for it in node["items"]:
            if it["k"] == "kv" and not it["ov"]:
                try:
                    if KEYTYPES[tm.keytype](it["key"]) == nk:
                        continue
                except ValueError:
                    pass
            kept.append(it)
        line = key if value == "" else key + " " + value.replace("$", "$$")
        kept.append({"k": "kv", "key": key, "line": line, "ov": True})
        node["items"] = kept
    out = []
    _render_nodes(root, out)
    return "\n".join(out)


# ---------------------------------------------------------------------------
# generators

KEYTYPE_NAMES = ["basic-key", "identifier", "ipaddr-or-hostname"]

# (declared name, attribute that MUST be given or None)
NAME_POOL = {
    "basic-key": [("alpha", None), ("beta-one", None), ("Gamma", None),
                  ("delta.x", "delta_x"), ("eps_2", None), ("k1", None),
                  ("zeta", None), ("Eta-2", None)],
    "identifier": [("alpha", None), ("Beta", None), ("gamma_1", None),
                   ("_under", "under"), ("K1", None), ("zeta", None)],
    "ipaddr-or-hostname": [("alpha", None), ("host-a", None),
                           ("Host.B", "host_b"), ("k1", None),
                           ("10.0.0.1", "ip4"), ("::1", "ip6"),
                           ("zeta", None)],
}
# names a text may use for a wildcard key (valid under the key type)
WILD_KEYS = {
    "basic-key": ["wild1", "Wild-2", "other.k", "WILD1"],
    "identifier": ["wild1", "Wild2", "_w", "WILD1"],
    "ipaddr-or-hostname": ["wild1", "w-2.x", "192.168.1.1", "::2", "WILD1"],
}
# tokens outside every vocabulary (some invalid under the key types)
OOV_KEYS = ["zzz", "no-such", "1bad", "a:b", "*", "+", "_q", "main", "x y"]
FIXED_NAMES = ["main", "aux-1", "side", "extra"]
SECTION_NAMES = ["n1", "N2", "web", "10.0.0.1", "x-y", "N1"]
KEY_DATATYPES = sorted(VALUE_VOCAB)


def _mixcase(rng, s):
    r = rng.random()
    if r < 0.6:
        return s
    if r < 0.8:
        return s.upper()
    return s.capitalize()


def _gen_key_children(rng, keytype, used_names, used_attrs, nmin, nmax,
                      allow_wild, handlers, hcount):
    out = []
    pool = list(NAME_POOL[keytype])
    rng.shuffle(pool)
    n = rng.randint(nmin, nmax)
    norm = KEYTYPES[keytype]
    for name, forced in pool:
        if len(out) >= n:
            break
        nn = norm(name)
        defattr = forced or nn.replace("-", "_")
        if nn in used_names or defattr.lower() in used_attrs:
            continue
        kind = rng.choice(["key", "key", "key", "multikey"])
        dt = rng.choice(KEY_DATATYPES) if rng.random() < 0.7 else "string"
        good, bad = VALUE_VOCAB[dt]
        c = {"kind": kind, "name": name, "attribute": forced,
             "datatype": dt, "required": False, "handler": None}
        if forced is None and rng.random() < 0.25:
            c["attribute"] = "a_%d" % len(used_attrs)
        r = rng.random()
        if kind == "key":
            c["default"] = None
            if r < 0.3:
                c["required"] = True
            elif r < 0.65:
                c["default"] = rng.choice(good)
                if bad and rng.random() < 0.04:
                    c["default"] = rng.choice(bad)
                if c["default"] == "":
                    c["default"] = rng.choice(good)
                c["default"] = c["default"].replace("$$", "$")
        else:
            c["defaults"] = []
            if r < 0.3:
                c["required"] = True
            elif r < 0.65:
                nonempty = [g.replace("$$", "$") for g in good if g]
                c["defaults"] = [rng.choice(nonempty)
                                 for _ in range(rng.randint(1, 3))]
        used_names.append(nn)
        used_attrs.append((c["attribute"] or defattr).lower())
        out.append(c)
    if allow_wild and rng.random() < 0.45:
        kind = rng.choice(["key", "multikey"])
        dt = rng.choice(["string", "integer", "boolean", "string-list"])
        good = [g for g in VALUE_VOCAB[dt][0] if g and "$" not in g]
        attr = "wild"
        if attr not in used_attrs:
            c = {"kind": kind, "name": "+", "attribute": attr, "datatype": dt,
                 "required": rng.random() < 0.25, "handler": None,
                 "defaults": []}
            if rng.random() < 0.5:
                keys = [k for k in WILD_KEYS[keytype][:3]]
                rng.shuffle(keys)
                for k in keys[:rng.randint(1, 2)]:
                    c["defaults"].append((k, rng.choice(good)))
                    if kind == "multikey" and rng.random() < 0.4:
                        c["defaults"].append((k, rng.choice(good)))
            used_attrs.append(attr)
            out.append(c)
    return out


def _gen_slots(rng, keytype, avail, used_names, used_attrs, nmax, nmin=0):
    """avail: list of type names (concrete or abstract) usable here."""
    out = []
    if not avail:
        return out
    for _ in range(rng.randint(nmin, nmax)):
        t = rng.choice(avail)
        kind = rng.choice(["section", "section", "multisection"])
        if kind == "section":
            name = rng.choice(["*", "+", "fixed", "fixed"])
        else:
            name = rng.choice(["*", "*", "+"])
        attr = None
        if name == "fixed":
            cand = [n for n in FIXED_NAMES if n not in used_names
                    and n.replace("-", "_") not in used_attrs]
            if not cand:
                continue
            name = rng.choice(cand)
            used_names.append(name)
            if rng.random() < 0.3:
                attr = "s_%d" % len(used_attrs)
            used_attrs.append((attr or name.replace("-", "_")).lower())
        else:
            attr = "s_%d" % len(used_attrs)
            used_attrs.append(attr)
        out.append({"kind": kind, "name": name, "type": t, "attribute": attr,
                    "required": rng.random() < 0.25, "handler": None})
    return out


def _pick_keytype(rng):
    return rng.choice(["basic-key", "basic-key", "basic-key", "identifier",
                       "ipaddr-or-hostname"])


def gen_view(rng, small=False):
    """One schema of the C01 family."""
    view = {"keytype": _pick_keytype(rng),
            "datatype": rng.choice([None, None, "null", "wrap"]),
            "handler": None, "imports": [], "types": [], "children": []}
    types = view["types"]
    level = {}              # type name -> nesting level (1..3) it lives at
    info = {}               # concrete type name -> (keytype, names, attrs)
    n_abs = rng.choice([0, 1, 1, 2]) if not small else rng.choice([0, 1])
    abstract = []
    for i in range(n_abs):
        name = "abs%d" % (i + 1)
        types.append({"kind": "abstract", "name": name})
        level[name] = rng.choice([2, 3])
        abstract.append([name, rng.choice([0, 1, 2, 3])])
    counter = [0]

    def new_concrete(lvl, prefix, implements=None):
        counter[0] += 1
        name = "%s%d" % (prefix, counter[0])
        kt = _pick_keytype(rng)
        names, attrs = [], []
        deeper = [n for n in level if level[n] > lvl]
        kids = _gen_key_children(rng, kt, names, attrs, 0 if small else 1,
                                 2 if small else 4, True, False, None)
        if lvl < 3:
            kids += _gen_slots(rng, kt, deeper, names, attrs,
                               1 if small else 2)
        rng.shuffle(kids)
        e = {"kind": "concrete", "name": name,
             "keytype": None if kt == "basic-key" and rng.random() < 0.5 else kt,
             "datatype": rng.choice([None, None, "wrap", "wrap", "checked"]),
             "extends": None, "implements": implements, "children": kids}
        types.append(e)
        level[name] = lvl
        info[name] = (kt, names, attrs)
        return name

    def new_derived(base):
        counter[0] += 1
        name = "der%d" % counter[0]
        bkt, bnames, battrs = info[base]
        kt = bkt
        over_kt = None
        if rng.random() < 0.2:
            # a derived type may change the key type; inherited names stay
            # as the base declared them
            over_kt = kt = _pick_keytype(rng)
        names, attrs = list(bnames), list(battrs)
        base_entry = [e for e in types if e["name"] == base][0]
        has_wild = _has_wild(types, base_entry)
        kids = _gen_key_children(rng, kt, names, attrs, 0, 2, not has_wild,
                                 False, None)
        if over_kt and has_wild and not _wild_defaults_ok(types, base_entry,
                                                          kt):
            over_kt, kt = None, bkt
            kids = []
            names, attrs = list(bnames), list(battrs)
        impl = None
        cands = [a for a, _ in abstract if level[a] == level[base]]
        if cands and rng.random() < 0.4:
            impl = rng.choice(cands)
        types.append({"kind": "concrete", "name": name, "keytype": over_kt,
                      "datatype": rng.choice([None, None, "wrap", "null"]),
                      "extends": base, "implements": impl, "children": kids})
        level[name] = level[base]
        info[name] = (kt, names, attrs)
        return name

    for lvl in (3, 2, 1):
        for a in abstract:
            if level[a[0]] == lvl:
                for _ in range(a[1]):
                    new_concrete(lvl, "impl", a[0])
        if lvl == 3:
            n = rng.randint(1, 2)
        elif lvl == 2:
            n = rng.randint(0, 2) if not small else rng.randint(0, 1)
        else:
            n = rng.randint(0, 1) if not small else 0
        for _ in range(n):
            new_concrete(lvl, {3: "leaf", 2: "mid", 1: "box"}[lvl])
        conc = [n for n in info if level[n] == lvl]
        for _ in range(rng.choice([0, 0, 1, 1, 2]) if not small
                       else rng.choice([0, 1])):
            if conc:
                new_derived(rng.choice(conc))
    names, attrs = [], []
    kids = _gen_key_children(rng, view["keytype"], names, attrs,
                             0 if small else 1, 2 if small else 3, True,
                             False, None)
    kids += _gen_slots(rng, view["keytype"], sorted(level), names, attrs,
                       2 if small else 4, 1)
    rng.shuffle(kids)
    view["children"] = kids
    return view


def _has_wild(types, entry):
    while entry is not None:
        for c in entry["children"]:
            if c["kind"] in ("key", "multikey") and c["name"] == "+":
                return True
        b = entry.get("extends")
        entry = [e for e in types if e["name"] == b][0] if b else None
    return False


def _wild_defaults_ok(types, entry, keytype):
    """Can the inherited wildcard defaults be re-keyed under `keytype`?"""
    while entry is not None:
        for c in entry["children"]:
            if c["kind"] in ("key", "multikey") and c["name"] == "+":
                seen = []
                for k, _ in c.get("defaults") or ():
                    try:
                        nk = KEYTYPES[keytype](k)
                    except ValueError:
                        return False
                    if c["kind"] == "key" and nk in seen:
                        return False
                    seen.append(nk)
        b = entry.get("extends")
        entry = [e for e in types if e["name"] == b][0] if b else None
    return True


def add_handlers(view, mask_bits):
    """Copy of `view` with handler attributes on the items selected by the
    iterable of booleans `mask_bits` (schema first, then every child of the
    top level and of each concrete type, in order).  Returns (view, n_items)."""
    import copy
    v = copy.deepcopy(view)
    items = [v] + list(v["children"])
    for e in v["types"]:
        if e["kind"] == "concrete":
            items.extend(e["children"])
    bits = list(mask_bits)
    for i, it in enumerate(items):
        on = bits[i] if i < len(bits) else False
        # four names shared between the items, two of them in upper case
        it["handler"] = (("H%d" if i % 2 else "h%d") % (i % 4)) if on else None
    return v, len(items)


def schema_family(seed, n, small=False):
    """n Views of the C01 family, deterministic in (seed, n-index)."""
    out = []
    i = 0
    while len(out) < n:
        rng = random.Random((seed * 1000003 + i) * 7 + (1 if small else 0))
        i += 1
        v = gen_view(rng, small)
        try:
            expand(v)
        except (BadView, ValueError):
            continue
        out.append(v)
    return out


# --- texts -----------------------------------------------------------------


def _good_value(rng, dt):
    return rng.choice(VALUE_VOCAB[dt][0])


def _text_key_for(rng, cm, tm):
    """A spelling of declared key cm.dname that normalises to it."""
    name = cm.dname
    if tm.keytype == "identifier":
        return name
    return _mixcase(rng, name)


def _concrete_for(rng, model, tname):
    t = model.types[tname]
    if t.abstract:
        return rng.choice(t.implementers) if t.implementers else None
    return tname


def gen_doc(rng, model, tm, depth=0, fill=0.6):
    """A document (list of nodes) intended to conform to container tm."""
    items = []
    used = []
    for ci, cm in enumerate(tm.children):
        want = cm.required or rng.random() < fill
        if not want:
            continue
        if cm.kind == "key":
            items.append([{"k": "kv", "key": _text_key_for(rng, cm, tm),
                           "value": _good_value(rng, cm.datatype), "ci": ci}])
        elif cm.kind == "multikey":
            grp = []
            for _ in range(rng.randint(1, 3)):
                grp.append({"k": "kv", "key": _text_key_for(rng, cm, tm),
                            "value": _good_value(rng, cm.datatype), "ci": ci})
            items.append(grp)
        elif cm.iswild():
            keys = list(WILD_KEYS[tm.keytype][:-1])
            rng.shuffle(keys)
            grp = []
            for k in keys[:rng.randint(1, 2)]:
                for _ in range(rng.randint(1, 2) if cm.kind == "wmultikey"
                               else 1):
                    grp.append({"k": "kv", "key": k, "ci": ci,
                                "value": _good_value(rng, cm.datatype)})
            items.append(grp)
        else:
            count = 1 if cm.kind == "section" else rng.randint(1, 3)
            grp = []
            for _ in range(count):
                t = _concrete_for(rng, model, cm.type)
                if t is None:
                    continue
                if cm.slot == "fixed":
                    name = cm.dname
                else:
                    cand = [n for n in SECTION_NAMES[:5]
                            if n.lower() not in used]
                    if cm.slot == "*" and (rng.random() < 0.4 or not cand):
                        name = None
                    elif cand:
                        name = rng.choice(cand)
                    else:
                        continue
                if name:
                    used.append(name.lower())
                sub = gen_doc(rng, model, model.types[t], depth + 1, fill)
                grp.append({"k": "sect", "type": t, "gtype": t, "name": name,
                            "items": sub, "ci": ci})
            if grp:
                items.append(grp)
    rng.shuffle(items)
    return [n for grp in items for n in grp]


def _containers(model, items, tm, out):
    out.append((items, tm))
    for it in items:
        if it["k"] == "sect" and it.get("gtype"):
            _containers(model, it["items"], model.types[it["gtype"]], out)
    return out


FAULTS = ["unknown-key", "dup-key", "dup-name", "unknown-type",
          "abstract-type", "wrong-type", "name-rule", "star-name",
          "missing-required", "bad-value", "extra-section", "name-is-key",
          "section-datatype", "syntax", "oov-line"]


def inject_fault(rng, model, doc, kind):
    """Mutate `doc` in place; returns True when the fault could be placed."""
    conts = _containers(model, doc, model.top, [])
    rng.shuffle(conts)
    for items, tm in conts:
        kvs = [it for it in items if it["k"] == "kv"]
        sects = [it for it in items if it["k"] == "sect"
                 and it.get("ci") is not None]
        pos = rng.randint(0, len(items))
        if kind == "unknown-key":
            items.insert(pos, {"k": "kv", "key": rng.choice(OOV_KEYS[:8]),
                               "value": "v", "ci": None})
            return True
        if kind == "oov-line":
            items.insert(pos, {"k": "kv", "key": rng.choice(
                OOV_KEYS + WILD_KEYS[tm.keytype]), "value": rng.choice(
                    ["v", "", "1"]), "ci": None})
            return True
        if kind == "dup-key":
            singles = [it for it in kvs if it.get("ci") is not None
                       and tm.children[it.get("ci")].kind in ("key", "wkey")]
            if not singles:
                continue
            src = rng.choice(singles)
            key = src["key"]
            if tm.keytype != "identifier" and rng.random() < 0.5:
                key = key.upper()
            items.insert(pos, dict(src, key=key))
            return True
        if kind == "dup-name":
            named = [it for it in sects if it["name"]]
            multi = [it for it in named
                     if tm.children[it.get("ci")].kind == "multisection"]
            if multi:
                src = rng.choice(multi)
                import copy
                dup = copy.deepcopy(src)
                dup["name"] = rng.choice([src["name"], src["name"].upper()])
                items.insert(pos, dup)
                return True
            if len(named) >= 2:
                a, b = rng.sample(named, 2)
                if tm.children[b["ci"]].slot != "fixed":
                    b["name"] = a["name"]
                    return True
            continue
        if kind in ("unknown-type", "abstract-type", "wrong-type"):
            if not sects:
                if kind == "unknown-type":
                    items.insert(pos, {"k": "sect", "type": "nosuchtype",
                                       "gtype": None, "name": None,
                                       "items": [], "ci": None})
                    return True
                continue
            s = rng.choice(sects)
            if kind == "unknown-type":
                s["type"] = rng.choice(["nosuchtype", "1type", s["type"] + "x"])
                return True
            if kind == "abstract-type":
                abst = [n for n, t in model.types.items() if t.abstract]
                if not abst:
                    continue
                s["type"] = rng.choice(abst)
                return True
            others = [n for n, t in model.types.items()
                      if not t.abstract and n != s["type"]]
            if not others:
                continue
            s["type"] = rng.choice(others)
            return True
        if kind == "name-rule":
            if not sects:
                continue
            s = rng.choice(sects)
            slot = tm.children[s["ci"]].slot
            if slot == "+":
                s["name"] = None
            elif slot == "fixed":
                s["name"] = rng.choice([None, "othername", (s["name"] or "q") + "x"])
            else:
                s["name"] = rng.choice(FIXED_NAMES + [None])
            return True
        if kind == "star-name":
            if not sects:
                continue
            rng.choice(sects)["name"] = rng.choice(["*", "+"])
            return True
        if kind == "name-is-key":
            declared = [cm.dname for cm in tm.children if cm.dname]
            free = [s for s in sects if tm.children[s["ci"]].slot != "fixed"]
            if not declared or not free:
                continue
            rng.choice(free)["name"] = rng.choice(declared)
            return True
        if kind == "missing-required":
            req = [it for it in items if it.get("ci") is not None
                   and tm.children[it.get("ci")].required]
            if not req:
                continue
            ci = rng.choice(req)["ci"]
            items[:] = [it for it in items if it.get("ci") != ci]
            return True
        if kind == "bad-value":
            cand = [it for it in kvs if it.get("ci") is not None and
                    VALUE_VOCAB[tm.children[it.get("ci")].datatype][1]]
            if not cand:
                continue
            it = rng.choice(cand)
            it["value"] = rng.choice(
                VALUE_VOCAB[tm.children[it.get("ci")].datatype][1])
            return True
        if kind == "extra-section":
            single = [s for s in sects
                      if tm.children[s["ci"]].kind == "section"]
            if not single:
                continue
            import copy
            dup = copy.deepcopy(rng.choice(single))
            if tm.children[dup["ci"]].slot != "fixed":
                dup["name"] = rng.choice([None, "second"])
            items.insert(pos, dup)
            return True
        if kind == "section-datatype":
            if tm.datatype != "checked":
                continue
            cand = [it for it in kvs if it.get("ci") is not None and
                    tm.children[it.get("ci")].datatype in ("string", "null")
                    and tm.children[it.get("ci")].kind == "key"]
            if not cand:
                continue
            rng.choice(cand)["value"] = REJECT_MARK
            return True
        if kind == "syntax":
            how = rng.choice(["unclosed", "stray-end", "mismatch", "header"])
            if how == "unclosed":
                items.insert(pos, {"k": "raw", "line": "<%s>" % (
                    sects[0]["type"] if sects else "leaf1")})
            elif how == "stray-end":
                items.insert(pos, {"k": "raw", "line": "</nosuch>"})
            elif how == "header":
                items.insert(pos, {"k": "raw", "line": rng.choice(
                    ["<>", "<a b c>", "<leaf1", "</"])})
            else:
                if not sects:
                    continue
                rng.choice(sects)["closer"] = "other"
            return True
    return False


def render_doc(rng, items, out=None, ind=""):
    top = out is None
    if top:
        out = []
    for it in items:
        if it["k"] == "kv":
            out.append(ind + it["key"] + (" " * rng.randint(1, 3)
                                          + it["value"] if it["value"] else ""))
        elif it["k"] == "raw":
            out.append(ind + it["line"])
        elif it["k"] == "import":
            out.append(ind + "%import " + it["pkg"])
        else:
            hdr = _mixcase(rng, it["type"])
            if it["name"]:
                hdr += " " + it["name"]
            if not it["items"] and "closer" not in it and rng.random() < 0.5:
                out.append(ind + "<" + hdr + rng.choice(["/>", " />"]))
            else:
                out.append(ind + "<" + hdr + ">")
                render_doc(rng, it["items"], out, ind + "  ")
                out.append(ind + "</" + it.get("closer", it["type"]) + ">")
    if top:
        if rng.random() < 0.2:
            out.insert(0, "# generated")
        return "\n".join(out) + "\n"
    return out


def texts_for(view, seed, n, packages=None, fault_rate=0.6):
    """n texts for `view`: [{'text': str, 'faults': [kind, ...]}]; roughly
    (1 - fault_rate) intended to conform, the others carry 1..3 faults."""
    model = expand(view, packages)
    out = []
    for i in range(n):
        rng = random.Random(seed * 7919 + i * 31 + 5)
        doc = gen_doc(rng, model, model.top,
                      fill=rng.choice([0.3, 0.6, 0.9]))
        faults = []
        if rng.random() < fault_rate:
            for _ in range(rng.choice([1, 1, 1, 2, 2, 3])):
                kind = rng.choice(FAULTS)
                if inject_fault(rng, model, doc, kind):
                    faults.append(kind)
        out.append({"text": render_doc(rng, doc), "faults": faults})
    return out
