"""Executable reference for the textual layer of ZConfig (C03, C04, C05, C17).

Written from the property statements in /verif/properties.jsonl and from
docs/using-zconfig.rst and docs/py-mod-subst.rst, not from the code: no `re`,
no slicing tricks shared with cfgparser/substitution, only character scans.

Outcome conventions
-------------------
Errors are exceptions:

* `RefSyntax(lineno, why)`        - the line grammar / nesting / define rules
                                    reject (a *configuration syntax error*);
* `RefSubstSyntax(why)`           - malformed `$` construct (C04);
* `RefReplacement(name, source)`  - reference without a value (C04);
* `RefRefused(lineno, directive)` - `%define` / `%include` met by the
                                    schema-less loader (C17).

Where a statement leaves open which of several applicable rejections is
reported for one line, the exception carries `alternatives`: a tuple of
outcome tags every one of which is acceptable.
"""

# --------------------------------------------------------------------------
# errors


class RefError(Exception):
    tag = "error"
    lineno = None
    alternatives = ()

    def tags(self):
        return (self.tag,) + tuple(self.alternatives)


class RefSyntax(RefError):
    tag = "syntax"

    def __init__(self, lineno=None, why="", alternatives=()):
        RefError.__init__(self, lineno, why)
        self.lineno = lineno
        self.why = why
        self.alternatives = tuple(alternatives)


class RefSubstSyntax(RefError):
    tag = "subst-syntax"

    def __init__(self, why="", lineno=None, alternatives=()):
        RefError.__init__(self, why)
        self.why = why
        self.lineno = lineno
        self.alternatives = tuple(alternatives)


class RefReplacement(RefError):
    tag = "replacement"

    def __init__(self, name, source, lineno=None, alternatives=()):
        RefError.__init__(self, name, source)
        self.name = name
        self.source = source
        self.lineno = lineno
        self.alternatives = tuple(alternatives)


class RefRefused(RefError):
    tag = "refused"

    def __init__(self, lineno, directive, alternatives=()):
        RefError.__init__(self, lineno, directive)
        self.lineno = lineno
        self.directive = directive
        self.alternatives = tuple(alternatives)


# --------------------------------------------------------------------------
# characters

def is_ws(ch):
    """Python whitespace."""
    return ch.isspace()


def _is_paren(ch):
    return ch == "(" or ch == ")"


_LETTERS = "abcdefghijklmnopqrstuvwxyzABCDEFGHIJKLMNOPQRSTUVWXYZ"
_DIGITS = "0123456789"


def _name_start(ch):
    return ch == "_" or ch in _LETTERS


def _name_char(ch):
    return ch == "_" or ch in _LETTERS or ch in _DIGITS


def strip_ws(s):
    a = 0
    b = len(s)
    while a < b and is_ws(s[a]):
        a += 1
    while b > a and is_ws(s[b - 1]):
        b -= 1
    return s[a:b]


def rstrip_ws(s):
    b = len(s)
    while b > 0 and is_ws(s[b - 1]):
        b -= 1
    return s[:b]


# --------------------------------------------------------------------------
# C04: substitution

def isname(s):
    if len(s) == 0:
        return False
    if not _name_start(s[0]):
        return False
    for ch in s[1:]:
        if not _name_char(ch):
            return False
    return True


def _scan_name(s, i):
    """End of the maximal name starting at i (== i when there is none)."""
    n = len(s)
    if i >= n or not _name_start(s[i]):
        return i
    j = i + 1
    while j < n and _name_char(s[j]):
        j += 1
    return j


def scan_refs(s):
    """The constructs of `s`, left to right, without looking anything up.

    Returns (items, error): items are ('text', t) / ('define', name) /
    ('env', name); error is None or a string when a malformed construct stops
    the scan.
    """
    items = []
    i = 0
    n = len(s)
    lit = []
    while i < n:
        ch = s[i]
        if ch != "$":
            lit.append(ch)
            i += 1
            continue
        if i + 1 >= n:
            return items + [("text", "".join(lit))], "lone $ at end"
        c = s[i + 1]
        if c == "$":
            lit.append("$")
            i += 2
            continue
        if c == "{" or c == "(":
            closer = "}" if c == "{" else ")"
            j = _scan_name(s, i + 2)
            if j == i + 2:
                return items + [("text", "".join(lit))], "no name after $" + c
            if j >= n or s[j] != closer:
                return (items + [("text", "".join(lit))],
                        "unterminated $" + c)
            items.append(("text", "".join(lit)))
            lit = []
            items.append(("define" if c == "{" else "env", s[i + 2:j]))
            i = j + 1
            continue
        j = _scan_name(s, i + 1)
        if j == i + 1:
            return items + [("text", "".join(lit))], "$ followed by junk"
        items.append(("text", "".join(lit)))
        lit = []
        items.append(("define", s[i + 1:j]))
        i = j
    items.append(("text", "".join(lit)))
    return items, None


def subst(s, mapping, env):
    """The replacement function of C04.

    `mapping` is consulted with the lower-cased name, `env` with the name as
    written.  Errors are reported left to right: everything before the first
    offending construct has been processed.
    """
    if "$" not in s:
        return s
    items, err = scan_refs(s)
    out = []
    for kind, val in items:
        if kind == "text":
            out.append(val)
        elif kind == "define":
            v = mapping.get(val.lower())
            if v is None:
                raise RefReplacement(val, s)
            out.append(v)
        else:
            v = env.get(val)
            if v is None:
                raise RefReplacement(val, s)
            out.append(v)
    if err is not None:
        raise RefSubstSyntax(err)
    return "".join(out)


# --------------------------------------------------------------------------
# C03: one physical line

def _scan_word(s, i):
    """End of the maximal run of non-whitespace non-parenthesis chars at i."""
    n = len(s)
    j = i
    while j < n and not is_ws(s[j]) and not _is_paren(s[j]):
        j += 1
    return j


def _skip_ws(s, i):
    n = len(s)
    while i < n and is_ws(s[i]):
        i += 1
    return i


def _word_then_rest(s):
    """`WORD ws* REST` -> (word, rest) or None when there is no word."""
    j = _scan_word(s, 0)
    if j == 0:
        return None
    return s[:j], s[_skip_ws(s, j):]


def _header(inner):
    """`NAME` or `NAME ws+ NAME` -> (type, name|None) lower-cased, or None."""
    j = _scan_word(inner, 0)
    if j == 0:
        return None
    if j == len(inner):
        return inner.lower(), None
    if not is_ws(inner[j]):
        return None
    k = _skip_ws(inner, j)
    m = _scan_word(inner, k)
    if m == k or m != len(inner):
        return None
    return inner[:j].lower(), inner[k:m].lower()


DIRECTIVES = ("define", "import", "include")


def line_kind(line):
    """Classify one physical line (line terminator already removed or not).

    Returns one of
      ('skip',)
      ('close', type)             type right-stripped and lower-cased
      ('open', type, name)        name None when absent
      ('empty', type, name)       the `<type [name]/>` form
      ('directive', word, arg)    word in DIRECTIVES, arg non-empty
      ('kv', key, rawvalue)       rawvalue before $-substitution, may be ''
    or raises RefSyntax (lineno left None).
    """
    s = strip_ws(line)
    if s == "" or s[0] == "#":
        return ("skip",)
    if s[0] == "<":
        if s[len(s) - 1] != ">":
            raise RefSyntax(None, "section line does not end in '>'")
        if s[1] == "/":
            # '</' TYPE '>': a closer, tried before the opener forms, so
            # '<//>' closes a section of type '/' (which cannot be opened)
            # and '</>' names the empty type, which matches nothing
            return ("close", rstrip_ws(s[2:len(s) - 1]).lower())
        inner = s[1:len(s) - 1]
        empty = False
        if inner != "" and inner[len(inner) - 1] == "/":
            empty = True
            inner = inner[:len(inner) - 1]
        hdr = _header(rstrip_ws(inner))
        if hdr is None:
            raise RefSyntax(None, "malformed section header")
        return ("empty" if empty else "open", hdr[0], hdr[1])
    if s[0] == "%":
        wr = _word_then_rest(s[1:])
        if wr is None:
            raise RefSyntax(None, "no directive after '%'")
        word, arg = wr
        if word not in DIRECTIVES:
            raise RefSyntax(None, "unknown directive")
        if arg == "":
            raise RefSyntax(None, "directive without argument")
        return ("directive", word, arg)
    wr = _word_then_rest(s)
    if wr is None:
        raise RefSyntax(None, "no key")
    return ("kv", wr[0], wr[1])


def physical_lines(text):
    """What successive readline() calls on io.StringIO(text) deliver."""
    if text == "":
        return []
    parts = text.split("\n")
    if parts[len(parts) - 1] == "":
        parts.pop()
    return parts


# --------------------------------------------------------------------------
# C05: the %define namespace

def split_define(arg):
    """`NAME [ws VALUE]` -> (name as written, value text)."""
    a = strip_ws(arg)
    j = 0
    while j < len(a) and not is_ws(a[j]):
        j += 1
    return a[:j], strip_ws(a[j:])


def define_namespace_step(ns, arg, env, lineno=None):
    """One `%define ARG` against namespace `ns` (lower-cased name -> value).

    Returns the new namespace (a new dict).  Raises a RefError whose `tags()`
    lists every acceptable rejection when more than one rule rejects.
    """
    name, raw = split_define(arg)
    reasons = []           # list of exceptions, all acceptable
    # Names are case-insensitive: legality is judged on the lower-cased name, the form
    # under which it is stored and looked up (the statement does not fix the order; the
    # only strings affected are non-ASCII characters whose lower case is an ASCII letter,
    # e.g. U+212A KELVIN SIGN).
    if not isname(name.lower()):
        reasons.append(RefSyntax(lineno, "illegal define name"))
    key = name.lower()
    value = None
    try:
        value = subst(raw, ns, env)
    except RefSubstSyntax as e:
        e.lineno = lineno
        reasons.append(e)
    except RefReplacement as e:
        e.lineno = lineno
        reasons.append(e)
    if key in ns and (value is None or ns[key] != value):
        reasons.append(RefSyntax(lineno, "redefinition with another value"))
    if reasons:
        first = reasons[0]
        first.alternatives = tuple(r.tag for r in reasons[1:])
        raise first
    new = dict(ns)
    new[key] = value
    return new


def define_step_compares_unexpanded(ns, arg, env, lineno=None):
    """NOT the specification: the behaviour of the known defect
    `C05:redefine-compares-unexpanded` (the guard compares the stored expanded
    value with the new value text before expansion).  Used by stand-ins only
    to label a discrepancy that is exactly this behaviour."""
    name, raw = split_define(arg)
    key = name.lower()
    if key in ns and ns[key] != raw:
        raise RefSyntax(lineno, "redefinition (unexpanded comparison)")
    if not isname(key):       # as in define_namespace_step
        raise RefSyntax(lineno, "illegal define name")
    try:
        value = subst(raw, ns, env)
    except RefError as e:
        e.lineno = lineno
        raise
    new = dict(ns)
    new[key] = value
    return new


# --------------------------------------------------------------------------
# events: what a parse delivers to its context (C03 observation point b)

class Events:
    """Flat trace with section ids in order of creation (top is 0)."""

    def __init__(self):
        self.trace = []
        self.nsect = 1
        self.defines = {}


def parse_events(text, env=None, ev=None, define_step=None):
    """Interpret `text` as one resource; %include is recorded, not followed.

    Returns Events; on rejection raises a RefError carrying `.events` (the
    trace delivered before the rejection).  `define_step` replaces
    define_namespace_step (triage of discrepancies only).
    """
    if env is None:
        env = {}
    if ev is None:
        ev = Events()
    stack = []      # (type, name, container id, own id)
    cur = 0
    lineno = 0
    try:
        for line in physical_lines(text):
            lineno += 1
            try:
                k = line_kind(line)
            except RefSyntax as e:
                e.lineno = lineno
                raise
            if k[0] == "skip":
                continue
            if k[0] == "open" or k[0] == "empty":
                sid = ev.nsect
                ev.nsect += 1
                ev.trace.append(("start", cur, sid, k[1], k[2]))
                if k[0] == "empty":
                    ev.trace.append(("end", cur, sid, k[1], k[2]))
                else:
                    stack.append((k[1], k[2], cur, sid))
                    cur = sid
            elif k[0] == "close":
                if not stack:
                    raise RefSyntax(lineno, "surplus closer")
                t, nm, parent, sid = stack[len(stack) - 1]
                if t != k[1]:
                    raise RefSyntax(lineno, "mismatched closer")
                stack.pop()
                ev.trace.append(("end", parent, sid, t, nm))
                cur = parent
            elif k[0] == "kv":
                ev.trace.append(("value", cur, k[1],
                                 _subst_at(k[2], ev.defines, env, lineno),
                                 lineno))
            else:
                word, arg = k[1], k[2]
                if word == "define":
                    ev.defines = (define_step or define_namespace_step)(
                        ev.defines, arg, env, lineno)
                elif word == "import":
                    ev.trace.append(("import", _subst_at(
                        strip_ws(arg), ev.defines, env, lineno)))
                else:
                    ev.trace.append(("include", cur, _subst_at(
                        strip_ws(arg), ev.defines, env, lineno)))
        if stack:
            raise RefSyntax(lineno, "unclosed section")
    except RefError as e:
        e.events = ev
        raise
    return ev


def _subst_at(s, ns, env, lineno):
    try:
        return subst(s, ns, env)
    except RefError as e:
        e.lineno = lineno
        raise


# --------------------------------------------------------------------------
# C03 / C17: the schema-less loader

def parse_schemaless(text, env=None):
    """What ZConfig.schemaless.loadConfigFile(StringIO(text)) should give.

    Returns {'type': '', 'name': '', 'keys': {...}, 'sections': [...],
    'imports': [...]}; nested sections have no 'imports'.  The define
    namespace is empty throughout because %define and %include are refused.
    """
    if env is None:
        env = {}
    top = {"type": "", "name": "", "keys": {}, "sections": [], "imports": []}
    stack = []
    cur = top
    lineno = 0
    for line in physical_lines(text):
        lineno += 1
        try:
            k = line_kind(line)
        except RefSyntax as e:
            e.lineno = lineno
            raise
        if k[0] == "skip":
            continue
        if k[0] == "open" or k[0] == "empty":
            sec = {"type": k[1], "name": k[2], "keys": {}, "sections": []}
            cur["sections"].append(sec)
            if k[0] == "open":
                stack.append((k[1], cur))
                cur = sec
        elif k[0] == "close":
            if not stack:
                raise RefSyntax(lineno, "surplus closer")
            t, parent = stack[len(stack) - 1]
            if t != k[1]:
                raise RefSyntax(lineno, "mismatched closer")
            stack.pop()
            cur = parent
        elif k[0] == "kv":
            v = _subst_at(k[2], {}, env, lineno)
            cur["keys"].setdefault(k[1], []).append(v)
        else:
            word, arg = k[1], k[2]
            if word == "import":
                nm = _subst_at(strip_ws(arg), {}, env, lineno)
                if nm not in top["imports"]:
                    top["imports"].append(nm)
            elif word == "define":
                raise RefRefused(lineno, "define")
            else:
                # the argument of %include is a value like any other; the
                # statements do not say whether a bad '$' in it is noticed
                # before the refusal
                alt = ()
                try:
                    subst(strip_ws(arg), {}, env)
                except RefError as e:
                    alt = (e.tag,)
                raise RefRefused(lineno, "include", alt)
    if stack:
        raise RefSyntax(lineno, "unclosed section")
    return top


# --------------------------------------------------------------------------
# C05: defines across included resources

def run_defines(lines_by_resource, main, env=None, on_define=None,
                define_step=None):
    """Interpret resource `main` (a list of lines) with `%include NAME`
    resolved in `lines_by_resource`.

    `on_define(resource, lineno, name, rawvalue, namespace_before)` is called
    for every %define line reached, and `define_step` replaces
    define_namespace_step (both for triage of discrepancies only: a stand-in
    may ask "is the observed behaviour the one of defect model X?").

    One namespace per call, shared with every included resource.  Returns
    ('ok', {key: [values]}, namespace) or ('error', tags, resource, lineno,
    why) where tags is the tuple of acceptable rejection tags and why a short
    description of the first applicable rule.
    Only top-level keys, defines and includes are interpreted; section lines
    are handled per C03 (an included resource must balance its own sections).
    """
    if env is None:
        env = {}
    state = {"ns": {}, "keys": {}}

    class Stop(Exception):
        pass

    def run(res, depth):
        if depth > 50:
            raise Stop(("recursion",), res, 0)
        lineno = 0
        stack = []
        for line in lines_by_resource[res]:
            lineno += 1
            try:
                k = line_kind(line)
                if k[0] == "skip":
                    continue
                if k[0] == "kv":
                    v = subst(k[2], state["ns"], env)
                    if not stack:
                        state["keys"].setdefault(k[1], []).append(v)
                elif k[0] == "open":
                    stack.append(k[1])
                elif k[0] == "empty":
                    pass
                elif k[0] == "close":
                    if not stack or stack[len(stack) - 1] != k[1]:
                        raise RefSyntax(lineno, "closer")
                    stack.pop()
                elif k[1] == "define":
                    if on_define is not None:
                        nm, raw = split_define(k[2])
                        on_define(res, lineno, nm, raw, state["ns"])
                    state["ns"] = (define_step or define_namespace_step)(
                        state["ns"], k[2], env, lineno)
                elif k[1] == "include":
                    target = subst(strip_ws(k[2]), state["ns"], env)
                    if target not in lines_by_resource:
                        raise Stop(("missing-resource",), res, lineno)
                    run(target, depth + 1)
                else:
                    subst(strip_ws(k[2]), state["ns"], env)
            except RefError as e:
                raise Stop(e.tags(), res, lineno,
                           getattr(e, "why", "") or e.tag)
        if stack:
            raise Stop(("syntax",), res, lineno, "unclosed section")

    try:
        run(main, 0)
    except Stop as e:
        tags, res, lineno = e.args[:3]
        why = e.args[3] if len(e.args) > 3 else tags[0]
        return ("error", tuple(tags), res, lineno, why)
    return ("ok", state["keys"], state["ns"])
