"""Small fixed corpus shared by the stand-ins C06 C07 C08 C15 C18 C19.

* ``SCHEMAS``: a fixed hand-written family of ten small schemas.  Each is
  written once as a Python model (``Sch`` / ``T`` / ``A`` / ``K`` / ``S``) and
  rendered to the XML text ``sch.xml`` that is handed to ZConfig; the model is
  what the text generator walks, so generator and schema cannot drift apart.
* ``gen_tree(sch, seed)``: deterministic generator of VALID configuration
  texts as a tree of ``Node`` objects (keys, ``%define``s / ``$name``
  references, comments, blank lines, nested sections, both spellings of an
  empty section).
* ``flatten(tree)``: the text as a list of ``Line`` records carrying the
  *role* of every line (``key`` / ``define`` / ``comment`` / ``blank`` /
  ``open`` / ``close`` / ``empty``), its depth, its node and its container, so
  that faults can be injected at known lines.
* helpers: ``value_tree`` (structural value comparison), ``outcome``,
  ``load_schema``, ``syntactic_depths`` / ``balanced_ranges`` (section
  nesting judged from the text alone), ``parse_tree`` (hand-written texts ->
  Node tree), ``self_test``.

The corpus is *not* a reference model of ZConfig: expected values are always
obtained relationally (real code vs real code) or by construction.
"""
import io
import random

# --------------------------------------------------------------------------
# schema model


class K:
    """key / multikey; name '+' is the wildcard key."""

    def __init__(self, name, dt="string", required=False, default=None,
                 multi=False, defaults=(), attribute=None):
        self.name = name
        self.dt = dt
        self.required = required
        self.default = default          # single key default attribute
        self.multi = multi
        self.defaults = list(defaults)  # multikey: [v,...]; '+': [(k, v),...]
        self.attribute = attribute
        self.is_key = True


class S:
    """section / multisection slot; name is fixed, '*' or '+'."""

    def __init__(self, type, name="*", multi=False, required=False,
                 attribute=None):
        self.type = type
        self.name = name
        self.multi = multi
        self.required = required
        self.attribute = attribute
        self.is_key = False


class A:
    def __init__(self, name):
        self.name = name
        self.abstract = True


class T:
    def __init__(self, name, items, keytype=None, extends=None,
                 implements=None):
        self.name = name
        self.items = items
        self.keytype = keytype
        self.extends = extends
        self.implements = implements
        self.abstract = False


class Sch:
    def __init__(self, name, items, types=(), keytype=None):
        self.name = name
        self.items = items
        self.types = list(types)
        self.keytype = keytype
        self.xml = render_xml(self)

    # ---- model queries
    def type(self, name):
        for t in self.types:
            if t.name == name:
                return t
        raise KeyError(name)

    def items_of(self, t):
        """Own + inherited items of a type (or of the schema when t is None)."""
        if t is None:
            return list(self.items)
        out = []
        if t.extends:
            out.extend(self.items_of(self.type(t.extends)))
        out.extend(t.items)
        return out

    def keytype_of(self, t):
        if t is None:
            return self.keytype or "basic-key"
        if t.keytype:
            return t.keytype
        if t.extends:
            return self.keytype_of(self.type(t.extends))
        return "basic-key"

    def concrete(self, typename):
        """Concrete types usable in a slot of type ``typename``."""
        t = self.type(typename)
        if t.abstract:
            return [x for x in self.types
                    if not x.abstract and x.implements == typename]
        return [t]


def _esc(s):
    return (s.replace("&", "&amp;").replace("<", "&lt;")
            .replace('"', "&quot;"))


def _render_items(items, ind, out):
    for it in items:
        if it.is_key:
            tag = "multikey" if it.multi else "key"
            a = ' name="%s"' % _esc(it.name)
            if it.dt != "string":
                a += ' datatype="%s"' % it.dt
            if it.required:
                a += ' required="yes"'
            if it.attribute:
                a += ' attribute="%s"' % it.attribute
            if it.default is not None:
                a += ' default="%s"' % _esc(it.default)
            if it.defaults:
                out.append("%s<%s%s>" % (ind, tag, a))
                for d in it.defaults:
                    if it.name == "+":
                        out.append('%s  <default key="%s">%s</default>'
                                   % (ind, _esc(d[0]), _esc(d[1])))
                    else:
                        out.append("%s  <default>%s</default>"
                                   % (ind, _esc(d)))
                out.append("%s</%s>" % (ind, tag))
            else:
                out.append("%s<%s%s/>" % (ind, tag, a))
        else:
            tag = "multisection" if it.multi else "section"
            a = ' type="%s" name="%s"' % (it.type, it.name)
            if it.attribute:
                a += ' attribute="%s"' % it.attribute
            if it.required:
                a += ' required="yes"'
            out.append("%s<%s%s/>" % (ind, tag, a))


def render_xml(sch):
    out = ["<schema%s>" % (' keytype="%s"' % sch.keytype
                           if sch.keytype else "")]
    for t in sch.types:
        if t.abstract:
            out.append('  <abstracttype name="%s"/>' % t.name)
            continue
        a = ' name="%s"' % t.name
        if t.keytype:
            a += ' keytype="%s"' % t.keytype
        if t.extends:
            a += ' extends="%s"' % t.extends
        if t.implements:
            a += ' implements="%s"' % t.implements
        out.append("  <sectiontype%s>" % a)
        _render_items(t.items, "    ", out)
        out.append("  </sectiontype>")
    _render_items(sch.items, "  ", out)
    out.append("</schema>")
    return "\n".join(out) + "\n"


# --------------------------------------------------------------------------
# the ten schemas

SCHEMAS = [
    # 1: flat keys of every datatype, multikeys with and without defaults
    Sch("flat", [
        K("name", default="dflt"),
        K("count", "integer", required=True),
        K("flag", "boolean", default="no"),
        K("port", "port-number"),
        K("max-size", "byte-size", default="1KB"),
        K("ident", "identifier"),
        K("item", multi=True),
        K("num", "integer", multi=True, defaults=["1", "2"]),
    ]),
    # 2: wildcard keys with and without defaults, wildcard multikey
    Sch("wild", [
        K("base"),
        K("+", "integer", attribute="extras"),
        S("bag", "*", attribute="bag"),
        S("mbag", "*", attribute="mbag"),
    ], types=[
        T("bag", [K("+", "integer", attribute="map",
                    defaults=[("alpha", "1"), ("beta", "2")]),
                  K("fixed", "boolean", default="yes")]),
        T("mbag", [K("+", attribute="multi", multi=True)]),
    ]),
    # 3: fixed-name slot, '*' slot, multisection '*', required section
    Sch("sections", [
        S("leaf", "main", required=True),
        S("node", "*", attribute="node"),
        K("title"),
    ], types=[
        T("leaf", [K("v", "integer", required=True), K("w", default="w0")]),
        T("node", [K("label"),
                   S("leaf", "*", multi=True, attribute="leaves")]),
    ]),
    # 4: multisection '+' (required) and '*'
    Sch("multisections", [
        S("srv", "+", multi=True, required=True, attribute="servers"),
        S("opt", "*", multi=True, attribute="opts"),
    ], types=[
        T("srv", [K("port", "port-number", required=True),
                  K("host", default="localhost"),
                  K("alias", "identifier", multi=True)]),
        T("opt", [K("k")]),
    ]),
    # 5: nesting depth 3
    Sch("nested3", [
        S("a", "*", multi=True, attribute="as_"),
        K("top", "integer", default="0"),
    ], types=[
        T("c", [K("x", "integer", required=True), K("y", "boolean")]),
        T("b", [S("c", "+", multi=True, attribute="cs"),
                K("bk", "byte-size")]),
        T("a", [S("b", "*", attribute="b"), K("ak")]),
    ]),
    # 6: abstract type with two implementers
    Sch("abstract", [
        S("store", "*", required=True, attribute="store"),
        S("pool", "*", attribute="pool"),
    ], types=[
        A("store"),
        T("filestore", [K("path", required=True),
                        K("size", "byte-size", default="10MB")],
          implements="store"),
        T("memstore", [K("limit", "integer", default="100")],
          implements="store"),
        T("pool", [S("store", "+", multi=True, attribute="members"),
                   K("policy", "identifier", default="rr")]),
    ]),
    # 7: derived (extends) type
    Sch("derived", [
        S("base", "*", attribute="base"),
        S("derived", "*", multi=True, attribute="ders"),
    ], types=[
        T("base", [K("a", "integer", default="1"), K("b")]),
        T("derived", [K("c", "boolean", required=True)], extends="base"),
    ]),
    # 8: identifier key type (case-sensitive, keys can be unconvertible)
    Sch("identkeys", [
        K("Alpha", "integer"),
        K("beta_2", required=True),
        K("+", attribute="rest"),
        S("sub", "*", multi=True, attribute="subs"),
    ], types=[
        T("sub", [K("Gamma", "integer", required=True), K("delta")],
          keytype="identifier"),
    ], keytype="identifier"),
    # 9: everything mixed, depth 3
    Sch("mixed", [
        S("svc", "+", multi=True, attribute="services"),
        K("debug", "boolean", default="off"),
        K("limit", "byte-size"),
    ], types=[
        A("auth"),
        T("ep", [K("host", required=True),
                 K("port", "port-number", default="80")]),
        T("grp", [S("ep", "+", multi=True, required=True, attribute="eps"),
                  K("+", attribute="opts",
                    defaults=[("mode", "fast"), ("level", "3")]),
                  K("weight", "integer", default="1")]),
        T("basic", [K("user", "identifier", required=True), K("realm")],
          implements="auth"),
        T("token", [K("secret", required=True), K("scope", multi=True)],
          implements="auth"),
        T("svc", [S("grp", "primary", required=True),
                  S("auth", "*", attribute="auth"),
                  K("tag", multi=True, required=True)]),
    ]),
    # 10: required multikey
    Sch("reqmulti", [
        K("path", multi=True, required=True),
        K("mode", "identifier", default="rw"),
    ]),
]

SCHEMA_BY_NAME = {s.name: s for s in SCHEMAS}


# --------------------------------------------------------------------------
# text tree


class Node:
    """kind: 'key' 'define' 'comment' 'blank' 'section' ('root' for the top).

    key:      key, value (raw text after the key), item (K or None)
    define:   name, value
    comment/blank: text
    section:  type, name (or None), children, empty (``<t/>`` spelling),
              slot (S or None), tmodel (T or None), ci_keys (keys are
              case-insensitive in this container)
    ``uses``: names referenced via ``$`` in this line (lower case).
    """

    def __init__(self, kind, **kw):
        self.kind = kind
        self.indent = None      # explicit indentation override
        self.trail = ""         # trailing whitespace
        self.uses = ()
        self.children = []
        self.empty = False
        self.ci_keys = True
        self.__dict__.update(kw)

    def copy(self):
        n = Node(self.kind)
        n.__dict__.update(self.__dict__)
        n.children = [c.copy() for c in self.children]
        return n


class Line:
    def __init__(self, text, role, node, depth, container):
        self.text = text
        self.role = role
        self.node = node
        self.depth = depth
        self.container = container   # enclosing section/root Node

    def __repr__(self):
        return "<Line %s %r>" % (self.role, self.text)


def _header(n, close=False):
    if close:
        return "</%s>" % (getattr(n, "close_type", None) or n.type)
    s = "<" + n.type
    if n.name:
        s += " " + n.name
    return s + ("/>" if n.empty else ">")


def flatten(root):
    """-> list of Line (reading order)."""
    out = []

    def walk(container, depth):
        for n in container.children:
            ind = n.indent if n.indent is not None else "  " * depth
            if n.kind == "key":
                t = n.key + ((" " + n.value) if n.value != "" else "")
                out.append(Line(ind + t + n.trail, "key", n, depth,
                                container))
            elif n.kind == "define":
                t = "%define " + n.name + (
                    (" " + n.value) if n.value != "" else "")
                out.append(Line(ind + t + n.trail, "define", n, depth,
                                container))
            elif n.kind in ("comment", "blank"):
                out.append(Line(ind + n.text + n.trail if n.kind == "comment"
                                else n.text, n.kind, n, depth, container))
            elif n.kind == "raw":
                out.append(Line(ind + n.text, "raw", n, depth, container))
            elif n.kind == "section":
                if n.empty:
                    out.append(Line(ind + _header(n) + n.trail, "empty", n,
                                    depth, container))
                else:
                    out.append(Line(ind + _header(n) + n.trail, "open", n,
                                    depth, container))
                    walk(n, depth + 1)
                    ind2 = (n.indent2 if getattr(n, "indent2", None)
                            is not None else ind)
                    out.append(Line(ind2 + _header(n, True), "close", n,
                                    depth, container))
    walk(root, 0)
    return out


def text_of(lines):
    return "".join(
        (l.text if isinstance(l, Line) else l) + "\n" for l in lines)


def tree_text(root):
    return text_of(flatten(root))


# --------------------------------------------------------------------------
# valid-text generator

_VALUES = {
    "integer": ["0", "7", "42", "-3", "1000"],
    "boolean": ["yes", "no", "true", "false", "on", "off", "Yes", "OFF"],
    "string": ["hello", "hello world", "a=b", "x # not a comment",
               "semi;colon", "path/to/thing", "<not-a-section>", "100%",
               ""],
    "port-number": ["0", "80", "8080", "65535"],
    "byte-size": ["0", "17", "10KB", "3mb", "1Gb"],
    "identifier": ["abc", "a_1", "_x", "CamelCase"],
}

BAD_VALUES = {
    "integer": ["x1", "1.5", "seven"],
    "boolean": ["maybe", "2"],
    "port-number": ["70000", "-1", "http"],
    "byte-size": ["12xb", "kb", "1.5mb"],
    "identifier": ["9a", "a-b", "a b"],
}

_DEFINE_POOL = [
    # (name as written, kind, value)
    ("N", "int", "7"), ("digit", "int", "3"), ("Word", "word", "alpha"),
    ("w2", "word", "beta_x"), ("Flag", "bool", "yes"), ("sz", "size", "2kb"),
    ("Base_Dir", "word", "/var/tmp"), ("empty", "word", ""),
]

_WILD_BASIC = ["xa", "xb", "extra-1", "opt.two", "Zed"]
_WILD_IDENT = ["xa", "Xb", "ex_3", "_u"]


class _Gen:
    def __init__(self, sch, rng, rich):
        self.sch = sch
        self.rng = rng
        self.rich = rich
        self.defined = []   # [(lower name, kind, value)] in reading order
        self.pool = list(_DEFINE_POOL)
        rng.shuffle(self.pool)

    # -- defines
    def new_define(self):
        if not self.pool:
            return None
        name, kind, value = self.pool.pop()
        uses = ()
        r = self.rng
        # a define may itself reference an earlier define of the same kind
        cands = [d for d in self.defined if d[1] == kind and kind == "word"]
        if cands and r.random() < 0.3:
            d = r.choice(cands)
            value = "$" + d[0] + "-" + value
            uses = (d[0],)
        n = Node("define", name=name, value=value, uses=uses)
        self.defined.append((name.lower(), kind))
        return n

    def ref(self, kind):
        c = [d[0] for d in self.defined if d[1] == kind]
        if not c:
            return None
        name = self.rng.choice(c)
        spell = self.rng.choice([name, name.upper(), name.capitalize()])
        form = self.rng.choice(["$%s", "${%s}"])
        return name, form % spell

    def value(self, dt):
        r = self.rng
        plain = r.choice(_VALUES[dt])
        if r.random() > 0.45:
            return plain, ()
        if dt == "integer":
            x = self.ref("int")
            if x:
                return r.choice(["", "1"]) + x[1], (x[0],)
        elif dt == "port-number":
            x = self.ref("int")
            if x:
                return "80" + x[1], (x[0],)
        elif dt == "boolean":
            x = self.ref("bool")
            if x:
                return x[1], (x[0],)
        elif dt == "byte-size":
            x = self.ref("size")
            if x:
                return x[1], (x[0],)
            x = self.ref("int")
            if x:
                return "${%s}kb" % x[0], (x[0],)
        elif dt == "identifier":
            x = self.ref("int")
            if x:
                return "x${%s}_y" % x[0], (x[0],)
        elif dt == "string":
            x = self.ref("word")
            if x:
                return r.choice(["pre-%s post", "%s", "cost $$5 %s",
                                 "%s/sub"]) % x[1], (x[0],)
            return "price $$" + plain, ()
        return plain, ()

    # -- bodies
    def body(self, tmodel, depth):
        sch, r = self.sch, self.rng
        items = sch.items_of(tmodel)
        keytype = sch.keytype_of(tmodel)
        fixed = {it.name for it in items if it.is_key}
        groups = []
        used_names = set()
        counter = [0]

        def secname():
            counter[0] += 1
            nm = "%s%d" % (r.choice(["s", "Sec", "n-"]), counter[0])
            used_names.add(nm.lower())
            return nm

        for it in items:
            if it.is_key:
                if it.name == "+":
                    pool = _WILD_IDENT if keytype == "identifier" \
                        else _WILD_BASIC
                    pool = [k for k in pool if k not in fixed
                            and k.lower() not in {f.lower() for f in fixed}]
                    n = r.choice([0, 1, 2, 3])
                    for k in r.sample(pool, min(n, len(pool))):
                        reps = r.choice([1, 2]) if it.multi else 1
                        for _ in range(reps):
                            groups.append(("key", it, k))
                    continue
                if it.multi:
                    lo = 1 if it.required else 0
                    n = r.choice([lo, lo + 1, 3])
                elif it.required:
                    n = 1
                else:
                    n = 1 if r.random() < 0.6 else 0
                for _ in range(n):
                    groups.append(("key", it, it.name))
            else:
                if it.multi:
                    lo = 1 if it.required else 0
                    n = r.choice([lo, lo, 1, 2])
                elif it.required:
                    n = 1
                else:
                    n = 1 if r.random() < 0.6 else 0
                if depth >= 3:
                    n = min(n, 1) if it.required else 0
                for _ in range(n):
                    groups.append(("sect", it, None))
        r.shuffle(groups)
        # keep repeated multikey lines / sections in any order: all orders
        # are valid; section names are made unique below.
        out = []
        for kind, it, key in groups:
            if self.rich:
                x = r.random()
                if x < 0.12:
                    out.append(Node("comment", text=r.choice(
                        ["# a comment", "#", "# <not> a %section $x",
                         "#key value"])))
                elif x < 0.2:
                    out.append(Node("blank", text=r.choice(["", "   ", "\t"])))
                elif x < 0.3:
                    d = self.new_define()
                    if d is not None:
                        out.append(d)
            if kind == "key":
                val, uses = self.value(it.dt)
                out.append(Node("key", key=key, value=val, item=it,
                                uses=uses))
            else:
                conc = r.choice(sch.concrete(it.type))
                if it.name == "*":
                    name = secname() if r.random() < 0.5 else None
                elif it.name == "+":
                    name = secname()
                else:
                    name = it.name
                n = Node("section", type=conc.name, name=name, slot=it,
                         tmodel=conc,
                         ci_keys=sch.keytype_of(conc) == "basic-key")
                n.children = self.body(conc, depth + 1)
                if not n.children and r.random() < 0.5:
                    n.empty = True
                out.append(n)
        return out


def gen_tree(sch, seed, rich=True):
    """Deterministic valid text (as a tree) for schema ``sch``."""
    rng = random.Random("corpus:%s:%s" % (sch.name, seed))
    g = _Gen(sch, rng, rich)
    root = Node("root", type=None, name=None, tmodel=None,
                ci_keys=sch.keytype_of(None) == "basic-key")
    pre = []
    if rich:
        for _ in range(rng.choice([0, 1, 2, 3])):
            d = g.new_define()
            if d is not None:
                pre.append(d)
    root.children = pre + g.body(None, 0)
    return root


def gen_text(sch, seed, rich=True):
    root = gen_tree(sch, seed, rich)
    lines = flatten(root)
    return text_of(lines), lines, root


# --------------------------------------------------------------------------
# loading helpers / structural comparison

_schema_cache = {}


def load_schema(sch_or_xml):
    """Loaded ZConfig schema for a corpus schema (cached per process)."""
    import ZConfig
    xml = sch_or_xml if isinstance(sch_or_xml, str) else sch_or_xml.xml
    s = _schema_cache.get(xml)
    if s is None:
        s = ZConfig.loadSchemaFile(io.StringIO(xml))
        _schema_cache[xml] = s
    return s


def value_tree(v, _depth=0, _seen=None):
    """Structural, comparable image of a loaded value."""
    from ZConfig.matcher import SectionValue
    if _seen is None:
        _seen = set()
    if isinstance(v, SectionValue):
        return ("S", v.getSectionType(), v.getSectionName(),
                tuple((a, value_tree(getattr(v, a), _depth + 1, _seen))
                      for a in sorted(v.getSectionAttributes())))
    if isinstance(v, (list, tuple)):
        return (type(v).__name__,
                tuple(value_tree(x, _depth + 1, _seen) for x in v))
    if isinstance(v, dict):
        return ("dict", tuple(sorted(
            ((repr(k), value_tree(x, _depth + 1, _seen))
             for k, x in v.items()))))
    if v is None or isinstance(v, (str, int, float, bool, bytes)):
        return (type(v).__name__, v)
    if isinstance(v, type) or callable(v) and hasattr(v, "__qualname__") \
            and not hasattr(v, "__dict__"):
        return ("callable", getattr(v, "__qualname__", repr(type(v))))
    if type(v) is object:
        return ("object",)
    if id(v) in _seen or _depth > 12:
        return ("cycle", type(v).__name__)
    d = getattr(v, "__dict__", None)
    if d is not None:
        _seen = _seen | {id(v)}
        return ("obj", type(v).__module__ + "." + type(v).__qualname__,
                tuple((k, value_tree(x, _depth + 1, _seen))
                      for k, x in sorted(d.items())
                      if k != "_matcher"))
    return ("repr", type(v).__name__, repr(v))


def outcome(fn, *a, **kw):
    """('ok', value_tree) or ('rejected', exception) for a load call."""
    try:
        cfg, _h = fn(*a, **kw)
    except RecursionError as e:      # keep tracebacks short
        return ("rejected", e)
    except Exception as e:           # noqa: BLE001 - every escape is recorded
        return ("rejected", e)
    return ("ok", value_tree(cfg))


def fast_tmp():
    """Directory argument for tempfile.mkdtemp: a tmpfs when there is one
    (rmdir on the sandbox's /tmp costs milliseconds), else the default."""
    import os
    d = "/dev/shm"
    return d if os.path.isdir(d) and os.access(d, os.W_OK) else None


def load_text(schema, text, **kw):
    import ZConfig
    return outcome(ZConfig.loadConfigFile, schema, io.StringIO(text), **kw)


def same_outcome(a, b):
    if a[0] != b[0]:
        return False
    return a[0] == "rejected" or a[1] == b[1]


def brief(o):
    if o[0] == "ok":
        return "ok"
    e = o[1]
    return "rejected:%s:%s" % (type(e).__name__, str(e)[:100])


# --------------------------------------------------------------------------
# section nesting judged from the text alone (for arbitrary, also invalid,
# texts): the grammar's line classes from docs/using-zconfig / cfgparser
# header comment: '</' closes, '<' ... '/>' is an empty section, '<' opens.

def line_class(line):
    s = line.strip()
    if s.startswith("</"):
        return "close"
    if s.startswith("<"):
        return "empty" if s.endswith("/>") else "open"
    return "other"


def balanced_ranges(lines, max_len=None):
    """All (i, j) such that lines[i:j] (j > i) is balanced w.r.t. nesting."""
    cls = [line_class(l if isinstance(l, str) else l.text) for l in lines]
    n = len(cls)
    out = []
    for i in range(n):
        d = 0
        for j in range(i, n):
            if cls[j] == "open":
                d += 1
            elif cls[j] == "close":
                d -= 1
                if d < 0:
                    break
            if d == 0 and (max_len is None or j + 1 - i <= max_len):
                out.append((i, j + 1))
    return out


# --------------------------------------------------------------------------
# hand-written text -> Node tree (only for VALID hand-written texts, used for
# the shipped components in C15; a line classifier, not a ZConfig parser)

def parse_tree(text, ci_keys=lambda typename: True):
    root = Node("root", type=None, name=None, tmodel=None,
                ci_keys=ci_keys(None))
    stack = [root]
    import re
    for raw in text.splitlines():
        s = raw.strip()
        cur = stack[-1]
        if s == "":
            cur.children.append(Node("blank", text=""))
        elif s.startswith("#"):
            cur.children.append(Node("comment", text=s))
        elif s.startswith("</"):
            stack.pop()
        elif s.startswith("<"):
            inner = s[1:-1]
            empty = inner.endswith("/")
            if empty:
                inner = inner[:-1]
            parts = inner.split()
            n = Node("section", type=parts[0],
                     name=parts[1] if len(parts) > 1 else None, slot=None,
                     tmodel=None, ci_keys=ci_keys(parts[0].lower()))
            n.empty = empty
            cur.children.append(n)
            if not empty:
                stack.append(n)
        elif s.startswith("%define"):
            parts = s.split(None, 2)
            val = parts[2] if len(parts) > 2 else ""
            cur.children.append(Node(
                "define", name=parts[1], value=val,
                uses=tuple(x.lower() for x in re.findall(
                    r"\$\{?([A-Za-z_][A-Za-z0-9_]*)", val.replace("$$", "")))))
        elif s.startswith("%"):
            cur.children.append(Node("raw", text=s))
        else:
            parts = s.split(None, 1)
            val = parts[1] if len(parts) > 1 else ""
            cur.children.append(Node(
                "key", key=parts[0], value=val, item=None,
                uses=tuple(x.lower() for x in re.findall(
                    r"\$\{?([A-Za-z_][A-Za-z0-9_]*)", val.replace("$$", "")))))
    assert len(stack) == 1, "unbalanced hand-written text"
    return root


# --------------------------------------------------------------------------

def self_test(n_per_schema=40):
    """Every generated text must really load; roles must agree with text."""
    import ZConfig
    total = 0
    for sch in SCHEMAS:
        schema = load_schema(sch)
        for seed in range(n_per_schema):
            for rich in (True, False):
                text, lines, root = gen_text(sch, seed, rich)
                try:
                    ZConfig.loadConfigFile(schema, io.StringIO(text))
                except Exception as e:
                    raise AssertionError(
                        "corpus text does not load: %s seed %s rich %s: %r\n%s"
                        % (sch.name, seed, rich, e, text))
                for l in lines:
                    c = line_class(l.text)
                    want = l.role if l.role in ("open", "close", "empty") \
                        else "other"
                    assert c == want, (l, c)
                # round trip through the hand parser keeps the text shape
                t2 = tree_text(parse_tree(text))
                assert [x.strip() for x in t2.splitlines()] == \
                    [x.strip() for x in text.splitlines()], (text, t2)
                total += 1
    return total


if __name__ == "__main__":
    from standins.common import use_repo
    use_repo()
    print("corpus self-test: %d texts loaded" % self_test())
    for s in SCHEMAS[:3]:
        print(s.xml)
        print(gen_text(s, 1)[0])
