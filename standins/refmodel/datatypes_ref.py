"""Independent reference for the stock ZConfig datatypes (property C09).

Written from the C09 statement and docs/standard-datatypes.rst, with plain
string code only (no ``re``).  Python's own ``int()`` / ``float()`` are used
for the integer / float grammar because that grammar *is* CPython's.

Every reference function maps a string to an ``Expect``:

* ``ok``   - list of acceptable return values (usually one)
* ``err``  - tuple of acceptable exception classes (usually ``ValueError``)
* ``why``  - tag of the clause of the contract that decided; it becomes part
             of the violation signature, so that one root cause = one ``sig``

Where neither the statement nor the documentation decides an input class the
reference lists *both* outcomes (``ok`` and ``err`` non-empty); those classes
are enumerated in ``UNSPECIFIED`` below and are not findings.
"""
import datetime
import math
import socket
import unicodedata
from fractions import Fraction

UNSPECIFIED = [
    "identifier/dotted-name/dotted-suffix: non-ASCII strings that are Python 3"
    " identifiers (docs say 'any valid Python identifier', written for"
    " Python 2); either outcome accepted",
    "inet-*: an integer outside 0..65535 without colon (port error or host"
    " name), 'host:' with empty port, a fully bracketed '[addr]' without"
    " port, hosts containing white space or brackets when a colon is present",
    "timedelta: a part with both an invalid number and an unknown unit"
    " (ValueError or TypeError); the same unit given twice (sum or last"
    " wins); upper-case unit letters are unknown units (docs list lower"
    " case only)",
    "string: non-ASCII input (docs describe a Python 2 '7-bit' check)",
    "case-insensitive suffix / word comparison is comparison after"
    " str.lower()",
]


class Expect:
    __slots__ = ("ok", "err", "why")

    def __init__(self, ok=(), err=(), why=""):
        self.ok = list(ok)
        self.err = tuple(err)
        self.why = why

    def describe(self):
        parts = []
        for v in self.ok:
            parts.append("returns %r" % (v,))
        for e in self.err:
            parts.append("raises %s" % e.__name__)
        return " or ".join(parts)


def OK(v, why="valid"):
    return Expect(ok=[v], why=why)


def BAD(why="invalid", cls=ValueError):
    return Expect(err=(cls,), why=why)


def EITHER(values, why, classes=(ValueError,)):
    return Expect(ok=values, err=classes, why=why)


# ---------------------------------------------------------------- characters

def is_letter(c):
    return ("a" <= c <= "z") or ("A" <= c <= "Z")


def is_digit(c):
    return "0" <= c <= "9"


def is_hex(c):
    return is_digit(c) or ("a" <= c <= "f") or ("A" <= c <= "F")


def is_ascii(s):
    for c in s:
        if ord(c) > 127:
            return False
    return True


def ascii_identifier(s):
    if not s:
        return False
    if not (is_letter(s[0]) or s[0] == "_"):
        return False
    for c in s[1:]:
        if not (is_letter(c) or is_digit(c) or c == "_"):
            return False
    return True


def split_ws(s):
    """Maximal runs of non-white-space characters."""
    out = []
    cur = []
    for c in s:
        if c.isspace():
            if cur:
                out.append("".join(cur))
                cur = []
        else:
            cur.append(c)
    if cur:
        out.append("".join(cur))
    return out


def asciify_digits(s):
    """Replace every non-ASCII decimal digit by the ASCII digit of its value."""
    out = []
    changed = False
    for c in s:
        if ord(c) > 127 and c.isdecimal():
            out.append(str(unicodedata.decimal(c)))
            changed = True
        else:
            out.append(c)
    return "".join(out), changed


# ---------------------------------------------------------------------- keys

def basic_key(s):
    if not s or not is_letter(s[0]):
        return BAD()
    for c in s[1:]:
        if not (is_letter(c) or is_digit(c) or c in "-._"):
            return BAD()
    return OK(s.lower())


def _py3_only_identifier(s):
    return (not is_ascii(s)) and s.isidentifier()


def identifier(s):
    if ascii_identifier(s):
        return OK(s)
    if _py3_only_identifier(s):
        return EITHER([s], "non-ascii-identifier")
    return BAD()


def _dotted(parts):
    """'ascii', 'py3' or None for a list of would-be identifiers."""
    kind = "ascii"
    if not parts:
        return None
    for p in parts:
        if ascii_identifier(p):
            continue
        if _py3_only_identifier(p):
            kind = "py3"
            continue
        return None
    return kind


def dotted_name(s):
    kind = _dotted(s.split("."))
    if kind == "ascii":
        return OK(s)
    if kind == "py3":
        return EITHER([s], "non-ascii-identifier")
    return BAD()


def dotted_suffix(s):
    e = dotted_name(s)
    if e.ok:
        return e
    if s[:1] == ".":
        e = dotted_name(s[1:])
        if e.ok:
            e.ok = [s]
        return e
    return BAD()


# ------------------------------------------------------------------- scalars

def boolean(s):
    w = s.lower()
    if w in ("yes", "true", "on"):
        return OK(True)
    if w in ("no", "false", "off"):
        return OK(False)
    return BAD()


def _int(s):
    try:
        return int(s)
    except ValueError:
        return None


def integer(s):
    n = _int(s)
    if n is None:
        return BAD()
    return OK(n)


def float_(s):
    try:
        v = float(s)
    except ValueError:
        return BAD()
    if math.isinf(v) or math.isnan(v):
        # "Inf, -Inf, and NaN are not allowed"
        return BAD("inf-nan")
    return OK(v)


def port_number(s):
    n = _int(s)
    if n is None:
        return BAD()
    if n < 0 or n > 65535:
        return BAD("port-out-of-range")
    return OK(n)


def _suffixed(s, table, width):
    tail = s[-width:].lower() if len(s) >= width else None
    if tail in table:
        n = _int(s[:-width])
        if n is None:
            return BAD("suffix-without-integer")
        return OK(n * table[tail], "suffix-" + tail)
    n = _int(s)
    if n is None:
        return BAD()
    return OK(n, "no-suffix")


_BYTE = {"kb": 1024, "mb": 1024 ** 2, "gb": 1024 ** 3}
_TIME = {"s": 1, "m": 60, "h": 3600, "d": 86400}


def byte_size(s):
    return _suffixed(s, _BYTE, 2)


def time_interval(s):
    return _suffixed(s, _TIME, 1)


_TD_US = {"w": 7 * 86400 * 10 ** 6, "d": 86400 * 10 ** 6, "h": 3600 * 10 ** 6,
          "m": 60 * 10 ** 6, "s": 10 ** 6}
_TD_MAX_US = (999999999 * 86400 + 86399) * 10 ** 6 + 999999
_TD_MIN_US = -999999999 * 86400 * 10 ** 6


class ApproxTimedelta:
    """A timedelta compared with a tolerance of two microseconds (the real
    constructor rounds each fractional part on its own)."""

    def __init__(self, micro):
        self.micro = micro      # Fraction

    def __eq__(self, other):
        if not isinstance(other, datetime.timedelta):
            return NotImplemented
        got = (other.days * 86400 + other.seconds) * 10 ** 6 \
            + other.microseconds
        return abs(Fraction(got) - self.micro) <= 2

    def __repr__(self):
        return "timedelta(~%s us)" % (float(self.micro),)


def timedelta(s):
    parts = split_ws(s)
    bad_num = bad_unit = False
    vals = []
    for p in parts:
        unit = p[-1]
        try:
            v = float(p[:-1])
        except ValueError:
            v = None
            bad_num = True
        if unit not in _TD_US:
            bad_unit = True
        vals.append((v, unit))
    if bad_num and bad_unit:
        return Expect(err=(ValueError, TypeError), why="bad-number+bad-unit")
    if bad_unit:
        return BAD("unknown-unit", TypeError)
    if bad_num:
        return BAD("bad-number")
    # the same unit given twice: "last wins" and "sum" are both acceptable
    last = {}
    for v, unit in vals:
        last[unit] = v
    policies = [[(v, u) for u, v in last.items()]]
    if len(last) < len(vals):
        policies.append(vals)
    oks = []
    refused = False
    for chosen in policies:
        total = Fraction(0)
        fine = True
        for v, unit in chosen:
            if math.isinf(v) or math.isnan(v):
                fine = False
                break
            t = Fraction(v) * _TD_US[unit]
            if not _td_in_range(t):
                refused = True      # a component alone is unrepresentable
            total += t
        if fine and (_td_in_range(total) or _td_on_edge(total)):
            a = ApproxTimedelta(total)
            if not any(a.micro == o.micro for o in oks):
                oks.append(a)
            if _td_on_edge(total):
                refused = True
        else:
            refused = True
    if not oks:
        return BAD("non-finite-or-out-of-range")
    if refused:
        return Expect(ok=oks, err=(ValueError,),
                      why="non-finite-or-out-of-range")
    return Expect(ok=oks, why="valid")


def _td_in_range(t):
    return _TD_MIN_US <= t <= _TD_MAX_US


def _td_on_edge(t):
    """Within one microsecond outside the representable range: rounding
    decides, both outcomes are acceptable."""
    return (not _td_in_range(t)) and _TD_MIN_US - 1 <= t <= _TD_MAX_US + 1


# ------------------------------------------------------------ inet addresses

def _has_ws(s):
    for c in s:
        if c.isspace():
            return True
    return False


class AnyHost:
    """Stands for an unconstrained host string (input class not covered by
    the documentation)."""

    def __eq__(self, other):
        return isinstance(other, str)

    def lower(self):
        return self

    def __bool__(self):
        return True

    def __repr__(self):
        return "<any host>"


def inet(s, default_host):
    """(host, port) per docs: only a port -> default host; no port -> None;
    unbracketed IPv6 is an address without port; '[addr]:port' splits.
    Hosts are lower-cased; an empty host becomes the default host."""
    def fin(host, port):
        return (host.lower() or default_host, port)

    def odd(text):
        return _has_ws(text) or "[" in text or "]" in text

    if ":" not in s:
        n = _int(s)
        if n is not None:
            if 0 <= n <= 65535:
                return OK((default_host, n), "port-only")
            return EITHER([fin(s, None)], "integer-out-of-port-range")
        if not split_ws(s):
            return BAD("empty")         # neither a host nor a port
        if _has_ws(s):
            return EITHER([(AnyHost(), None)], "odd-host")
        return OK(fin(s, None), "host-only")
    cut = s.rfind(":")
    host, p = s[:cut], s[cut + 1:]
    if len(host) >= 2 and host[0] == "[" and host[-1] == "]":
        host = host[1:-1]
        kind = "bracketed"
    elif ":" in host:
        # unbracketed IPv6: the last group is not a port
        if s[0] == "[" and s[-1] == "]" and not odd(s[1:-1]):
            return EITHER([fin(s, None), fin(s[1:-1], None)],
                          "bracketed-without-port")
        if odd(s):
            return EITHER([(AnyHost(), None)], "odd-host")
        return OK(fin(s, None), "unbracketed-ipv6")
    else:
        kind = "host-port"
    if p == "":
        port = None
    else:
        port = _int(p)
        if port is None or port < 0 or port > 65535:
            return BAD("bad-port")
    if odd(host):
        return EITHER([(AnyHost(), port)], "odd-host")
    if port is None:
        return EITHER([fin(host, None)], "empty-port")
    return OK(fin(host, port), kind)


def inet_address(s):
    return inet(s, "")          # non-Windows platforms


def inet_binding_address(s):
    return inet(s, "")


def inet_connection_address(s):
    return inet(s, "127.0.0.1")


def _socket(s, default_host):
    if "/" in s:
        return OK((socket.AF_UNIX, s), "unix-path")
    e = inet(s, default_host)
    vals = []
    for host, port in e.ok:
        if isinstance(host, AnyHost):
            vals.append((socket.AF_INET, (host, port)))
            vals.append((socket.AF_INET6, (host, port)))
            continue
        fam = socket.AF_INET6 if ":" in host else socket.AF_INET
        vals.append((fam, (host, port)))
    return Expect(ok=vals, err=e.err, why=e.why)


def socket_address(s):
    return _socket(s, "")


def socket_binding_address(s):
    return _socket(s, "")


def socket_connection_address(s):
    return _socket(s, "127.0.0.1")


# -------------------------------------------------------- ipaddr-or-hostname

def _valid_ipv6(s):
    for c in s:
        if not (is_hex(c) or c in ":."):
            return False
    try:
        socket.inet_pton(socket.AF_INET6, s)
    except (OSError, ValueError):
        return False
    return True


def _valid_ipv4(s):
    parts = s.split(".")
    if len(parts) != 4:
        return False
    for p in parts:
        if not (1 <= len(p) <= 3):
            return False
        for c in p:
            if not is_digit(c):
                return False
        if int(p) > 255:
            return False
    return True


def _valid_hostname(s):
    if not s or not (is_letter(s[0]) or s[0] == "_"):
        return False
    for c in s[1:]:
        if not (is_letter(c) or is_digit(c) or c in "-_."):
            return False
    return s[-1] != "."


def _ipaddr_or_hostname(s):
    if ":" in s:
        if _valid_ipv6(s):
            return OK(s.lower(),
                      "ipv6-hexletter" if is_letter(s[0]) else "ipv6")
        return BAD("invalid-ipv6")
    if s and (is_letter(s[0]) or s[0] == "_"):
        if _valid_hostname(s):
            if len(s) == 1:
                # the statement does not say whether a one-character name is a host name
                return EITHER([s.lower()], "hostname-single-char")
            return OK(s.lower(), "hostname")
        return BAD("invalid-hostname")
    if _valid_ipv4(s):
        return OK(s, "ipv4")
    return BAD("invalid")


def ipaddr_or_hostname(s):
    e = _ipaddr_or_hostname(s)
    if not e.ok:
        t, changed = asciify_digits(s)
        if changed and _ipaddr_or_hostname(t).ok:
            e.why = "non-ascii-digits"
    return e


# -------------------------------------------------------------------- others

def string(s):
    if is_ascii(s):
        return OK(s)
    return EITHER([s], "non-ascii-string", (ValueError,))


def string_list(s):
    return OK(split_ws(s))


def null(s):
    return OK(s)


REFERENCE = {
    "basic-key": basic_key,
    "identifier": identifier,
    "dotted-name": dotted_name,
    "dotted-suffix": dotted_suffix,
    "boolean": boolean,
    "integer": integer,
    "float": float_,
    "port-number": port_number,
    "byte-size": byte_size,
    "time-interval": time_interval,
    "timedelta": timedelta,
    "inet-address": inet_address,
    "inet-binding-address": inet_binding_address,
    "inet-connection-address": inet_connection_address,
    "socket-address": socket_address,
    "socket-binding-address": socket_binding_address,
    "socket-connection-address": socket_connection_address,
    "ipaddr-or-hostname": ipaddr_or_hostname,
    "string": string,
    "string-list": string_list,
    "null": null,
}

KEY_NORMALISERS = ("basic-key", "identifier", "ipaddr-or-hostname")
