"""Section datatypes that generated schemas reference by dotted name
(``standins.refmodel.dt.wrap`` / ``standins.refmodel.dt.checked``).

They are deliberately trivial: the reference model knows exactly what they
do, so the value tree stays comparable.
"""

REJECT_MARK = "reject-me"


class Wrapped:
    """What ``wrap`` returns: a box around the section value it was given."""

    __slots__ = ("inner",)

    def __init__(self, inner):
        self.inner = inner

    def __repr__(self):
        return "Wrapped(%r)" % (self.inner,)


def wrap(section):
    return Wrapped(section)


def checked(section):
    """Wraps like ``wrap`` but refuses (ValueError) a section one of whose
    attributes holds the string ``reject-me`` -- a fault at the
    section-datatype stage."""
    for a in section.getSectionAttributes():
        if getattr(section, a) == REJECT_MARK:
            raise ValueError("section refused by its datatype")
    return Wrapped(section)
