"""Counting datatypes with one programmable failure point (used by C19).

Schemas name them as ``standins.refmodel.dt_faulty.counting`` (value
conversion), ``...counting_key`` (key type) and ``...section_dt`` (section /
schema datatype).  ``reset(...)`` arms at most one failure: the k-th value
conversion, the k-th key conversion or the k-th section conversion raises the
given exception instance; all other calls succeed.
"""

state = {
    "conv": 0, "conv_fail_at": None, "conv_exc": None,
    "key": 0, "key_fail_at": None, "key_exc": None,
    "sect": 0, "sect_fail_at": None, "sect_exc": None,
}


def reset(conv=None, key=None, sect=None):
    """Each argument is None or (k, exception_instance)."""
    for name, spec in (("conv", conv), ("key", key), ("sect", sect)):
        state[name] = 0
        state[name + "_fail_at"] = spec[0] if spec else None
        state[name + "_exc"] = spec[1] if spec else None


def _tick(name):
    state[name] += 1
    if state[name] == state[name + "_fail_at"]:
        raise state[name + "_exc"]


def counting(value):
    _tick("conv")
    return "conv:" + value


def counting_key(value):
    _tick("key")
    if not value or not value.replace("-", "").replace("_", "").isalnum():
        raise ValueError("bad key %r" % (value,))
    return value.lower()


def section_dt(section):
    _tick("sect")
    return section
