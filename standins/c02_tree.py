"""C02 stand-in: the value tree of accepted texts vs the reference tree, and
"default containers are copied, never aliased".

Also hosts the tree extraction / comparison helpers shared by the stand-ins
that look at value trees.
"""
from io import StringIO

from standins.common import Collector, pmap, use_repo
from standins.refmodel import schemamodel as sm
from standins.refmodel.dt import Wrapped
from standins.c01_conforms import (crash_sig, crc, msg_template, real_load)

PROPERTY = "C02"
MUT = "<<mutated>>"


# --------------------------------------------------------------------------
# shared helpers

def is_section(v):
    return hasattr(v, "getSectionAttributes") and hasattr(v, "getSectionName")


def real_tree(v):
    """Plain-data snapshot of a value returned by the real loader."""
    wrapped = False
    if isinstance(v, Wrapped):
        wrapped = True
        v = v.inner
    if is_section(v):
        names = list(v.getSectionAttributes())
        return {"type": v.getSectionType(), "name": v.getSectionName(),
                "wrapped": wrapped, "attrlist": names,
                "attrs": dict((a, real_tree(getattr(v, a, "<<missing>>")))
                              for a in names)}
    if wrapped:
        return {"wrapped-nonsection": real_tree(v)}
    if isinstance(v, list):
        return [real_tree(x) for x in v]
    if isinstance(v, dict):
        return dict((k, real_tree(x)) for k, x in v.items())
    return v


def _is_node(x):
    return isinstance(x, dict) and "attrs" in x and "wrapped" in x


def _num(x):
    return isinstance(x, (int, float)) and not isinstance(x, bool)


def same_value(a, b):
    if _num(a) and _num(b):
        return a == b
    return type(a) is type(b) and a == b


def compare_tree(ref, real, path="", kind=None, out=None):
    """-> list of (sig tail, path, expected, observed)."""
    if out is None:
        out = []
    if _is_node(ref):
        if not _is_node(real):
            out.append(("value:" + str(kind), path, "a section value",
                        repr(real)[:80]))
            return out
        if ref["wrapped"] != real["wrapped"]:
            out.append(("section-datatype-not-applied-once", path,
                        ref["wrapped"], real["wrapped"]))
        if ref["type"] != real["type"]:
            out.append(("section-type", path, ref["type"], real["type"]))
        if ref["name"] != real["name"]:
            out.append(("section-name", path, ref["name"], real["name"]))
        ra, xa = sorted(ref["attrs"]), sorted(real["attrlist"])
        amap = dict((a, a) for a in ra)
        if ra != xa:
            if sorted(a.lower() for a in ra) == xa and \
                    len(set(a.lower() for a in ra)) == len(ra):
                out.append(("default-attribute-name-lowercased", path, ra, xa))
                amap = dict((a, a.lower()) for a in ra)
            else:
                out.append(("attribute-set", path, ra, xa))
                amap = dict((a, a) for a in ra if a in real["attrs"])
        for a, xa_ in amap.items():
            compare_tree(ref["attrs"][a], real["attrs"][xa_],
                         path + "/" + a, ref["kinds"].get(a), out)
        return out
    if isinstance(ref, list):
        if not isinstance(real, list) or len(ref) != len(real):
            out.append(("value:" + str(kind), path, _short(ref), _short(real)))
            return out
        for i, (a, b) in enumerate(zip(ref, real)):
            compare_tree(a, b, "%s[%d]" % (path, i), kind, out)
        return out
    if isinstance(ref, dict):
        if not isinstance(real, dict) or _is_node(real) or \
                sorted(ref) != sorted(real):
            out.append(("value:" + str(kind), path, _short(ref), _short(real)))
            return out
        for k in ref:
            compare_tree(ref[k], real[k], "%s{%s}" % (path, k), kind, out)
        return out
    if _is_node(real) or not same_value(ref, real):
        out.append(("value:" + str(kind), path, _short(ref), _short(real)))
    return out


def _short(x):
    if _is_node(x):
        return "<section %s %s>" % (x["type"], x["name"])
    r = repr(x)
    return r if len(r) < 90 else r[:87] + "..."


def mutate_containers(v, seen=None):
    """Mutate, in place, every list / dict reachable from a returned value.
    Returns the number of containers touched."""
    if seen is None:
        seen = set()
    if id(v) in seen:
        return 0
    seen.add(id(v))
    n = 0
    if isinstance(v, Wrapped):
        return mutate_containers(v.inner, seen)
    if is_section(v):
        for a in v.getSectionAttributes():
            n += mutate_containers(getattr(v, a, None), seen)
        return n
    if isinstance(v, list):
        for x in list(v):
            n += mutate_containers(x, seen)
        v.insert(0, MUT)
        v.append(MUT)
        return n + 1
    if isinstance(v, dict):
        for x in list(v.values()):
            n += mutate_containers(x, seen)
        for k in list(v)[:1]:
            del v[k]
        v[MUT] = MUT
        return n + 1
    return 0


def report_tree(col, prop, view, text, ref_tree, tree, what="value tree",
                packages=None, overrides=()):
    """Compare and file violations; returns True when equal.

    A difference that disappears under one of the alternative readings of
    the slot search is filed under that reading's (C01) root-cause sig.
    """
    diffs = compare_tree(ref_tree, tree)
    if not diffs:
        return True
    xml = sm.render_xml(view)
    inp = {"schema": xml, "text": text}
    if overrides:
        inp["overrides"] = list(overrides)
    lower = [d for d in diffs if d[0] == "default-attribute-name-lowercased"]
    rest = [d for d in diffs if d[0] != "default-attribute-name-lowercased"]
    for tail, path, exp, obs in lower[:1]:
        col.violation("C02:" + tail, "attribute names differ at " +
                      (path or "/"), inp, exp, obs)
    if rest:
        from standins.c01_conforms import ALT_READINGS
        for tail, reading in ALT_READINGS:
            alt = sm.ref_load(view, text, overrides, packages, reading)
            if alt[0] != "ok":
                continue
            d2 = [d for d in compare_tree(alt[1], tree)
                  if d[0] != "default-attribute-name-lowercased"]
            if not d2:
                t0, path, exp, obs = rest[0]
                col.violation("C01:" + tail, "%s differs at %s (a section"
                              " went to another slot)" % (what, path or "/"),
                              inp, exp, obs)
                return False
        for tail, path, exp, obs in rest:
            col.violation("%s:%s" % (prop, tail), what + " differs at " +
                          (path or "/"), inp, exp, obs)
    return False


# --------------------------------------------------------------------------

def _work(job):
    seed, idx, ntexts = job
    ZConfig = use_repo()
    col = Collector()
    view = sm.schema_family(seed * 100000 + idx, 1)[0]
    xml = sm.render_xml(view)
    try:
        schema = ZConfig.loadSchemaFile(StringIO(xml))
    except Exception as e:    # noqa: BLE001
        col.case()
        col.violation("C01:generated-schema-refused:" + msg_template(e),
                      "a schema of the family does not load", {"schema": xml},
                      "schema loads", repr(e))
        return col.partial()
    touched = 0
    for t in sm.texts_for(view, seed * 100000 + idx, ntexts, fault_rate=0.25):
        text = t["text"]
        ref = sm.ref_load(view, text)
        if ref[0] != "ok":
            continue
        real = real_load(ZConfig, schema, text)
        if real[0] == "crash":
            col.case(crc(xml, text))
            col.violation(crash_sig(real[1]), "internal exception escaped",
                          {"schema": xml, "text": text}, "a configuration",
                          repr(real[1]))
        if real[0] != "ok":
            continue            # accept / reject is C01's business
        nsect = text.count("<")
        sample = None
        if idx < 2 and len(col.samples) < 1:
            sample = {"schema": xml, "text": text, "tree": ref[1]}
        col.case(crc(xml, text), sample)
        tree1 = real_tree(real[1])
        report_tree(col, "C02", view, text, ref[1], tree1)
        # aliasing: damage everything reachable, load again
        touched += mutate_containers(real[1])
        again = real_load(ZConfig, schema, text)
        col.case(None)
        inp = {"schema": xml, "text": text}
        if again[0] == "crash":
            col.violation(crash_sig(again[1]), "internal exception on reload"
                          " after mutating the first result", inp,
                          "same tree as before", repr(again[1]))
        elif again[0] != "ok":
            col.violation("C02:reload-after-mutation-refused",
                          "second load refused after the first result was"
                          " mutated", inp, "accepted",
                          msg_template(again[1]))
        else:
            tree2 = real_tree(again[1])
            if tree2 != tree1:
                diffs = compare_tree(ref[1], tree2)
                where = diffs[0][1] if diffs else "?"
                col.violation("C02:result-aliases-schema-defaults",
                              "mutating a returned tree changed the result of"
                              " the next load (at %s)" % where, inp,
                              _short(diffs[0][2]) if diffs else "same tree",
                              _short(diffs[0][3]) if diffs else "different")
    part = col.partial()
    part["touched"] = touched
    return part


def run(tier, seed):
    nschemas, ntexts = (3000, 30) if tier == "quick" else (28000, 40)
    col = Collector()
    touched = 0
    for part in pmap(_work, [(seed, i, ntexts) for i in range(nschemas)]):
        col.merge(part)
        touched += part.get("touched", 0)
    return col.result(
        bound="%d schemas of the C01 family (datatypes: string, integer,"
              " boolean, float, port-number, byte-size, time-interval,"
              " identifier, basic-key, string-list, inet-address, null;"
              " section datatypes null / wrap / checked) x up to %d generated"
              " texts each, restricted to texts accepted by both the"
              " reference and the real loader" % (nschemas, ntexts),
        rule="one evaluation = one recursive comparison of"
             " getSectionAttributes / attribute values / getSectionName /"
             " getSectionType against the reference tree, plus one"
             " evaluation for the reload after mutating every list / dict"
             " of the first result (%d containers mutated in total);"
             " distinct = distinct (schema, text) pairs" % touched)
