"""C03: the line grammar of configuration text, end to end.

Observation points
  (a) ZConfig.schemaless.loadConfigFile(StringIO(text)): nested structure or
      exception (class, lineno);
  (b) ZConfig.cfgparser.ZConfigParser driven with a recording context: the
      trace of startSection / endSection / addValue / importSchemaComponent /
      includeConfiguration calls delivered before the end or the rejection,
      the define namespace, and the exception (class, lineno).

Corpus (shared with C17 through `jobs()` / `texts_of()`):
  1. every single line up to length N over one representative per character
     class, each embedded as: the line alone; '<a>' LINE '</a>'; LINE 'k v'
     '</a>';
  2. every text of up to M lines over a vocabulary of whole lines;
  3. seeded random texts up to 40 lines, nesting depth <= 6.
"""
import io
import itertools
import os
import random

from standins.common import Collector, pmap, use_repo
from standins.refmodel import textmodel as T

PROPERTY = "C03"

ALPHA = ['<', '>', '/', '%', '#', '(', ')', '$', 'a', 'B', '1', '-',
         ' ', '\t', '　', 'é']

VOCAB = [
    # openers
    '<a>', '<A b>', '<b>', '  <a B>\t', '<a/ >', '<a b/ >',
    # closers
    '</a>', '</A >', '</b>', '</a/>', '</ a>', '</a b>',
    # empty forms
    '<a/>', '<a B/>', '<b />', '<a\tb\t/>',
    # keys
    'k v', 'k', 'K  v  w', 'k $$x', 'k $x', 'k(v)', 'a<b> </a>', 'k #c',
    # directives
    '%import p', '%import P', '%import  $$p q', '%define a x', '%define A x',
    '%define a $a', '%define b $$', '%define a $b', '%include f',
    '%include $a', '%define', '% define a x', '%Define a x', '%includes f',
    '%import', '%define 1a x',
    # junk and skipped lines
    '<a b c>', '< a>', '<>', '(k v', '', '# c', '<a', 'a>', '</>', '<//>',
    '　',
]
# directive words that happen to be names the parser could dispatch on dynamically ("exactly so
# spelled ... the only directives"): fixed list, so the input space does not depend on the tree
VOCAB += ['%key_value k v', '%directive define a b', '%key_value', '%section a', '%define_ a b', '%defines a b',
          '%Include f', '%import_ p', '%handle_define a b']
VOCAB_SMALL = ['<a>', '<A b>', '<b>', '<a/ >', '</a>', '</A >', '</b>',
               '<a/>', '<a B/>', 'k v', 'k', 'k $$x', 'a<b> </a>',
               '%import p', '%define a x', '%define a $a', '%define b $$',
               '%include f', '', '<a b c>', '%key_value k v', '%directive define a b']


# -------------------------------------------------------------------------
# real code

def _struct(sec, top=True):
    d = {"type": sec.type, "name": sec.name,
         "keys": {k: list(v) for k, v in sec.items()},
         "sections": [_struct(s, False) for s in sec.sections]}
    if top:
        d["imports"] = list(sec.imports)
    return d


def _exc_outcome(ZConfig, e):
    if type(e) is ZConfig.SubstitutionReplacementError:
        return ("replacement", e.lineno, e.name, e.source)
    if type(e) is ZConfig.ConfigurationSyntaxError:
        return ("syntax", e.lineno)
    if type(e) is ZConfig.SubstitutionSyntaxError:
        return ("subst-syntax",)
    if type(e) is NotImplementedError:
        return ("refused",)
    return ("other", type(e).__name__)


def real_schemaless(text):
    ZConfig = use_repo()
    import ZConfig.schemaless as SL
    try:
        top = SL.loadConfigFile(io.StringIO(text))
    except Exception as e:
        return _exc_outcome(ZConfig, e)
    return ("ok", _struct(top))


class _RecSection:
    __slots__ = ("sid", "ctx")

    def __init__(self, sid, ctx):
        self.sid = sid
        self.ctx = ctx

    def addValue(self, key, value, position):
        self.ctx.trace.append(("value", self.sid, key, value, position[0]))


class _RecContext:
    def __init__(self):
        self.trace = []
        self.n = 1
        self.top = _RecSection(0, self)

    def startSection(self, section, type_, name):
        sid = self.n
        self.n += 1
        self.trace.append(("start", section.sid, sid, type_, name))
        return _RecSection(sid, self)

    def endSection(self, section, type_, name, newsect):
        self.trace.append(("end", section.sid, newsect.sid, type_, name))

    def importSchemaComponent(self, pkgname):
        self.trace.append(("import", pkgname))

    def includeConfiguration(self, section, url, defines):
        self.trace.append(("include", section.sid, url))


class _Resource:
    def __init__(self, text):
        self.file = io.StringIO(text)
        self.url = None


def real_events(text):
    ZConfig = use_repo()
    import ZConfig.cfgparser as CP
    ctx = _RecContext()
    parser = CP.ZConfigParser(_Resource(text), ctx)
    try:
        parser.parse(ctx.top)
        final = ("ok",)
    except Exception as e:
        final = _exc_outcome(ZConfig, e)
    return ctx.trace, dict(parser.defines), final


# -------------------------------------------------------------------------
# reference

def ref_schemaless(text):
    try:
        return ("ok", T.parse_schemaless(text, env=os.environ)), None
    except T.RefError as e:
        return _ref_final(e), e


def _ref_final(e):
    if isinstance(e, T.RefReplacement):
        return ("replacement", e.lineno, e.name, e.source)
    if isinstance(e, T.RefSyntax):
        return ("syntax", e.lineno)
    if isinstance(e, T.RefSubstSyntax):
        return ("subst-syntax",)
    return ("refused",)


def ref_events(text):
    try:
        ev = T.parse_events(text, env=os.environ)
        return ev.trace, ev.defines, ("ok",), None
    except T.RefError as e:
        return e.events.trace, e.events.defines, _ref_final(e), e


def _final_matches(exp, exc, obs):
    """exp/exc: reference outcome and its exception (or None); obs: real."""
    tags = ("ok",) if exc is None else exc.tags()
    if obs[0] not in tags:
        return "class"
    if obs[0] in ("syntax", "replacement"):
        lineno = exc.lineno
        if obs[1] != lineno:
            return "lineno"
    if obs[0] == "replacement" and exp[0] == "replacement":
        if not isinstance(obs[2], str) or obs[2].lower() != exp[2].lower() \
                or obs[3] != exp[3]:
            return "replacement-detail"
    if obs[0] == "ok" and exp[0] == "ok" and len(exp) > 1 and exp != obs:
        return "structure"
    return None


def _line_kind_tag(text, lineno):
    lines = T.physical_lines(text)
    if lineno is None or lineno < 1 or lineno > len(lines):
        return "eof"
    try:
        k = T.line_kind(lines[lineno - 1])
    except T.RefSyntax:
        return "bad"
    if k[0] == "directive":
        return k[1]
    return k[0]


def _is_known_defect(text, obs_trace, obs_defs, obs_final):
    """The parser behaves exactly like the known-defect model of C05."""
    try:
        ev = T.parse_events(
            text, env=os.environ,
            define_step=T.define_step_compares_unexpanded)
        final, exc = ("ok",), None
    except T.RefError as e:
        ev, final, exc = e.events, _ref_final(e), e
    return _final_matches(final, exc, obs_final) is None and \
        ev.trace == obs_trace and ev.defines == obs_defs


def _sig(text, what, exp, obs):
    """Root-cause signature from the first line at which the two differ."""
    cands = [x[1] for x in (exp, obs)
             if x[0] in ("syntax", "replacement") and isinstance(x[1], int)]
    lineno = min(cands) if cands else None
    kind = _line_kind_tag(text, lineno)
    if exp[0] == "ok" and obs[0] != "ok":
        return "C03:rejects-accepted-text:%s-line:%s" % (kind, obs[0])
    if exp[0] != "ok" and obs[0] == "ok":
        return "C03:accepts-rejected-text:%s-line" % kind
    return "C03:%s:%s-line:%s-vs-%s" % (what, kind, exp[0], obs[0])


def check_text(col, text, do_events=True):
    """Compare both observation points on one text."""
    exp, exc = ref_schemaless(text)
    obs = real_schemaless(text)
    col.evaluations += 1
    bad = _final_matches(exp, exc, obs)
    if bad:
        col.violation(_sig(text, "schemaless-" + bad, exp, obs),
                      "schemaless.loadConfigFile: " + bad + " differs",
                      text, _jsonable(exp), _jsonable(obs))
    if not do_events:
        return exp
    etrace, edefs, efinal, eexc = ref_events(text)
    otrace, odefs, ofinal = real_events(text)
    col.evaluations += 1
    bad = _final_matches(efinal, eexc, ofinal)
    if not bad and etrace != otrace:
        bad = "trace"
    if not bad and edefs != odefs:
        bad = "defines"
    if bad:
        if "%define" in text and _is_known_defect(text, otrace, odefs,
                                                    ofinal):
            sig = "C05:redefine-compares-unexpanded"
        elif bad == "defines":
            sig = "C03:parser-defines-differ"
        else:
            sig = _sig(text, "parser-" + bad, efinal, ofinal)
        col.violation(sig, "ZConfigParser with a recording context: "
                      + bad + " differs", text,
                      {"final": _jsonable(efinal), "trace": _jsonable(etrace),
                       "defines": edefs},
                      {"final": _jsonable(ofinal), "trace": _jsonable(otrace),
                       "defines": odefs})
    return exp


def _jsonable(x):
    if isinstance(x, tuple):
        return [_jsonable(i) for i in x]
    if isinstance(x, list):
        return [_jsonable(i) for i in x]
    return x


# -------------------------------------------------------------------------
# corpus

def embed(line):
    return (line + "\n",
            "<a>\n" + line + "\n</a>\n",
            line + "\nk v\n</a>")


def _lines_with_prefix(prefix, maxlen):
    for n in range(0, maxlen - len(prefix) + 1):
        for t in itertools.product(ALPHA, repeat=n):
            yield prefix + "".join(t)


def _rand_line(rnd):
    r = rnd.random()
    if r < 0.55:
        return rnd.choice(VOCAB)
    if r < 0.8:
        n = rnd.randrange(1, 9)
        return "".join(rnd.choice(ALPHA) for _ in range(n))
    if r < 0.9:
        key = "".join(rnd.choice("kK-./:é<>%#$1") for _ in
                      range(rnd.randrange(1, 5)))
        val = "".join(rnd.choice("vV $()<>/%# \t\x0b\x1c\x85\xa0\r1")
                      for _ in range(rnd.randrange(0, 8)))
        return key + rnd.choice([" ", "\t", "  ", " ", ""]) + \
            val.replace("$", "$$")
    return rnd.choice(["\r", "k v\r", "<a>\r", "\x0c<a/>\x0c", "\x1c",
                       "k\x85v", "k\xa0v", " k v", "k v",
                       "<İ K>", "</i̇>", "<ΑΣ>",
                       "</ασ>", "</ας>", "﻿k v",
                       "k\x00v", "\x00", "%import é", "k $(HOME)",
                       "k $(ZC03_NOT_SET)"])


def rand_text(rnd):
    """A nested text, mostly well formed, depth <= 6, <= 40 lines."""
    lines = []
    stack = []
    n = rnd.randrange(1, 41)
    noisy = rnd.random() < 0.5
    types = ["a", "B", "sec-1", "é", "a/", "x.y"]
    while len(lines) < n:
        r = rnd.random()
        indent = rnd.choice(["", "  ", "\t", " " * len(stack)])
        if r < 0.2 and len(stack) < 6:
            t = rnd.choice(types)
            nm = rnd.choice(["", "", " n", " N1", "\tm"])
            gap = " " if t.endswith("/") else rnd.choice(["", " "])
            lines.append(indent + "<" + t + nm + gap + ">")
            stack.append(t)
        elif r < 0.35 and stack:
            t = stack.pop()
            lines.append(indent + "</" + rnd.choice([t, t.upper(), t.lower()])
                         + rnd.choice(["", " "]) + ">")
        elif r < 0.45:
            t = rnd.choice(types[:4] + ["x.y"])
            lines.append(indent + "<" + t + rnd.choice(["", " n", " N"])
                         + rnd.choice(["/>", " />"]))
        elif r < 0.75:
            lines.append(indent + rnd.choice(
                ["k v", "k", "key-2 value  two", "k $$d", "K v", "k (v)",
                 "k(v)", "k </a>", "a.b:c v#w", "# comment", "",
                 "%import pkg.a", "%import pkg.B"]))
        elif noisy and r < 0.85:
            lines.append(indent + _rand_line(rnd))
        else:
            lines.append(indent + rnd.choice(["k v", "", "k2 v2"]))
    if rnd.random() < 0.85:
        while stack:
            lines.append("</" + stack.pop() + ">")
    text = "\n".join(lines)
    if rnd.random() < 0.7:
        text += "\n"
    return text


def jobs(tier, seed):
    """Picklable job descriptors; the union of texts_of(job) is the corpus."""
    nv = range(len(VOCAB))
    if tier == "quick":
        maxlen, nrand = 5, 20000
        out = [("lines", None, maxlen)]
        out += [("lines", a + b, maxlen) for a in ALPHA for b in ALPHA]
        out += [("tokens", "full", (a,), 1, 3, "both") for a in nv]
        out += [("tokens", "small", (a,), 4, 4, "both")
                for a in range(len(VOCAB_SMALL))]
    else:
        maxlen, nrand = 6, 200000
        out = [("lines", None, maxlen)]
        out += [("lines", a + b, 2) for a in ALPHA for b in ALPHA]
        out += [("lines", a + b + c, maxlen) for a in ALPHA for b in ALPHA
                for c in ALPHA]
        # up to 4 lines with the last line terminated; the unterminated
        # variants for up to 3 lines
        out += [("tokens", "full", (a, b), 2, 4, "terminated")
                for a in nv for b in nv]
        out += [("tokens", "full", (a,), 1, 1, "both") for a in nv]
        out += [("tokens", "full", (a,), 2, 3, "unterminated") for a in nv]
    per = 1000
    out += [("random", seed, b, per) for b in range(nrand // per)]
    return out


def texts_of(job):
    """Yield (text, kind, key): kind 'line' texts are embeddings of one line
    (key = the line), others are whole texts (key = the text)."""
    if job[0] == "lines":
        _, prefix, maxlen = job
        if prefix is None:
            gen = ("".join(t) for n in range(0, 2)
                   for t in itertools.product(ALPHA, repeat=n))
        else:
            gen = _lines_with_prefix(prefix, maxlen)
        for line in gen:
            for i, text in enumerate(embed(line)):
                yield text, "line%d" % i, line
    elif job[0] == "tokens":
        _, which, first, minlines, maxlines, mode = job
        vocab = VOCAB if which == "full" else VOCAB_SMALL
        head = [vocab[i] for i in first]
        for n in range(max(0, minlines - len(head)),
                       maxlines - len(head) + 1):
            for t in itertools.product(vocab, repeat=n):
                lines = head + list(t)
                text = "\n".join(lines) + "\n"
                if mode != "unterminated":
                    yield text, "tokens", text
                if mode != "terminated" and lines[-1] != "":
                    # the last line without a line terminator
                    yield text[:-1], "tokens", text[:-1]
    else:
        _, seed, block, count = job
        rnd = random.Random(seed * 1000003 + block)
        for _ in range(count):
            text = rand_text(rnd)
            yield text, "random", text


def _nontrivial(kind, key):
    if kind.startswith("line"):
        return kind == "line0" and T.strip_ws(key) != ""
    return any(T.strip_ws(l) != "" for l in key.split("\n"))


def _run_job(job):
    use_repo()
    col = Collector()
    nontriv = 0
    hashes = []
    for text, kind, key in texts_of(job):
        exp = check_text(col, text, do_events=(kind in ("line0", "tokens",
                                                         "random")))
        if _nontrivial(kind, key):
            if kind == "random":
                hashes.append(hash(text))
            else:
                nontriv += 1
        if len(col.samples) < 1 and exp[0] == "ok" and len(text) > 12 \
                and kind != "line0" and exp[1]["sections"] \
                and exp[1]["keys"]:
            col.samples.append({"text": text, "outcome": _jsonable(exp)})
    p = col.partial()
    p["nontriv"] = nontriv
    p["hashes"] = hashes
    return p


def run(tier, seed):
    use_repo()
    col = Collector()
    nontriv = 0
    hashes = set()
    for p in pmap(_run_job, jobs(tier, seed), chunksize=1):
        col.merge(p)
        nontriv += p["nontriv"]
        hashes.update(p["hashes"])
    quick = tier == "quick"
    res = col.result(
        bound="every single line of length <= %d over the %d-character class "
              "alphabet, each in 3 embeddings; every text of <= %s over a "
              "vocabulary of %d whole lines%s; %d seeded random texts of "
              "<= 40 lines and nesting depth <= 6"
              % (5 if quick else 6, len(ALPHA),
                 "3 lines" if quick else "4 lines", len(VOCAB),
                 " and of <= 4 lines over %d of them" % len(VOCAB_SMALL)
                 if quick else "",
                 20000 if quick else 200000),
        rule="exhaustive products (lines over characters, texts over whole "
             "lines, last line with and without terminator) and seeded "
             "generation; an evaluation is one text at one observation "
             "point (schemaless loader, or parser with recording context); "
             "distinct non-trivial = distinct lines / texts that contain a "
             "non-blank line")
    res["distinct_nontrivial"] = nontriv + len(hashes)
    return res
