"""C13 stand-in: a schema object can be reused indefinitely -- loads neither
depend on nor alter it."""
import random
from io import StringIO

from standins.common import Collector, pmap, use_repo
from standins.refmodel import schemamodel as sm
from standins.c01_conforms import crash_sig, crc, msg_template, real_load
from standins.c02_tree import mutate_containers, real_tree
from standins.c12_abstract import KNOWN, PACKAGES, PackageDir
from standins.c14_overrides import _gen_overrides

PROPERTY = "C13"
STAGES = ["syntax", "matching", "conversion", "section-datatype"]


# --------------------------------------------------------------------------
# structural digest of a real schema object

def _dtname(f):
    if f is None:
        return None
    return getattr(f, "__name__", None) or type(f).__name__


def _default_digest(d):
    if d is None:
        return None
    if hasattr(d, "value") and hasattr(d, "position"):
        return ("vi", d.value)
    if isinstance(d, dict):
        return ("dict", [(k, _default_digest(v)) for k, v in d.items()])
    if isinstance(d, (list, tuple)):
        return ("list", [_default_digest(v) for v in d])
    return ("other", repr(d))


def _type_digest(t):
    rows = []
    for key, ci in t:
        row = {"key": key, "class": type(ci).__name__, "name": ci.name,
               "attribute": ci.attribute, "min": ci.minOccurs,
               "max": repr(ci.maxOccurs), "handler": ci.handler,
               "datatype": _dtname(ci.datatype)}
        if ci.issection():
            row["sectiontype"] = ci.sectiontype.name
        else:
            row["default"] = _default_digest(ci.getdefault())
            row["stored-default"] = _default_digest(
                getattr(ci, "_default", None))
        rows.append(row)
    return {"keytype": _dtname(t.keytype), "datatype": _dtname(t.datatype),
            "children": rows}


def schema_digest(schema):
    d = {"top": _type_digest(schema), "handler": schema.handler,
         "typenames": sorted(schema.gettypenames()), "types": {},
         "implementers": {}}
    for name in d["typenames"]:
        t = schema.gettype(name)
        if t.isabstract():
            d["implementers"][name] = t.getsubtypenames()
        else:
            d["types"][name] = _type_digest(t)
    return d


def digest_diff(a, b):
    """Names of the top-level parts in which two digests differ."""
    return [k for k in sorted(a) if a[k] != b.get(k)]


# --------------------------------------------------------------------------

def _outcome(r):
    if r[0] == "ok":
        return ("ok", real_tree(r[1]))
    if r[0] == "reject":
        return ("reject", msg_template(r[1]))
    return ("crash", crash_sig(r[1]))


def _short_outcome(o):
    return o[0] if o[0] == "ok" else "%s %s" % o


def _stage_of(kind):
    if kind == "syntax":
        return "syntax"
    if kind == "convert":
        return "conversion"
    if kind == "section-datatype":
        return "section-datatype"
    return "matching"


def _op_pools(view, seed):
    """Texts by kind for one view: valid, and invalid per stage."""
    pools = {"valid": []}
    for st in STAGES:
        pools[st] = []
    for t in sm.texts_for(view, seed, 70, fault_rate=0.65):
        ref = sm.ref_load(view, t["text"])
        if ref[0] == "ok":
            pools["valid"].append(t["text"])
        elif ref[1] != "unsupported":
            pools[_stage_of(ref[1])].append(t["text"])
    return pools


def _work(job):
    seed, idx, nseq, maxlen = job
    ZConfig = use_repo()
    col = Collector()
    rng = random.Random(seed * 17 + idx)
    # every other job insists on a schema with an abstract type
    base = seed * 100000 + idx * 50
    view = None
    for k in range(50):
        v = sm.schema_family(base + k, 1)[0]
        if idx % 2 == 0 or any(t["kind"] == "abstract" for t in v["types"]):
            view = v
            break
    if view is None:
        view = v
    xml = sm.render_xml(view)
    model = sm.expand(view)
    try:
        schema = ZConfig.loadSchemaFile(StringIO(xml))
    except Exception as e:      # noqa: BLE001
        col.case()
        col.violation("C01:generated-schema-refused:" + msg_template(e),
                      "schema of the family does not load", {"schema": xml},
                      "loads", repr(e))
        return col.partial()
    pools = _op_pools(view, base)
    if not pools["valid"]:
        return col.partial()
    opstats = {}
    pkgs = [p for p in PACKAGES if PACKAGES[p]] + ["zcsi_nocomp",
                                                   "zcsi_missing"]
    for s in range(nseq):
        if s:
            schema = ZConfig.loadSchemaFile(StringIO(xml))
        digest0 = schema_digest(schema)
        last = None
        polluted = False
        trace = []
        for step in range(rng.randint(2, maxlen)):
            kind = rng.choice(["valid", "valid", "invalid", "invalid",
                               "import", "import", "overrides", "mutate"])
            text, specs = None, ()
            if kind == "mutate":
                if last is None:
                    continue
                n = mutate_containers(last)
                trace.append(["mutate", n])
                opstats["mutate"] = opstats.get("mutate", 0) + 1
                col.case(None)
            else:
                if kind == "valid":
                    text = rng.choice(pools["valid"])
                elif kind == "invalid":
                    stages = [st for st in STAGES if pools[st]]
                    if not stages:
                        continue
                    st = rng.choice(stages)
                    kind = "invalid-" + st
                    text = rng.choice(pools[st])
                elif kind == "import":
                    lines = ["%import " + rng.choice(pkgs)
                             for _ in range(rng.randint(1, 2))]
                    body = rng.choice(pools["valid"])
                    if rng.random() < 0.3:
                        body += "<%s/>\n" % rng.choice(["ext1", "ext3",
                                                        "ext6"])
                    text = "\n".join(lines) + "\n" + body
                else:
                    text = rng.choice(pools["valid"])
                    specs, _ = _gen_overrides(rng, model,
                                              sm._parse_nodes(text))
                opstats[kind] = opstats.get(kind, 0) + 1
                trace.append([kind, text] + ([list(specs)] if specs else []))
                shared = real_load(ZConfig, schema, text, specs)
                fresh_schema = ZConfig.loadSchemaFile(StringIO(xml))
                fresh = real_load(ZConfig, fresh_schema, text, specs)
                a, b = _outcome(shared), _outcome(fresh)
                col.case(crc(xml, repr(trace)),
                         {"schema": xml, "operations": list(trace)}
                         if idx == 1 and step >= 2 and not col.samples
                         else None)
                if a != b:
                    inp = {"schema": xml, "operations": list(trace)}
                    if polluted:
                        col.violation("C13:" + KNOWN, "a load on the reused"
                                      " schema differs from the same load on"
                                      " a fresh one after an earlier"
                                      " %import", inp, _short_outcome(b),
                                      _short_outcome(a))
                    else:
                        col.violation("C13:outcome-depends-on-history",
                                      "a load on the reused schema differs"
                                      " from the same load on a fresh one",
                                      inp, _short_outcome(b),
                                      _short_outcome(a))
                if shared[0] == "ok":
                    last = shared[1]
            digest = schema_digest(schema)
            if digest != digest0:
                parts = digest_diff(digest0, digest)
                inp = {"schema": xml, "operations": list(trace)}
                if parts == ["implementers"]:
                    polluted = True
                    col.violation("C13:" + KNOWN, "the schema's implementer"
                                  " table changed", inp,
                                  digest0["implementers"],
                                  digest["implementers"])
                else:
                    col.violation("C13:schema-digest-changed:" + "+".join(
                        parts), "the schema's own description changed", inp,
                        dict((p, digest0[p]) for p in parts),
                        dict((p, digest[p]) for p in parts))
                digest0 = digest        # each change reported once
    part = col.partial()
    part["ops"] = opstats
    return part


def run(tier, seed):
    nschemas, nseq, maxlen = (1000, 10, 6) if tier == "quick" \
        else (9000, 24, 8)
    col = Collector()
    ops = {}
    with PackageDir():
        jobs = [(seed, i, nseq, maxlen) for i in range(nschemas)]
        for part in pmap(_work, jobs):
            col.merge(part)
            for k, n in part.get("ops", {}).items():
                ops[k] = ops.get(k, 0) + n
    return col.result(
        bound="%d schemas of the C01 family (every other one with an"
              " abstract type) x %d sequences of 2..%d operations against"
              " one schema object" % (nschemas, nseq, maxlen),
        rule="operations: load a valid text, load a text refused at the"
             " syntax / matching / conversion / section-datatype stage, load"
             " with 1..2 '%import' lines (generated packages, a package"
             " without component, a missing name), load with 1..4 overrides,"
             " mutate every list / dict reachable from the last returned"
             " configuration; one evaluation = one step: outcome (value"
             " tree or error class + message shape) compared with the same"
             " load on a freshly loaded schema, and the structural digest"
             " (type names, per-type children, stored and copied defaults,"
             " implementer names) compared with the one before the"
             " sequence; operations run: " + ", ".join(
                 "%s %d" % kv for kv in sorted(ops.items())))
