"""C07 stand-in: user input can only produce configuration errors.

Mutated configuration texts, mutated %include lines / include graphs and
mutated override specifiers are fed to ``ZConfig.loadConfig`` /
``ZConfig.loadConfigFile(..., overrides=...)``; ANY escaping exception that is
not a ``ZConfig.ConfigurationError`` is a violation (the corpus schemas use
only datatypes that reject with ValueError, so the "raised by the datatype
itself" exemption - a non-ValueError whose innermost frame is a datatype
function - is counted and expected to stay at 0).  ``ZConfig.validator.main``
with a loadable schema must end with status 0 / 1 and exactly the messages of
the invalid files.
"""
import contextlib
import io
import os
import random
import shutil
import sys
import tempfile
import traceback

from standins.common import Collector, pmap, repo_root, use_repo
from standins.refmodel import corpus_small as cs

PROPERTY = "C07"

META = ["<", ">", "/", "%", "#", "(", ")", "$", "{", "}", "=", ":", " ", "\t"]


# ------------------------------------------------------------ classification

def zconfig_frames(exc):
    src = os.path.join(repo_root(), "src", "ZConfig") + os.sep
    out = []
    for fs, _ln in traceback.walk_tb(exc.__traceback__):
        fn = fs.f_code.co_filename
        if fn.startswith(src):
            mod = fn[len(src):-3].replace(os.sep, ".")
            out.append((mod, fs.f_code.co_name, fs))
    return out


def last_frame_file(exc):
    last = None
    for fs, _ln in traceback.walk_tb(exc.__traceback__):
        last = fs
    return last.f_code.co_filename if last else ""


def classify(exc, ctx):
    """Root-cause signature of an escaping non-configuration exception, or
    None if it is exempt (raised by a datatype function itself)."""
    frames = zconfig_frames(exc)
    names = [(m, f) for m, f, _ in frames]
    cname = type(exc).__name__
    if (not isinstance(exc, ValueError)
            and last_frame_file(exc).endswith(os.path.join("ZConfig",
                                                           "datatypes.py"))):
        return None
    if isinstance(exc, RecursionError) and \
            ("loader", "includeConfiguration") in names:
        return "C07:include-cycle-recursion"
    for m, f, fs in frames:
        if (m, f) == ("loader", "openPackageResource"):
            return "C07:include-package-url"
        if (m, f) == ("loader", "openResource") and \
                str(fs.f_locals.get("url", "")).startswith("package:"):
            return "C07:include-package-url"
    inner = names[-1] if names else ("?", "?")
    if isinstance(exc, TypeError) and ctx == "override" and \
            inner == ("cfgparser", "end_section"):
        return "C07:override-position-order"
    if isinstance(exc, ValueError) and ("cmdline", "__init__") in names:
        return "C07:override-keytype-valueerror"
    if isinstance(exc, ValueError) and \
            ("cfgparser", "handle_include") in names and inner in (
                ("url", "urljoin"), ("url", "urldefrag"),
                ("loader", "openResource"), ("loader", "normalizeURL")):
        return "C07:include-bad-url-valueerror"
    return "C07:%s@%s.%s" % (cname, inner[0], inner[1])


class Ctx:
    def __init__(self, ZConfig, root=None):
        self.ZConfig = ZConfig
        self.col = Collector()
        self.exempt = 0
        self.root = root

    def run(self, ctxname, key, inp, fn, *a, **kw):
        """Call a loading entry point; record an escaping internal error."""
        ZConfig = self.ZConfig
        err = None
        try:
            fn(*a, **kw)
            res = "ok"
        except ZConfig.ConfigurationError:
            res = "rejected"
        except BaseException as e:     # noqa: BLE001 - that is the point
            if isinstance(e, (KeyboardInterrupt, SystemExit)):
                raise
            err = e
            res = "escaped"
        self.col.case(hash(key), dict(inp, result=res)
                      if self.col.evaluations % 4001 == 7 else None)
        if err is not None:
            sig = classify(err, ctxname)
            if sig is None:
                self.exempt += 1
            else:
                self.col.violation(
                    sig, "%s escaped from %s" % (type(err).__name__,
                                                 getattr(fn, "__name__", fn)),
                    inp, "a configuration or a ZConfig.ConfigurationError",
                    ("%s: %s" % (type(err).__name__, str(err)[:200]))
                    .replace(self.root or "\0", "<root>"))
            err.__traceback__ = None
        return res


# ------------------------------------------------------------ text mutations

def char_mutants(text):
    n = len(text)
    for i in range(n):
        yield ("del", i), text[:i] + text[i + 1:]
        yield ("dup", i), text[:i] + text[i] + text[i:]
        if i + 1 < n and text[i] != text[i + 1]:
            yield ("swap", i), text[:i] + text[i + 1] + text[i] + text[i + 2:]
    for i in range(n + 1):
        for c in META:
            yield ("ins", i, c), text[:i] + c + text[i:]


def token_mutants(text):
    lines = text.split("\n")
    for li, line in enumerate(lines):
        toks = line.split()
        if not toks:
            continue
        ind = line[:len(line) - len(line.lstrip())]

        def put(new):
            return "\n".join(lines[:li] + [ind + " ".join(new)] +
                             lines[li + 1:])
        for k in range(len(toks)):
            yield ("tdel", li, k), put(toks[:k] + toks[k + 1:])
            yield ("tdup", li, k), put(toks[:k] + [toks[k]] + toks[k:])
            if k + 1 < len(toks):
                yield ("tswap", li, k), put(
                    toks[:k] + [toks[k + 1], toks[k]] + toks[k + 2:])
        for k in range(len(toks) + 1):
            for c in META[:-2] + ["</", "/>", "${", "$(", "$$", "%define",
                                  "%include", "%import"]:
                yield ("tins", li, k, c), put(toks[:k] + [c] + toks[k:])


LINE_INSERTS = META[:-2] + [
    "</", "<>", "</>", "< >", "<//>", "<a/ >", "<a b/>", "${", "$(", "$$",
    "%%", "% %", "%define", "%define a", "%define a b", "%define $ x",
    "%define a $a", "%include", "%import", "%import nosuch.package.zz",
    "%import os", "%import os.path", "%import ZConfig",
    "%import ZConfig.components.basic", "%import ..", "%import a/b",
    "%import 1", "%import $x", "k $", "k ${a", "k $(", "k $(HOME)",
    "k $(NO_SUCH_ENV_ZZ)", "k ${a}", "=", "a=b", ":", "a:b c", "{", "}",
    "<(>", "<)>", "k (", "k )", "\x00", "k \x00", "<\x00>", "﻿k v",
    "<a\tb\tc>", "< /a>", "</ a>", "</a b>",
]


def line_mutants(text):
    lines = text.split("\n")
    if lines and lines[-1] == "":
        lines.pop()
    n = len(lines)

    def j(ls):
        return "".join(x + "\n" for x in ls)
    for i in range(n):
        yield ("ldel", i), j(lines[:i] + lines[i + 1:])
        yield ("ldup", i), j(lines[:i] + [lines[i]] + lines[i:])
        if i + 1 < n:
            yield ("lswap", i), j(lines[:i] + [lines[i + 1], lines[i]] +
                                  lines[i + 2:])
    for i in range(n + 1):
        for c in LINE_INSERTS:
            yield ("lins", i, c), j(lines[:i] + [c] + lines[i:])
    # truncations (also inside a line, no final newline)
    for k in range(0, len(text), 3):
        yield ("trunc", k), text[:k]


# ------------------------------------------------------------ workers

def work_text(item):
    ZConfig = use_repo()
    si, seed, rich, level, quick = item
    sch = cs.SCHEMAS[si]
    schema = cs.load_schema(sch)
    c = Ctx(ZConfig)
    text, _lines, _tree = cs.gen_text(sch, seed, rich)
    gen = {"char": char_mutants, "token": token_mutants,
           "line": line_mutants}[level]
    seen = set()
    for op, mt in gen(text):
        if mt in seen:
            continue
        seen.add(mt)
        c.run("text", (sch.name, mt), {"schema": sch.name, "text": mt,
                                       "mutation": list(map(str, op))},
              ZConfig.loadConfigFile, schema, io.StringIO(mt))
    out = c.col.partial()
    out["exempt"] = c.exempt
    return out


INCLUDE_ARGS = [
    "package:foo", "package:os:x", "package::x", "package:nosuchpkgzz:x",
    "package:ZConfig.components.basic:component.xml", "package:",
    "package:ZConfig:", "package:ZConfig:../x",
    "http://[::1/x", "//[/x", "a\x00b", "\x00", "file:///nonexistent/zz",
    "file://remotehost.invalid/x", "mailto:x", "zz:x", "c:x", "1:x", ":x",
    "data:,count%205", "data:", "file:", "file:/", "file://", "file:///",
    "#frag", "frag.conf#x", "frag.conf#", "?", "frag.conf?q", "..", ".", "/",
    "sub", "sub/", "frag.conf/", "./frag.conf", "sub/../frag.conf",
    "frag.conf frag.conf", "$", "${", "$nope", "$$", "%41", "%", "%zz",
    "fr%61g.conf", "frag.conf%00", "é.conf", "a" * 300,
    "self.conf", "file:self.conf", "FILE:///x", "fIlE:x", "file:frag.conf",
    "<frag.conf>", "(", ")", "{", "}", "=", ":", "::", "[", "]", "[::1]",
    "//", "///", "////x", "\\", "\\\\host\\x", "~", "~/x", "*", "frag.*",
]


def work_include(item):
    ZConfig = use_repo()
    part, nparts, quick = item
    sch = cs.SCHEMA_BY_NAME["flat"]
    schema = cs.load_schema(sch)
    root = tempfile.mkdtemp(prefix="c07i_", dir=cs.fast_tmp())
    c = Ctx(ZConfig, root)
    try:
        os.makedirs(os.path.join(root, "sub"))
        with open(os.path.join(root, "frag.conf"), "w") as f:
            f.write("item from-frag\n")
        with open(os.path.join(root, "sub", "frag.conf"), "w") as f:
            f.write("item from-sub-frag\n")
        main = os.path.join(root, "self.conf")
        cases = []
        for base in ("%include frag.conf", "%include sub/frag.conf",
                     "%include $d/frag.conf"):
            for op, mt in char_mutants(base):
                cases.append(mt)
        for a in INCLUDE_ARGS:
            cases.append("%include " + a)
            cases.append("%define x " + a.replace("$", "$$")
                         + "\n%include $x")
        seen = set()
        k = 0
        for line in cases:
            if line in seen:
                continue
            seen.add(line)
            k += 1
            if k % nparts != part:
                continue
            for pre in ("count 1\n%define d sub\n",):
                text = pre + line + "\nitem after\n"
                try:
                    with open(main, "w", encoding="utf-8") as f:
                        f.write(text)
                except (ValueError, OSError):
                    continue
                inp = {"schema": "flat", "files": {
                    "self.conf": text, "frag.conf": "item from-frag\n",
                    "sub/frag.conf": "item from-sub-frag\n"}}
                c.run("include", ("inc", text), inp,
                      ZConfig.loadConfig, schema, main)
                # the same text without a base URL
                c.run("include", ("incf", text),
                      {"schema": "flat", "text": text, "via": "StringIO"},
                      ZConfig.loadConfigFile, schema, io.StringIO(text))
    finally:
        shutil.rmtree(root, ignore_errors=True)
    out = c.col.partial()
    out["exempt"] = c.exempt
    return out


def work_graph(item):
    """Include graphs over three files A, B, C (self loops and cycles
    included): file X includes the files in its subset, at a position."""
    ZConfig = use_repo()
    part, nparts, quick = item
    sch = cs.SCHEMA_BY_NAME["sections"]
    schema = cs.load_schema(sch)
    root = tempfile.mkdtemp(prefix="c07g_", dir=cs.fast_tmp())
    c = Ctx(ZConfig, root)
    names = ["A.conf", "B.conf", "C.conf"]
    body = {
        # (before, after): includes are placed inside <node> ... </node>
        0: ("<leaf main>\nv 1\n</leaf>\n<node>\nlabel a\n", "</node>\n"),
        1: ("<leaf>\nv 2\n", "</leaf>\n"),
        2: ("%define q 3\n", "<leaf>\nv $q\n</leaf>\n"),
    }
    try:
        n = 0
        for ga in range(8):
            for gb in range(8):
                for gc in range(8):
                    for where in (0, 1):
                        n += 1
                        if n % nparts != part:
                            continue
                        files = {}
                        for x, g in enumerate((ga, gb, gc)):
                            inc = "".join("%%include %s\n" % names[y]
                                          for y in range(3) if g >> y & 1)
                            b, a = body[x]
                            files[names[x]] = (b + inc + a) if where == 0 \
                                else (inc + b + a) if x else (b + a + inc)
                        for nm, t in files.items():
                            with open(os.path.join(root, nm), "w") as f:
                                f.write(t)
                        c.run("graph", ("graph", ga, gb, gc, where),
                              {"schema": "sections", "files": files,
                               "load": "A.conf"},
                              ZConfig.loadConfig, schema,
                              os.path.join(root, "A.conf"))
    finally:
        shutil.rmtree(root, ignore_errors=True)
    out = c.col.partial()
    out["exempt"] = c.exempt
    return out


def specifiers(sch, lines):
    """Valid override specifiers for the key lines of a generated text."""
    out = []
    for l in lines:
        if l.role != "key" or l.node.item is None:
            continue
        path = []
        cnode = l.container
        # walk up: containers are found through the open lines
        chain = []
        cur = cnode
        parents = {}
        for x in lines:
            if x.role in ("open", "empty"):
                parents[id(x.node)] = x.container
        while cur.kind == "section":
            chain.append(cur)
            cur = parents[id(cur)]
        for s in reversed(chain):
            path.append(s.name if s.name else s.type)
        val = cs._VALUES[l.node.item.dt][0] or "x"
        out.append(("/".join(path + [l.node.key]), val, l.node.item.dt,
                    len(path)))
    return out


BAD_SPECS = ["", "=", "/=", "//", "k", "=v", "a//b=1", "/a=1", "a/=1",
             "a:b/k=v", "$$/k=v", "a b/k=v", "1/k=v", "a/1=v", "-/k=v",
             "a/b/c/d/e/f=1", "\x00=1", "k=\x00", "é/k=v", "k==", "k=$x",
             "k=$", "k=${", "<a>/k=v", "%define/k=v", "#/k=v", "(/k=v"]


def work_override(item):
    ZConfig = use_repo()
    si, seed, quick = item
    sch = cs.SCHEMAS[si]
    schema = cs.load_schema(sch)
    c = Ctx(ZConfig)
    rng = random.Random("c07o:%d:%d" % (si, seed))
    text, lines, _tree = cs.gen_text(sch, seed, rich=False)
    specs = specifiers(sch, lines)
    seen = set()

    def go(ovs, note):
        key = (sch.name, text, tuple(ovs))
        if key in seen:
            return
        seen.add(key)
        c.run("override", key,
              {"schema": sch.name, "text": text, "overrides": list(ovs),
               "note": note},
              ZConfig.loadConfigFile, schema, io.StringIO(text),
              overrides=list(ovs))
    for path, val, dt, depth in specs:
        good = path + "=" + val
        go([good], "valid depth %d" % depth)
        for bad in cs.BAD_VALUES.get(dt, []) + ["", " ", "$", "$x"]:
            go([path + "=" + bad], "unconvertible value depth %d" % depth)
        go([good, good], "twice")
        go([path.upper() + "=" + val], "upper")
        if quick and depth == 0 and rng.random() < 0.5:
            continue
        for op, ms in char_mutants(good):
            go([ms], "mutated")
        for op, ms in token_mutants(good.replace("/", " / ")
                                    .replace("=", " = ")):
            go([ms.replace(" ", "")], "mutated")
    for b in BAD_SPECS:
        go([b], "bad spec")
        if specs:
            go([specs[0][0] + "=" + specs[0][1], b], "good+bad")
    # the same against the empty text (sections named in the path absent)
    for path, val, dt, depth in specs[:6]:
        c.run("override", (sch.name, "", path),
              {"schema": sch.name, "text": "", "overrides": [path + "=" + val]},
              ZConfig.loadConfigFile, schema, io.StringIO(""),
              overrides=[path + "=" + val])
    out = c.col.partial()
    out["exempt"] = c.exempt
    return out


def work_validator(item):
    """validator.main with a loadable schema: status 0 / 1 and exactly the
    messages of the invalid files (computed by loading each file alone)."""
    ZConfig = use_repo()
    import ZConfig.validator
    si, seed, quick = item
    sch = cs.SCHEMAS[si]
    schema = cs.load_schema(sch)
    rng = random.Random("c07v:%d:%d" % (si, seed))
    col = Collector()
    exempt = 0
    root = tempfile.mkdtemp(prefix="c07v_", dir=cs.fast_tmp())
    try:
        spath = os.path.join(root, "schema.xml")
        with open(spath, "w") as f:
            f.write(sch.xml)
        text, _l, _t = cs.gen_text(sch, seed, rich=True)
        pool = ["%include self0.conf\n", text]      # [0] includes itself
        muts = [m for _op, m in line_mutants(text)]
        pool += rng.sample(muts, min(len(muts), 40 if quick else 200))
        paths = []
        for k, t in enumerate(pool):
            p = os.path.join(root, "self%d.conf" % k)
            try:
                with open(p, "w", encoding="utf-8") as f:
                    f.write(t)
            except (ValueError, OSError):
                continue
            paths.append((p, t))
        groups = [[p] for p in paths]
        for _ in range(20 if quick else 100):
            groups.append(rng.sample(paths, rng.choice([2, 3, 4])))
        for g in groups:
            # expectation: real code on each file alone
            exp_msgs = []
            internal = None
            for p, t in g:
                try:
                    with open(p) as fh:
                        ZConfig.loadConfigFile(schema, fh)
                except ZConfig.ConfigurationError as e:
                    exp_msgs.append(str(e) + "\n")
                except Exception as e:      # noqa: BLE001
                    internal = e
                    break
            err = io.StringIO()
            out = io.StringIO()
            esc = None
            status = None
            try:
                with contextlib.redirect_stderr(err), \
                        contextlib.redirect_stdout(out):
                    try:
                        status = ZConfig.validator.main(
                            ["-s", spath] + [p for p, _ in g])
                    except SystemExit as e:
                        status = e.code
            except BaseException as e:      # noqa: BLE001
                if isinstance(e, KeyboardInterrupt):
                    raise
                esc = e
            inp = {"schema": sch.name,
                   "files": {os.path.basename(p): t for p, t in g}}
            col.case(hash((sch.name, tuple(t for _, t in g))), None)
            if esc is not None:
                sig = classify(esc, "validator")
                if sig is None:
                    exempt += 1
                else:
                    col.violation(sig, "%s escaped from validator.main"
                                  % type(esc).__name__, inp,
                                  "exit status 0 or 1",
                                  ("%s: %s" % (type(esc).__name__,
                                               str(esc)[:200]))
                                  .replace(root, "<root>"))
                esc.__traceback__ = None
                continue
            if internal is not None:
                continue    # would have escaped above as well
            want = 1 if exp_msgs else 0
            if status != want:
                col.violation("C07:validator-status",
                              "exit status does not reflect validity", inp,
                              want, status)
            elif err.getvalue() != "".join(exp_msgs) or out.getvalue():
                col.violation("C07:validator-messages",
                              "not exactly one message per invalid file",
                              inp, [m.replace(root, "<root>")
                                    for m in exp_msgs],
                              [err.getvalue().replace(root, "<root>"),
                               out.getvalue()])
    finally:
        shutil.rmtree(root, ignore_errors=True)
    o = col.partial()
    o["exempt"] = exempt
    return o


def _dispatch(item):
    kind = item[0]
    return {"text": work_text, "include": work_include, "graph": work_graph,
            "override": work_override,
            "validator": work_validator}[kind](item[1:])


# schemas whose DEFAULTS cannot be converted (the error only shows when a configuration is loaded):
# an empty <default></default> element for an integer key / wildcard key, a default attribute, ...
BAD_DEFAULT_SCHEMAS = [
    '<schema><multikey name="a" datatype="integer"><default></default></multikey></schema>',
    '<schema><key name="+" attribute="m" datatype="integer"><default key="x"></default></key></schema>',
    '<schema><multikey name="+" attribute="m" datatype="integer"><default key="x"></default><default key="x">1</default></multikey></schema>',
    '<schema><key name="a" datatype="integer" default="x"/></schema>',
    '<schema><multikey name="a" datatype="integer"><default>1</default><default> </default></multikey></schema>',
    '<schema><sectiontype name="t"><multikey name="a" datatype="boolean"><default></default></multikey></sectiontype>'
    '<multisection type="t" name="*" attribute="ts"/></schema>',
]


# a NAME that the schema gives to a section used as a key (and the other way round), in the text and in
# override specifiers; wildcard multikey defaults used by several sections / several loads
NAME_CLASH_SCHEMA = ('<schema><sectiontype name="inner"><key name="level" datatype="integer" default="1"/></sectiontype>'
                     '<sectiontype name="server"><key name="port" datatype="integer" default="80"/>'
                     '<section type="inner" name="limits"/></sectiontype>'
                     '<section type="server" name="main"/><key name="title"/></schema>')
NAME_CLASH_CASES = [("title x\nmain on\n", []), ("<server main>\n  port 81\n  limits 10\n</server>\n", []),
                    ("main on\n<server main/>\n", []), ("title x\n", ["main=on"]),
                    ("<server main>\n</server>\n", ["main/limits=10"]), ("<server title>\n</server>\n", []),
                    ("<inner main/>\n", []), ("", ["title/port=1"])]
WILD_DEFAULTS_SCHEMA = ('<schema><sectiontype name="pool"><multikey name="+" attribute="limits" datatype="integer">'
                        '<default key="soft">10</default><default key="soft">11</default><default key="hard">20</default>'
                        '</multikey></sectiontype><sectiontype name="one"><key name="+" attribute="single" datatype="integer">'
                        '<default key="a">1</default></key></sectiontype>'
                        '<multisection type="pool" name="*" attribute="pools"/><multisection type="one" name="*" attribute="ones"/></schema>')
WILD_DEFAULTS_TEXTS = ["<pool a/>\n<pool b/>\n", "<pool a>\n</pool>\n", "<pool a>\nsoft 5\n</pool>\n<pool b/>\n<pool c/>\n",
                       "<pool a/>\n", "<one a/>\n<one b/>\n", "<one a>\nb 2\n</one>\n<one c/>\n"]


def directed(col_ctx):
    ZConfig = col_ctx.ZConfig
    schema = ZConfig.loadSchemaFile(io.StringIO(NAME_CLASH_SCHEMA))
    for n, (text, ovs) in enumerate(NAME_CLASH_CASES):
        col_ctx.run("text", ("name-clash", n), {"schema_xml": NAME_CLASH_SCHEMA, "text": text, "overrides": ovs},
                    ZConfig.loadConfigFile, schema, io.StringIO(text), overrides=list(ovs))
    schema = ZConfig.loadSchemaFile(io.StringIO(WILD_DEFAULTS_SCHEMA))
    for rnd in range(2):                      # the same schema object again: defaults are used a second time
        for n, text in enumerate(WILD_DEFAULTS_TEXTS):
            col_ctx.run("text", ("wild-defaults", rnd, n), {"schema_xml": WILD_DEFAULTS_SCHEMA, "text": text, "round": rnd},
                        ZConfig.loadConfigFile, schema, io.StringIO(text))


def bad_defaults(col_ctx):
    ZConfig = col_ctx.ZConfig
    for n, xml in enumerate(BAD_DEFAULT_SCHEMAS):
        try:
            schema = ZConfig.loadSchemaFile(io.StringIO(xml))
        except ZConfig.ConfigurationError:
            continue                      # (a schema the loader refuses is not a "loadable schema")
        for text in ("", "a 1\n", "x 1\n", "<t>\n</t>\n", "<t/>\n"):
            col_ctx.run("text", ("bad-default", n, text), {"schema_xml": xml, "text": text},
                        ZConfig.loadConfigFile, schema, io.StringIO(text))


def run(tier, seed):
    use_repo()
    quick = tier == "quick"
    items = []
    nseeds = 6 if quick else 24
    for si in range(len(cs.SCHEMAS)):
        for s in range(nseeds):
            sd = seed * 1000 + s
            for level in ("char", "token", "line"):
                items.append(("text", si, sd, s % 2 == 0, level, quick))
            items.append(("override", si, sd, quick))
        for s in range(2 if quick else 6):
            items.append(("validator", si, seed * 1000 + s, quick))
    for p in range(16):
        items.append(("include", p, 16, quick))
        items.append(("graph", p, 16, quick))
    col = Collector()
    exempt = 0
    import ZConfig as _Z
    c0 = Ctx(_Z)
    bad_defaults(c0)
    directed(c0)
    col.merge(c0.col.partial())
    for part in pmap(_dispatch, items, chunksize=1):
        exempt += part.get("exempt", 0)
        col.merge(part)
    return col.result(
        bound="6 directed schemas whose defaults cannot be converted x 5 texts; 8 texts / override lists that use "
              "the name of a section as a key (and vice versa); wildcard-multikey defaults used by several sections "
              "and by two rounds of loads of one schema object; "
              "10 corpus schemas x %d valid texts: ALL single-character "
              "deletions / duplications / transpositions and insertions of "
              "each of %d metacharacters at every offset, all token-level "
              "and line-level deletions / duplications / transpositions, "
              "insertion of %d special lines at every line position, "
              "truncations; %d %%include arguments plus all character "
              "mutants of three include lines (loaded by path and from "
              "StringIO); all 512 include graphs over 3 files x 2 layouts; "
              "override specifiers for every key line at every depth: "
              "unconvertible values, all character/token mutants, %d "
              "malformed specifiers; validator.main on single files and "
              "groups of 2-4 files.  Exempt (non-ValueError raised inside a "
              "datatype function): %d"
              % (nseeds, len(META), len(LINE_INSERTS), len(INCLUDE_ARGS),
                 len(BAD_SPECS), exempt),
        rule="case = one call of a loading entry point; distinct = distinct "
             "(schema, text[, overrides]) / file set; every case is a "
             "mutated input (non-trivial by construction)")
