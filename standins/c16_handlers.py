"""C16 stand-in: the composite handler (entries, order, identity with the
tree's values, None skipped, all-or-nothing on bad maps)."""
import random
from io import StringIO

from standins.common import Collector, pmap, use_repo
from standins.refmodel import schemamodel as sm
from standins.refmodel.dt import Wrapped
from standins.c01_conforms import crash_sig, crc, msg_template, real_load
from standins.c02_tree import compare_tree, real_tree, _short

PROPERTY = "C16"
# attribute names are C02's business: navigate with the reading that matches
NAV = {"attr_lower": True}


def resolve(cfg, path):
    """The object the real tree holds at a reference path."""
    v = cfg
    if not path:
        return v
    for attr, idx in path[:-1]:
        if isinstance(v, Wrapped):
            v = v.inner
        v = getattr(v, attr)
        if idx is not None:
            v = v[idx]
    if isinstance(v, Wrapped):
        v = v.inner
    return getattr(v, path[-1])


def _masks(n, rng, exhaustive_upto, sample):
    if n <= exhaustive_upto:
        return [[bool(m >> i & 1) for i in range(n)] for m in range(1 << n)]
    out = [[True] * n, [False] * n]
    out += [[i == j for i in range(n)] for j in range(n)]
    while len(out) < sample:
        p = rng.choice([0.2, 0.5, 0.8])
        out.append([rng.random() < p for _ in range(n)])
    return out[:max(sample, n + 2)]


def _check_calls(col, inp, what, calls, expected, cfg):
    """calls: [(name, value)] seen; expected: [(name, path, refvalue)]."""
    names_seen = [c[0] for c in calls]
    names_exp = [e[0] for e in expected]
    if names_seen != names_exp:
        if sorted(names_seen) == sorted(names_exp):
            col.violation("C16:call-order", what + ": order of handler calls",
                          inp, names_exp, names_seen)
        else:
            col.violation("C16:call-multiset", what + ": which handlers were"
                          " called (each entry exactly once)", inp, names_exp,
                          names_seen)
        return
    for (name, val), (_, path, refval) in zip(calls, expected):
        held = resolve(cfg, path)
        if val is not held:
            col.violation("C16:value-not-the-tree's-object", what +
                          ": handler %r got another object than the tree"
                          " holds" % name, inp, _short(real_tree(held)),
                          _short(real_tree(val)))
            return
        d = [x for x in compare_tree(refval, real_tree(val))
             if x[0] != "default-attribute-name-lowercased"]
        if d:
            col.violation("C16:value-differs-from-reference", what +
                          ": value handed to %r" % name, inp, d[0][2],
                          d[0][3])
            return


def _exercise(ZConfig, col, view, xml, text, cfg, handler, entries):
    inp = {"schema": xml, "text": text}
    col.case(crc(xml, text, "len"))
    if len(handler) != len(entries):
        col.violation("C16:len", "len(handler) vs handler-bearing items"
                      " instantiated", inp, len(entries), len(handler))
    names = []
    for e in entries:
        if e[0] not in names:
            names.append(e[0])

    def recorders(keys, calls, rename=lambda s: s):
        return dict((rename(k), (lambda v, k=k: calls.append((k, v))))
                    for k in keys)

    def attempt(tag, hmap, calls):
        col.case(crc(xml, text, tag))
        try:
            handler(hmap)
        except ZConfig.ConfigurationError as e:
            return ("reject", e)
        except Exception as e:      # noqa: BLE001
            col.violation("C16:internal-exception:" + type(e).__name__,
                          tag + ": non-configuration error from the handler",
                          dict(inp, map=sorted(hmap)), "ConfigurationError or"
                          " calls", repr(e))
            return ("crash", e)
        return ("ok", None)

    # complete map, names as normalised
    calls = []
    r = attempt("complete", recorders(names, calls), calls)
    if r[0] == "reject":
        col.violation("C16:complete-map-refused", "complete handler map"
                      " refused", dict(inp, map=names), "all entries called",
                      msg_template(r[1]))
    elif r[0] == "ok":
        _check_calls(col, inp, "complete map", calls, entries, cfg)
    # complete map, upper-case names plus an unused extra name
    calls = []
    hmap = recorders(names, calls, str.upper)
    hmap["Unused-Extra"] = lambda v: calls.append(("unused-extra", v))
    r = attempt("uppercase+extra", hmap, calls)
    if r[0] == "reject":
        col.violation("C16:names-not-normalised", "map with upper-case names"
                      " (and an unused extra) refused", dict(inp, map=sorted(
                          hmap)), "all entries called", msg_template(r[1]))
    elif r[0] == "ok":
        _check_calls(col, inp, "upper-case names", calls, entries, cfg)
    # None for every other name
    if names:
        calls = []
        hmap = recorders(names, calls)
        muted = names[::2]
        for k in muted:
            hmap[k] = None
        r = attempt("none", hmap, calls)
        if r[0] == "reject":
            col.violation("C16:none-refused", "map with None values refused",
                          dict(inp, map=names), "entries mapped to None"
                          " skipped", msg_template(r[1]))
        elif r[0] == "ok":
            _check_calls(col, inp, "None skipped", calls,
                         [e for e in entries if e[0] not in muted], cfg)
    # incomplete: each single name left out (up to 3)
    for drop in names[:3]:
        calls = []
        hmap = recorders([k for k in names if k != drop], calls)
        r = attempt("incomplete:" + drop, hmap, calls)
        if r[0] == "ok":
            col.violation("C16:incomplete-map-accepted", "a handler name is"
                          " unmapped but no error", dict(inp, missing=drop),
                          "ConfigurationError, nothing called",
                          [c[0] for c in calls])
        elif r[0] == "reject" and calls:
            col.violation("C16:not-all-or-nothing", "incomplete map: error"
                          " raised after some handlers ran", dict(
                              inp, missing=drop), "nothing called",
                          [c[0] for c in calls])
    # two supplied names that normalise to the same key
    dup = names[0] if names else "h0"
    calls = []
    hmap = recorders(names or [dup], calls)
    hmap[dup.upper()] = lambda v: calls.append((dup + "#2", v))
    r = attempt("duplicate", hmap, calls)
    if r[0] == "ok":
        col.violation("C16:duplicate-names-accepted", "two names that"
                      " normalise to the same key, no error", dict(
                          inp, map=sorted(hmap)), "ConfigurationError,"
                      " nothing called", [c[0] for c in calls])
    elif r[0] == "reject" and calls:
        col.violation("C16:not-all-or-nothing", "duplicate names: error after"
                      " some handlers ran", dict(inp, map=sorted(hmap)),
                      "nothing called", [c[0] for c in calls])


def _work(job):
    seed, idx, ntexts, upto, sample = job
    ZConfig = use_repo()
    col = Collector()
    rng = random.Random(seed * 7 + idx)
    view = sm.schema_family(seed * 100000 + idx, 1, small=True)[0]
    try:
        schema0 = ZConfig.loadSchemaFile(StringIO(sm.render_xml(view)))
    except Exception as e:      # noqa: BLE001
        col.case()
        col.violation("C01:generated-schema-refused:" + msg_template(e),
                      "a schema of the family does not load",
                      {"schema": sm.render_xml(view)}, "loads", repr(e))
        return col.partial()
    texts = []
    for t in sm.texts_for(view, seed * 100000 + idx, 40, fault_rate=0.1):
        if len(texts) >= ntexts:
            break
        ref = sm.ref_load(view, t["text"], reading=NAV)
        if ref[0] != "ok" or t["text"] in texts:
            continue
        real = real_load(ZConfig, schema0, t["text"])
        if real[0] != "ok":
            continue
        if [d for d in compare_tree(ref[1], real_tree(real[1]))
                if d[0] != "default-attribute-name-lowercased"]:
            continue        # a C01 / C02 matter, reported there
        texts.append(t["text"])
    skipped = 0
    nitems = sm.add_handlers(view, [])[1]
    for mask in _masks(nitems, rng, upto, sample):
        hv, _ = sm.add_handlers(view, mask)
        xml = sm.render_xml(hv)
        try:
            schema = ZConfig.loadSchemaFile(StringIO(xml))
        except Exception as e:      # noqa: BLE001
            col.case()
            col.violation("C16:schema-with-handlers-refused:" +
                          msg_template(e), "handler attributes make the"
                          " schema unloadable", {"schema": xml}, "loads",
                          repr(e))
            continue
        for text in texts:
            ref = sm.ref_load(hv, text, reading=NAV)
            real = real_load(ZConfig, schema, text)
            if real[0] == "crash":
                col.case()
                col.violation(crash_sig(real[1]), "internal exception",
                              {"schema": xml, "text": text}, "a load",
                              repr(real[1]))
                continue
            if ref[0] != "ok" or real[0] != "ok":
                skipped += 1
                continue
            sample_ = None
            if idx == 0 and not col.samples and any(mask):
                sample_ = {"schema": xml, "text": text, "entries":
                           [(e[0], list(e[1])) for e in ref[2]]}
                col.samples.append(sample_)
            _exercise(ZConfig, col, hv, xml, text, real[1], real[2], ref[2])
    part = col.partial()
    part["skipped"] = skipped
    part["ntexts"] = len(texts)
    return part


def run(tier, seed):
    if tier == "quick":
        nschemas, ntexts, upto, sample = 480, 3, 7, 48
    else:
        nschemas, ntexts, upto, sample = 3200, 4, 9, 160
    col = Collector()
    skipped = texts = 0
    jobs = [(seed, i, ntexts, upto, sample) for i in range(nschemas)]
    for part in pmap(_work, jobs, chunksize=1):
        col.merge(part)
        skipped += part.get("skipped", 0)
        texts += part.get("ntexts", 0)
    return col.result(
        bound="%d small schemas of the C01 family (nesting <= 2 below the top,"
              " <= ~12 handler-capable items: schema, keys, multikeys,"
              " wildcard keys, sections, multisections); handler attributes"
              " on every subset of the items when there are <= %d of them,"
              " else on %d subsets (all, none, each singleton, random); up to"
              " %d accepted texts per schema (%d in total); per (schema,"
              " subset, text) the maps: complete, upper-cased + unused extra,"
              " None for every other name, each of up to 3 names missing,"
              " one case-variant duplicate" % (nschemas, upto, sample, ntexts,
                                               texts),
        rule="one evaluation = len() or one call of the composite handler"
             " with recording callables; expected entries come from the"
             " reference model (per closed section: its handler-bearing"
             " items in schema order; sections in closing order; schema"
             " handler last); values must be the tree's own objects;"
             " handler names are shared between items (4 names);"
             " %d (subset, text) pairs skipped because the text stopped"
             " being accepted" % skipped)
