"""C18 stand-in: path, URL and file-object entry points reach the same
resource with the same result.

(a) relational + by construction: directory layouts of up to 3 levels with
    file and directory names over the alphabet of C18 (letters, digits,
    space - _ . ~ + & ; [ ] and a non-ASCII letter); the same configuration
    (with nested relative %include) and the same schema (relative
    ``extends`` / ``<import src>``, nested) are loaded by absolute path,
    relative path (current directory inside and outside the tree), file: URL
    (three-slash and one-slash form), open file object with a name, and
    StringIO + explicit url; all must give the same result, which must be the
    one that reads the files the references designate (each file carries a
    unique token; decoys sit where a reference resolved against the wrong
    base would land).  A reference carrying '#fragment' must be rejected with
    a ConfigurationError.
(b) exhaustive: ``ZConfig.url.urlnormalize / urldefrag / urljoin`` and
    ``BaseLoader.isPath / normalizeURL`` on all strings up to length 6 (quick)
    / 7 (thorough) over {a C : / \\ # . f i l e} against reference functions
    written from the statement.
"""
import io
import itertools
import os
import pathlib
import random
import shutil
import tempfile
import urllib.parse
from xml.sax.saxutils import quoteattr

from standins.common import Collector, pmap, use_repo
from standins.refmodel import corpus_small as cs

PROPERTY = "C18"

NAME_ALPHABET = ["a", "B", "z", "0", "7", " ", "-", "_", ".", "~", "+", "&",
                 ";", "[", "]", "é"]
SPECIAL = [" ", "-", "_", ".", "~", "+", "&", ";", "[", "]", "é"]
URL_ALPHABET = ["a", "C", ":", "/", "\\", "#", ".", "f", "i", "l", "e"]


# ====================================================================== (a)

def gen_name(rng, used, must=None):
    while True:
        n = rng.choice([1, 2, 3, 4, 5])
        s = "".join(rng.choice(NAME_ALPHABET) for _ in range(n))
        if must is not None:
            i = rng.randrange(len(s) + 1)
            s = s[:i] + must + s[i:]
        if s in (".", "..") or s in used:
            continue
        if rng.random() < 0.7:
            s = s + rng.choice([".conf", ".xml", ""])
        if s in used or s in (".", ".."):
            continue
        used.add(s)
        return s


def rel(target, fromdir):
    return os.path.relpath(target, fromdir)


def ref_forms(ref):
    """The ways a user may write a relative reference: percent-quoted always;
    raw when the raw text survives the surrounding syntax (no leading or
    trailing blank)."""
    out = [("quoted", urllib.parse.quote(ref))]
    if ref == ref.strip() and urllib.parse.quote(ref) != ref:
        out.append(("raw", ref))
    return out


class Layout:
    """root/<d1>/<d2>/<d3>; the top resources live at depth ``level``."""

    def __init__(self, root, rng, must):
        used = set()
        self.root = root
        self.dirs = [root]
        cur = root
        musts = [must, None, None]
        rng.shuffle(musts)
        for k in range(3):
            cur = os.path.join(cur, gen_name(rng, used, musts[k]))
            self.dirs.append(cur)
        self.used = used
        self.extra = os.path.join(root, gen_name(rng, used))   # a sibling
        for d in self.dirs[1:] + [self.extra]:
            os.makedirs(d, exist_ok=True)

    def somewhere(self, rng, near):
        """A directory: same, a child/sub, or the parent of ``near``."""
        i = self.dirs.index(near) if near in self.dirs else 1
        cands = [self.dirs[i]]
        if i + 1 < len(self.dirs):
            cands.append(self.dirs[i + 1])
        if i - 1 >= 1:
            cands.append(self.dirs[i - 1])
        return rng.choice(cands)


def write(path, text):
    with open(path, "w", encoding="utf-8") as f:
        f.write(text)


CONF_SCHEMA = ("<schema><key name='k1'/><key name='k2'/><key name='j'/>"
               "</schema>")


def ways(path, cwd_list):
    """(label, cwd, callable(entry) -> result) for every way of naming."""
    ab = os.path.abspath(path)
    url3 = pathlib.Path(ab).as_uri()
    url1 = "file:" + urllib.parse.quote(ab)
    out = [("abs", None, "path", ab), ("url3", None, "path", url3),
           ("url1", None, "path", url1), ("file-abs", None, "file", ab),
           ("stringio+url", None, "text", url3)]
    for cwd in cwd_list:
        r = os.path.relpath(ab, cwd)
        out.append(("rel", cwd, "path", r))
        out.append(("file-rel", cwd, "file", r))
        if not r.startswith("."):
            out.append(("rel-dot", cwd, "path", "./" + r))
    return out


def call(ZConfig, what, schema, mode, arg):
    """Load a config (what == 'config') or a schema through one way."""
    if what == "config":
        if mode == "path":
            return ZConfig.loadConfig(schema, arg)[0]
        if mode == "file":
            with open(arg, encoding="utf-8") as f:
                return ZConfig.loadConfigFile(schema, f)[0]
        p = urllib.parse.unquote(arg[len("file://"):])
        with open(p, encoding="utf-8") as f:
            text = f.read()
        return ZConfig.loadConfigFile(schema, io.StringIO(text), url=arg)[0]
    if mode == "path":
        return ZConfig.loadSchema(arg)
    if mode == "file":
        with open(arg, encoding="utf-8") as f:
            return ZConfig.loadSchemaFile(f)
    p = urllib.parse.unquote(arg[len("file://"):])
    with open(p, encoding="utf-8") as f:
        text = f.read()
    return ZConfig.loadSchemaFile(io.StringIO(text), url=arg)


def schema_print(ZConfig, s):
    """Observable image of a schema: what it makes of a probing text."""
    probe = "<t1/>\n<t2/>\nown x\n"
    o = cs.load_text(s, probe)
    types = sorted(s.gettypenames())
    return (types, o if o[0] == "ok" else ("rejected", str(o[1])))


def chars_of(names):
    return "".join(sorted({c for n in names for c in n if c in SPECIAL}))


def work_layout(item):
    ZConfig = use_repo()
    seed, idx = item
    rng = random.Random("c18:%d:%d" % (seed, idx))
    col = Collector()
    must = SPECIAL[idx % len(SPECIAL)] if idx % 3 else None
    root = tempfile.mkdtemp(prefix="c18_", dir=cs.fast_tmp())
    home = os.getcwd()
    try:
        lay = Layout(root, rng, must)
        level = rng.choice([1, 2, 3])
        top = lay.dirs[level]
        used = lay.used
        conf_schema = cs.load_schema(CONF_SCHEMA)
        cwds = [root, top, lay.extra, "/", lay.dirs[1]]
        # ---------------- configuration with nested relative includes
        d1 = lay.somewhere(rng, top)
        d2 = lay.somewhere(rng, d1)
        main = os.path.join(top, gen_name(rng, used, must if rng.random() < .5
                                          else None))
        inc1 = os.path.join(d1, gen_name(rng, used))
        inc2 = os.path.join(d2, gen_name(rng, used))
        names = [os.path.basename(x) for x in (main, inc1, inc2)] + \
            [os.path.basename(x) for x in lay.dirs[1:]]
        for form1, r1 in ref_forms(rel(inc1, top)):
            for form2, r2 in ref_forms(rel(inc2, d1)):
                write(main, "%%include %s\nj 1\n" % r1)
                write(inc1, "k1 token-one\n  %%include %s  \n" % r2)
                write(inc2, "k2 token-two\n")
                # decoy: inc2's reference resolved against main's directory
                decoy = os.path.normpath(os.path.join(top, rel(inc2, d1)))
                made = None
                if decoy not in (main, inc1, inc2) and \
                        decoy.startswith(root + os.sep) and \
                        not os.path.exists(decoy) and \
                        os.path.isdir(os.path.dirname(decoy)):
                    write(decoy, "k2 DECOY\n")
                    made = decoy
                want = {"k1": "token-one", "k2": "token-two", "j": "1"}
                results = []
                for label, cwd, mode, arg in ways(main, cwds):
                    os.chdir(cwd or home)
                    try:
                        c = call(ZConfig, "config", conf_schema, mode, arg)
                        got = {"k1": c.k1, "k2": c.k2, "j": c.j}
                    except Exception as e:      # noqa: BLE001
                        got = ("%s: %s" % (type(e).__name__, str(e)[:160])
                               ).replace(root, "<root>")
                    finally:
                        os.chdir(home)
                    inp = {"tree": sorted(
                        os.path.relpath(os.path.join(dp, f), root)
                        for dp, _dn, fn in os.walk(root) for f in fn),
                        "main": rel(main, root),
                        "main_text": "%%include %s\\nj 1" % r1,
                        "inc1": rel(inc1, root), "inc1_include": r2,
                        "inc2": rel(inc2, root), "way": label,
                        "cwd": rel(cwd, root) if cwd and cwd != "/" else cwd,
                        "arg": arg.replace(root, "<root>"),
                        "ref_forms": [form1, form2]}
                    col.case(hash((label, arg, r1, r2, cwd)),
                             inp if col.evaluations % 499 == 0 else None)
                    results.append((label, got, inp))
                _judge(col, "config", results, want,
                       "raw" in (form1, form2), chars_of(names), root)
                if made:
                    os.unlink(made)
        # fragments -------------------------------------------------------
        r1 = urllib.parse.quote(rel(inc1, top))
        write(inc1, "k1 token-one\n")
        frag_cases = []
        write(main, "%%include %s#frag\nj 1\n" % r1)
        frag_cases.append(("include-ref", "config", conf_schema, "path", main))
        frag_cases.append(("include-ref-url", "config", conf_schema, "path",
                           pathlib.Path(main).as_uri()))
        for label, what, sch, mode, arg in frag_cases:
            _frag(col, ZConfig, label, what, sch, mode, arg, root)
        write(main, "%%include %s\nj 1\n" % r1)
        for label, arg in (("top-url", pathlib.Path(main).as_uri() + "#frag"),
                           ("top-url1", "file:" + urllib.parse.quote(main)
                            + "#frag"),
                           ("top-path", main + "#frag")):
            _frag(col, ZConfig, label, "config", conf_schema, "path", arg,
                  root)
        # ---------------- schema with relative extends / import src, nested
        sd1 = lay.somewhere(rng, top)
        sd2 = lay.somewhere(rng, top)
        sd3 = lay.somewhere(rng, sd2)
        stop = os.path.join(top, gen_name(rng, used, must if rng.random() < .5
                                          else None))
        sbase = os.path.join(sd1, gen_name(rng, used))
        stypes = os.path.join(sd2, gen_name(rng, used))
        smore = os.path.join(sd3, gen_name(rng, used))
        snames = [os.path.basename(x) for x in (stop, sbase, stypes, smore)] \
            + [os.path.basename(x) for x in lay.dirs[1:]]
        rbase = urllib.parse.quote(rel(sbase, top))   # extends: URL refs
        for formt, rt in ref_forms(rel(stypes, top)):
            for formm, rm in ref_forms(rel(smore, sd2)):
                write(stop, "<schema extends=%s>\n <import src=%s/>\n"
                      " <section type='t1' name='*' attribute='s1'/>\n"
                      " <section type='t2' name='*' attribute='s2'/>\n"
                      " <key name='own'/>\n</schema>\n"
                      % (quoteattr(rbase), quoteattr(rt)))
                write(sbase, "<schema><key name='frombase' "
                             "default='B-token'/></schema>")
                write(stypes, "<schema><import src=%s/><sectiontype "
                              "name='t1'><key name='x' default='T1-token'/>"
                              "</sectiontype></schema>" % quoteattr(rm))
                write(smore, "<schema><sectiontype name='t2'><key name='y' "
                             "default='T2-token'/></sectiontype></schema>")
                decoy = os.path.normpath(os.path.join(top, rel(smore, sd2)))
                made = None
                if decoy not in (stop, sbase, stypes, smore) and \
                        decoy.startswith(root + os.sep) and \
                        not os.path.exists(decoy) and \
                        os.path.isdir(os.path.dirname(decoy)):
                    write(decoy, "<schema><sectiontype name='t2'><key "
                                 "name='y' default='DECOY'/></sectiontype>"
                                 "</schema>")
                    made = decoy
                results = []
                for label, cwd, mode, arg in ways(stop, cwds):
                    os.chdir(cwd or home)
                    try:
                        sobj = call(ZConfig, "schema", None, mode, arg)
                        got = schema_print(ZConfig, sobj)
                    except Exception as e:      # noqa: BLE001
                        got = ("%s: %s" % (type(e).__name__, str(e)[:160])
                               ).replace(root, "<root>")
                    finally:
                        os.chdir(home)
                    inp = {"top": rel(stop, root),
                           "extends": rbase, "import_src": rt,
                           "types_file": rel(stypes, root),
                           "types_import_src": rm,
                           "more_file": rel(smore, root),
                           "base_file": rel(sbase, root), "way": label,
                           "cwd": rel(cwd, root) if cwd and cwd != "/"
                           else cwd, "arg": arg.replace(root, "<root>")}
                    col.case(hash(("s", label, arg, rt, rm, cwd)), None)
                    if not isinstance(got, str):
                        rp = repr(got)
                        good = (got[1][0] == "ok" and "T1-token" in rp
                                and "T2-token" in rp and "B-token" in rp
                                and "DECOY" not in rp)
                        got = ("as-designated", got[0]) if good else \
                            {"schema-image": rp[:400]}
                    results.append((label, got, inp))
                _judge(col, "schema", results,
                       ("as-designated", ["t1", "t2"]),
                       "raw" in (formt, formm), chars_of(snames), root)
                if made:
                    os.unlink(made)
        # schema fragments
        rt = urllib.parse.quote(rel(stypes, top))
        write(stypes, "<schema><sectiontype name='t1'/><sectiontype "
                      "name='t2'/></schema>")
        write(stop, "<schema extends=%s><import src=%s/></schema>"
              % (quoteattr(rbase + "#frag"), quoteattr(rt)))
        _frag(col, ZConfig, "extends-ref", "schema", None, "path", stop, root)
        write(stop, "<schema extends=%s><import src=%s/></schema>"
              % (quoteattr(rbase), quoteattr(rt + "#frag")))
        _frag(col, ZConfig, "import-src-ref", "schema", None, "path", stop,
              root)
        _frag(col, ZConfig, "import-src-ref-file", "schema", None, "file",
              stop, root)
        write(stop, "<schema extends=%s><import src=%s/></schema>"
              % (quoteattr(rbase), quoteattr(rt)))
        _frag(col, ZConfig, "schema-top-url", "schema", None, "path",
              pathlib.Path(stop).as_uri() + "#frag", root)
        return col.partial()
    finally:
        os.chdir(home)
        shutil.rmtree(root, ignore_errors=True)


def _judge(col, what, results, want, raw, chars, root):
    """One root cause, one signature: if every way gives the same wrong
    result the references themselves are mis-resolved; otherwise the deviating
    ways are named."""
    bad = [(label, got, inp) for label, got, inp in results if got != want]
    if not bad:
        return
    spell = "raw-ref" if raw else "quoted-ref"
    same = len(bad) == len(results) and \
        all(b[1] == bad[0][1] for b in bad)
    for label, got, inp in bad:
        kind = "error" if isinstance(got, str) else "wrong-resource"
        who = "all-ways" if same else label.split("-")[0]
        col.violation(
            "C18:%s:%s:%s:%s" % (what, who, spell, kind),
            "%s loaded through %r does not read the files its references "
            "designate (special characters in names: %r)"
            % (what, label, chars), inp, want, got)
        if same:
            break


def _frag(col, ZConfig, label, what, schema, mode, arg, root):
    try:
        call(ZConfig, what, schema, mode, arg)
        got = "accepted"
    except ZConfig.ConfigurationError:
        got = "ConfigurationError"
    except Exception as e:      # noqa: BLE001
        got = ("%s: %s" % (type(e).__name__, str(e)[:120])
               ).replace(root, "<root>")
    col.case(hash(("frag", label, arg)), None)
    if got != "ConfigurationError":
        col.violation("C18:fragment:%s:%s" % (label, got.split(":")[0]),
                      "a reference carrying a fragment identifier was not "
                      "rejected with a ConfigurationError",
                      {"where": label, "arg": arg.replace(root, "<root>")},
                      "ConfigurationError", got)


# ====================================================================== (b)

_ALPHA = set("abcdefghijklmnopqrstuvwxyzABCDEFGHIJKLMNOPQRSTUVWXYZ")
_SCHEME_TAIL = _ALPHA | set("0123456789+-.")


def ref_is_url(s):
    """RFC 3986 scheme (ALPHA *(ALPHA / DIGIT / + / - / .)) of at least two
    characters followed by ':' at the start of the string."""
    if not s or s[0] not in _ALPHA:
        return False
    i = 1
    while i < len(s) and s[i] in _SCHEME_TAIL:
        i += 1
    return i >= 2 and i < len(s) and s[i] == ":"


def ref_urlnormalize(u):
    """file URLs with an absolute path get the 'file:///' form."""
    if u[:5].lower() == "file:" and u[5:6] == "/" and u[5:8] != "///":
        return "file://" + u[5:]
    return u


def ref_urldefrag(u):
    base, frag = urllib.parse.urldefrag(u)
    return ref_urlnormalize(base), frag


def ref_urljoin(b, r):
    return ref_urlnormalize(urllib.parse.urljoin(b, r))


def ref_normalizeURL(s):
    u = s
    if not ref_is_url(s):
        u = "file://" + urllib.parse.quote(os.path.abspath(s))
    base, frag = urllib.parse.urldefrag(u)
    if frag:
        return "ConfigurationError"
    return ref_urlnormalize(base)


JOIN_BASES = ["file:///a/C", "file:/a/", "a:/C/e", "", "/a/", "file://a/f#e",
              "C:/a", "fi:le"]


def _try(fn, *a):
    try:
        return fn(*a)
    except Exception as e:      # noqa: BLE001
        return "%s" % type(e).__name__


def check_string(col, ZConfig, loader, s, all_bases):
    import ZConfig.url as zurl
    n = 0
    # isPath
    got = loader.isPath(s)
    want = not ref_is_url(s)
    n += 1
    if got != want:
        col.violation("C18:isPath:%s" % ("url-taken-for-path" if got
                                         else "path-taken-for-url"),
                      "isPath disagrees with 'URL iff RFC 3986 scheme of >= "
                      "2 characters followed by ':''", s, want, got)
    # urlnormalize + idempotence
    g1 = zurl.urlnormalize(s)
    n += 1
    if g1 != ref_urlnormalize(s):
        col.violation("C18:urlnormalize:differs", "urlnormalize", s,
                      ref_urlnormalize(s), g1)
    g2 = zurl.urlnormalize(g1)
    if g2 != g1:
        col.violation("C18:urlnormalize:not-idempotent", "urlnormalize twice",
                      s, g1, g2)
    if s[:6].lower() == "file:/" and not g1.lower().startswith("file:///"):
        col.violation("C18:urlnormalize:not-three-slash", "file URL not in "
                      "'file:///' form", s, "file:///...", g1)
    # urldefrag
    got = _try(zurl.urldefrag, s)
    want = _try(ref_urldefrag, s)
    n += 1
    if got != want:
        col.violation("C18:urldefrag:differs", "urldefrag", s,
                      list(want), list(got))
    # normalizeURL
    try:
        got = loader.normalizeURL(s)
    except ZConfig.ConfigurationError:
        got = "ConfigurationError"
    except Exception as e:      # noqa: BLE001
        got = type(e).__name__
    want = _try(ref_normalizeURL, s)
    n += 1
    if got != want:
        col.violation("C18:normalizeURL:%s" % (
            "fragment" if "ConfigurationError" in (got, want) else "differs"),
            "normalizeURL", s, want, got)
    # urljoin
    bases = JOIN_BASES if all_bases else \
        [JOIN_BASES[(len(s) + ord(s[-1])) % len(JOIN_BASES)]] if s else \
        JOIN_BASES
    for b in bases:
        got = _try(zurl.urljoin, b, s)
        want = _try(ref_urljoin, b, s)
        n += 1
        if got != want:
            col.violation("C18:urljoin:differs", "urljoin", [b, s], want, got)
        if len(s) > 5:
            continue
        # the argument as a base, too (strings up to length 5)
        got = _try(zurl.urljoin, s, b)
        want = _try(ref_urljoin, s, b)
        n += 1
        if got != want:
            col.violation("C18:urljoin:differs", "urljoin", [s, b], want, got)
    return n


def work_strings(item):
    ZConfig = use_repo()
    import ZConfig.loader
    prefix, maxlen = item

    class Ldr(ZConfig.loader.BaseLoader):
        def loadResource(self, resource):
            return None
    loader = Ldr()
    col = Collector()
    cnt = 0
    for k in range(0, maxlen - len(prefix) + 1):
        for tup in itertools.product(URL_ALPHABET, repeat=k):
            s = prefix + "".join(tup)
            n = check_string(col, ZConfig, loader, s, len(s) <= 4)
            cnt += n
            col.evaluations += n
    out = col.partial()
    out["distinct"] = []
    out["nstrings"] = cnt
    return out


def run(tier, seed):
    use_repo()
    quick = tier == "quick"
    maxlen = 6 if quick else 7
    nlay = 400 if quick else 6000
    items_a = [(seed, i) for i in range(nlay)]
    col = Collector()
    for part in pmap(work_layout, items_a, chunksize=4):
        col.merge(part)
    n_a = col.evaluations
    prefixes = ["".join(t) for t in itertools.product(URL_ALPHABET, repeat=3)]
    short = [""] + ["".join(t) for k in (1, 2)
                    for t in itertools.product(URL_ALPHABET, repeat=k)]
    items_b = [(p, maxlen) for p in prefixes] + [(p, len(p)) for p in short]
    # focus on file URLs beyond the stated length: 'file:' + every string of
    # length <= 4 (quick) / 5
    items_b += [("file:" + c, 5 + (4 if quick else 5))
                for c in URL_ALPHABET] + [("file:", 5)]
    nstr = 0
    for part in pmap(work_strings, items_b, chunksize=8):
        nstr += 1
        col.merge(part)
    total_strings = sum(len(URL_ALPHABET) ** k for k in range(maxlen + 1))
    res = col.result(
        bound="(a) %d random layouts (3 directory levels + a sibling; names "
              "of 1..5 characters over %r plus optional suffix, every special "
              "character forced into a name in turn); top resource at depth "
              "1..3; include / import-src chains of length 2 through same / "
              "child / parent directories, references written percent-quoted "
              "and raw; 5 current directories (root, top's directory, a "
              "sibling, '/', first level); ways: abs path, relative path, "
              "'./'-relative, file:/// URL, file:/ URL, file object opened by "
              "abs / relative name, StringIO + url; 9 fragment placements.  "
              "(b) ALL %d strings of length <= %d over %r (plus 'file:' "
              "followed by every string of length <= 4 / 5): isPath, "
              "urlnormalize (+ idempotence, three-slash form), urldefrag, "
              "normalizeURL, urljoin against %d bases (all bases for length <= 4, one "
              "rotating base above; the string as the base argument too for "
              "length <= 5)"
              % (nlay, "".join(NAME_ALPHABET), total_strings, maxlen,
                 "".join(URL_ALPHABET), len(JOIN_BASES)),
        rule="(a) case = one load through one way; distinct by (way, "
             "argument, reference spelling, cwd).  (b) case = one function "
             "applied to one string (or base/string pair); every string is "
             "distinct by enumeration; distinct_nontrivial = distinct (a) "
             "cases + number of (b) function applications")
    res["distinct_nontrivial"] = len(col.distinct) + (col.evaluations - n_a)
    return res
