"""python -m standins.run Cnn --tier quick --seed 0 --out file.json"""
import argparse
import glob
import importlib
import json
import os
import sys
import time


def find_module(prop):
    here = os.path.dirname(__file__)
    hits = sorted(glob.glob(os.path.join(here, prop.lower() + "_*.py")))
    if not hits:
        return None
    return "standins." + os.path.basename(hits[0])[:-3]


def main(argv=None):
    ap = argparse.ArgumentParser()
    ap.add_argument("prop")
    ap.add_argument("--tier", default="quick")
    ap.add_argument("--seed", type=int, default=0)
    ap.add_argument("--out")
    a = ap.parse_args(argv)
    name = find_module(a.prop)
    if name is None:
        print("no stand-in for", a.prop)
        return 2
    from standins.common import use_repo
    use_repo()
    mod = importlib.import_module(name)
    t0 = time.time()
    res = mod.run(a.tier, a.seed)
    res.setdefault("wall_s", round(time.time() - t0, 2))
    res["property"] = a.prop
    res["tier"] = a.tier
    res["seed"] = a.seed
    txt = json.dumps(res, indent=1, default=repr, ensure_ascii=False)
    if a.out:
        with open(a.out, "w") as f:
            f.write(txt)
    else:
        print(txt)
    return 0


if __name__ == "__main__":
    sys.exit(main())
