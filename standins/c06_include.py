"""C06 stand-in: %include == textual inclusion of a self-contained fragment.

Relational (real code vs real code): for a text T (valid or invalid) and a
plan of 1..3 cuts of balanced runs of complete lines into separate files
(same directory / sub-directory / parent directory of the includer, nested
cuts allowed), ``ZConfig.loadConfig(schema, outer_path)`` must have the same
outcome (equal value tree, or rejection) as
``ZConfig.loadConfigFile(schema, StringIO(T))``.  Cuts that are NOT balanced
must be rejected (statement: a fragment that closes a section it did not open
or leaves one open is rejected).
"""
import io
import os
import posixpath
import random
import shutil
import tempfile

from standins.common import Collector, pmap, use_repo
from standins.refmodel import corpus_small as cs

PROPERTY = "C06"

MAIN = "a/b/c/main.conf"          # three parents available below the root


class Inc:
    """An include line whose target is fixed; the reference is rendered
    relative to the directory of the document that contains the line."""

    def __init__(self, target, indent="", style=0):
        self.target = target
        self.indent = indent
        self.style = style


class Doc:
    def __init__(self, relpath, lines):
        self.relpath = relpath
        self.lines = lines


def _cls(l):
    return "other" if isinstance(l, Inc) else cs.line_class(l)


def ranges(lines, balanced=True):
    """Balanced (or, for the negative check, unbalanced) ranges (i, j)."""
    cls = [_cls(l) for l in lines]
    n = len(cls)
    out = []
    for i in range(n):
        d = 0
        low = 0
        for j in range(i, n):
            if cls[j] == "open":
                d += 1
            elif cls[j] == "close":
                d -= 1
                low = min(low, d)
            ok = (d == 0 and low == 0)
            if balanced:
                if low < 0:
                    break
                if ok:
                    out.append((i, j + 1))
            elif not ok:
                out.append((i, j + 1))
    return out


def apply_cut(docs, di, i, j, placement, k, style):
    d = docs[di]
    ddir = posixpath.dirname(d.relpath)
    if placement == "same":
        ndir = ddir
    elif placement == "sub":
        ndir = posixpath.join(ddir, "sub") if ddir else "sub"
    else:
        if not ddir:
            return False
        ndir = posixpath.dirname(ddir)
    npath = posixpath.join(ndir, "f%d.conf" % k) if ndir else "f%d.conf" % k
    moved = d.lines[i:j]
    first = moved[0]
    indent = first.indent if isinstance(first, Inc) else \
        first[:len(first) - len(first.lstrip())]
    d.lines[i:j] = [Inc(npath, indent, style)]
    docs.append(Doc(npath, moved))
    return True


def render(doc, zz=False):
    ddir = posixpath.dirname(doc.relpath)
    out = []
    for l in doc.lines:
        if isinstance(l, Inc):
            ref = posixpath.relpath(l.target, ddir or ".")
            if l.style == 1 and not ref.startswith("."):
                ref = "./" + ref
            elif l.style == 2 and zz and ref.startswith("sub/"):
                ref = "$ZZ/" + ref[4:]
            elif l.style == 3:
                ref = ref + "  "
            out.append(l.indent + "%include " + ref)
        else:
            out.append(l)
    return "".join(x + "\n" for x in out)


def write_set(root, docs, zz):
    real = set()
    for d in docs:
        p = os.path.join(root, d.relpath)
        os.makedirs(os.path.dirname(p), exist_ok=True)
        with open(p, "w", encoding="utf-8") as f:
            f.write(render(d, zz))
        real.add(os.path.normpath(p))
    # decoys: the same relative reference resolved against the TOP resource's
    # directory must not be what is read.
    maindir = posixpath.dirname(MAIN)
    for d in docs:
        ddir = posixpath.dirname(d.relpath)
        if ddir == maindir:
            continue
        for l in d.lines:
            if isinstance(l, Inc):
                ref = posixpath.relpath(l.target, ddir or ".")
                p = os.path.normpath(os.path.join(root, maindir, ref))
                if p not in real and p.startswith(root):
                    os.makedirs(os.path.dirname(p), exist_ok=True)
                    with open(p, "w") as f:
                        f.write("decoy-resolved-against-top-url 1\n")
                    real.add(p)


def plan_key(docs):
    return tuple(sorted((d.relpath, render(d, True)) for d in docs))


def describe(docs, zz):
    return {d.relpath: render(d, zz) for d in docs}


# ---------------------------------------------------------------- texts

def mutate_invalid(lines, rng):
    """One line-level mutation that usually makes the text invalid."""
    lines = list(lines)
    if not lines:
        return ["nosuchkey 1"]
    op = rng.randrange(8)
    i = rng.randrange(len(lines))
    if op == 0:
        del lines[i]
    elif op == 1:
        lines.insert(i, lines[i])
    elif op == 2 and len(lines) > 1:
        j = rng.randrange(len(lines))
        lines[i], lines[j] = lines[j], lines[i]
    elif op == 3:
        lines.insert(i, rng.choice(
            ["<bogus>", "</bogus>", "<bogus/>", "%foo bar", "k $undefined_zz",
             "nosuchkey v", "<leaf", "%define N 8", "(x y", "k ${a"]))
    elif op == 4:
        parts = lines[i].split(None, 1)
        if parts and _cls(lines[i]) == "other":
            lines[i] = parts[0] + " " + rng.choice(
                ["zz zz", "-", "$nope", "99999999", ""])
    elif op == 5:
        # move a use in front of its definition
        idx = [k for k, l in enumerate(lines)
               if l.strip().startswith("%define")]
        if idx:
            k = rng.choice(idx)
            l = lines.pop(k)
            lines.append(l)
    elif op == 6:
        lines.append(lines[i])
    else:
        lines.insert(i, "%define Word other-value")
    return lines


DIRECTED = [
    # (schema, text) tiny texts: every plan of up to 2 cuts is enumerated
    ("flat", "%define a 5\ncount $a\nname x$a\n"),
    ("flat", "count $a\n%define a 5\n"),                       # use before def
    ("flat", "%define a 5\ncount 1\n%define a 6\n"),           # conflict
    ("flat", "%define a 5\n%define b ${a}0\ncount $b\n%define a 5\nitem $A\n"),
    ("sections", "<leaf main>\n%define q 3\nv $q\n</leaf>\ntitle t$q\n"
                 "<node>\n<leaf>\nv 1$q\n</leaf>\nlabel $q\n</node>\n"),
    ("nested3", "<a>\n<b>\n%define n 4\n<c one>\nx $n\n</c>\n<c two/>\n"
                "</b>\nak $n\n</a>\ntop $n\n"),               # c two: missing x
    ("nested3", "<a>\n<b>\n<c one>\nx 1\n</c>\n</b>\n</a>\n"),
    ("abstract", "<filestore>\npath /p\n</filestore>\n<pool>\n<memstore m>\n"
                 "</memstore>\n<filestore f>\n</filestore>\n</pool>\n"),
]


def enumerate_plans(lines, depth, rng=None, sample=None):
    """Yield lists of cuts (di, i, j, placement, style); exhaustive over
    ranges and placements up to ``depth`` cuts, or ``sample`` random plans."""
    if sample is None:
        def rec(docs, cuts, k):
            if cuts:
                yield list(cuts)
            if k > depth:
                return
            for di in range(len(docs)):
                for (i, j) in ranges(docs[di].lines):
                    for pl in ("same", "sub", "parent"):
                        nd = [Doc(d.relpath, list(d.lines)) for d in docs]
                        if apply_cut(nd, di, i, j, pl, k, 0):
                            yield from rec(nd, cuts + [(di, i, j, pl, 0)],
                                           k + 1)
        yield from rec([Doc(MAIN, list(lines))], [], 1)
    else:
        for _ in range(sample):
            docs = [Doc(MAIN, list(lines))]
            cuts = []
            ncuts = rng.choice([1, 2, 2, 3, 3])
            for k in range(1, ncuts + 1):
                di = rng.randrange(len(docs))
                rs = ranges(docs[di].lines)
                if not rs:
                    continue
                i, j = rng.choice(rs)
                pl = rng.choice(["same", "sub", "parent"])
                st = rng.choice([0, 0, 1, 2, 3])
                if apply_cut(docs, di, i, j, pl, k, st):
                    cuts.append((di, i, j, pl, st))
            if cuts:
                yield cuts


def build(lines, cuts):
    docs = [Doc(MAIN, list(lines))]
    for k, (di, i, j, pl, st) in enumerate(cuts, 1):
        apply_cut(docs, di, i, j, pl, k, st)
    return docs


# ---------------------------------------------------------------- worker

def _check(col, ZConfig, schema, root, n, sname, lines, cuts, inl, zz,
           unbalanced=False):
    docs = build(lines, cuts)
    sub = os.path.join(root, "p%d" % n)
    write_set(sub, docs, zz)
    try:
        got = cs.outcome(ZConfig.loadConfig, schema,
                         os.path.join(sub, MAIN))
    finally:
        shutil.rmtree(sub, ignore_errors=True)
    placements = "+".join(sorted({c[3] for c in cuts}))
    nested = any(isinstance(l, Inc) for d in docs[1:] for l in d.lines)
    key = (sname, hash(plan_key(docs)))
    sample = None
    if col.evaluations % 997 == 0:
        sample = {"schema": sname, "files": describe(docs, zz),
                  "outcome": cs.brief(got)}
    col.case(key, sample)
    inp = {"schema": sname, "files": describe(docs, zz)}
    if unbalanced:
        if got[0] == "ok":
            col.violation("C06:unbalanced-fragment-accepted",
                          "a fragment that is not balanced w.r.t. section "
                          "nesting was accepted", inp, "rejected", "accepted")
        return
    if cs.same_outcome(got, inl):
        return
    if got[0] == "ok" and inl[0] == "ok":
        sig = "C06:value-differs"
    elif got[0] == "ok":
        sig = "C06:include-accepted-inline-rejected"
    else:
        sig = "C06:include-rejected-inline-accepted:" + \
            type(got[1]).__name__
    col.violation(sig + (":nested" if nested else ""),
                  "outcome with %%include (placements %s) differs from the "
                  "inlined text" % placements, inp,
                  cs.brief(inl) if inl[0] != "ok" else ["ok", repr(inl[1])],
                  cs.brief(got).replace(sub, "<root>") if got[0] != "ok"
                  else ["ok", repr(got[1])])


def work(item):
    ZConfig = use_repo()
    kind, si, seed, budget = item
    col = Collector()
    root = tempfile.mkdtemp(prefix="c06_", dir=cs.fast_tmp())
    n = 0
    try:
        if kind == "directed":
            sname, text = DIRECTED[si]
            sch = cs.SCHEMA_BY_NAME[sname]
            schema = cs.load_schema(sch)
            lines = text.splitlines()
            inl = cs.load_text(schema, text)
            shard, nshards = seed
            for cuts in enumerate_plans(lines, 2):
                n += 1
                if n % nshards != shard:
                    continue
                _check(col, ZConfig, schema, root, n, sname, lines, cuts,
                       inl, False)
            rng = random.Random("c06d:%d:%d" % (si, shard))
            for cuts in enumerate_plans(lines, 3, rng, budget):
                n += 1
                _check(col, ZConfig, schema, root, n, sname, lines, cuts,
                       inl, False)
            return col.partial()
        sch = cs.SCHEMAS[si]
        schema = cs.load_schema(sch)
        rng = random.Random("c06:%s:%d:%d" % (kind, si, seed))
        text, lines_, _root = cs.gen_text(sch, seed)
        lines = [l.text for l in lines_]
        if kind == "invalid":
            for _ in range(rng.choice([1, 1, 2])):
                lines = mutate_invalid(lines, rng)
        zz = rng.random() < 0.3
        if zz:
            lines = ["%define ZZ sub"] + lines
        text = "".join(l + "\n" for l in lines)
        inl = cs.load_text(schema, text)
        if kind in ("valid", "invalid"):
            # every single balanced cut, every placement
            for (i, j) in ranges(lines):
                if zz and i == 0:
                    continue    # keep the definition of ZZ ahead of its use
                for pl in ("same", "sub", "parent"):
                    n += 1
                    _check(col, ZConfig, schema, root, n, sch.name, lines,
                           [(0, i, j, pl, 2 if zz else 0)], inl, zz)
            for cuts in enumerate_plans(lines, 3, rng, budget):
                if zz and any(c[0] == 0 and c[1] == 0 for c in cuts):
                    continue
                n += 1
                _check(col, ZConfig, schema, root, n, sch.name, lines, cuts,
                       inl, zz)
        elif kind == "unbalanced":
            # only meaningful when the inlined text itself is accepted
            if inl[0] == "ok":
                rs = ranges(lines, balanced=False)
                rng.shuffle(rs)
                for (i, j) in rs[:budget]:
                    if zz and i == 0:
                        continue
                    n += 1
                    _check(col, ZConfig, schema, root, n, sch.name, lines,
                           [(0, i, j, rng.choice(["same", "sub", "parent"]),
                             0)], inl, zz, unbalanced=True)
                # an unbalanced cut nested inside a balanced fragment
                for (i, j) in ranges(lines)[:budget]:
                    docs = build(lines, [(0, i, j, "sub", 0)])
                    rs2 = ranges(docs[1].lines, balanced=False)
                    if rs2:
                        a, b = rng.choice(rs2)
                        n += 1
                        _check(col, ZConfig, schema, root, n, sch.name, lines,
                               [(0, i, j, "sub", 0), (1, a, b, "parent", 0)],
                               inl, zz, unbalanced=True)
        return col.partial()
    finally:
        shutil.rmtree(root, ignore_errors=True)


REPEAT_SCHEMA = ('<schema><multikey name="k"/><sectiontype name="s"><multikey name="k"/>'
                 '<multisection type="s" name="*" attribute="ss"/></sectiontype>'
                 '<multisection type="s" name="*" attribute="ss"/></schema>')
# (files, main): the same resource included MORE THAN ONCE without any cycle - twice in a row, from
# two different sections, from two different includers (a diamond), again after an intermediate file
REPEATS = [
    ({"main.conf": ["%include f.conf", "%include f.conf"], "f.conf": ["k v"]}, "main.conf"),
    ({"main.conf": ["<s a>", "%include f.conf", "</s>", "<s b>", "%include f.conf", "</s>", "%include f.conf"],
      "f.conf": ["k v", "<s>", "k w", "</s>"]}, "main.conf"),
    ({"main.conf": ["%include a.conf", "%include b.conf"], "a.conf": ["k a", "%include c.conf"],
      "b.conf": ["%include c.conf", "k b"], "c.conf": ["k c"]}, "main.conf"),
    ({"main.conf": ["%include a.conf", "%include c.conf", "%include a.conf"], "a.conf": ["%include c.conf"],
      "c.conf": ["k c"]}, "main.conf"),
    ({"main.conf": ["%include d/a.conf", "%include d/../d/a.conf", "%include ./d/a.conf"],
      "d/a.conf": ["k a"]}, "main.conf"),
    # fragments that are NOT self-contained and that nothing repairs afterwards: a section left open at the
    # end of the included file (top level / inside a section / two levels down), a closer without opener
    ({"main.conf": ["k a", "%include f.conf"], "f.conf": ["<s x>", "k b"]}, "main.conf"),
    ({"main.conf": ["<s o>", "%include f.conf", "k c", "</s>"], "f.conf": ["<s x>", "k b"]}, "main.conf"),
    ({"main.conf": ["%include a.conf", "k z"], "a.conf": ["k a", "%include d/b.conf"], "d/b.conf": ["<s y>", "k b"]}, "main.conf"),
    ({"main.conf": ["<s o>", "%include f.conf"], "f.conf": ["k b", "</s>"]}, "main.conf"),
    ({"main.conf": ["<s o>", "%include f.conf", "</s>"], "f.conf": ["<s x>", "</s>", "</s>", "<s y>"]}, "main.conf"),
]


def _inline(files, name, base=""):
    out = []
    for l in files[name]:
        if l.startswith("%include "):
            ref = posixpath.normpath(posixpath.join(posixpath.dirname(name), l.split(None, 1)[1]))
            out.extend(_inline(files, ref))
        else:
            out.append(l)
    return out


def repeats(col):
    """Directed: a resource included several times (no cycle) = its text inlined several times."""
    ZConfig = use_repo()
    schema = cs.load_schema(REPEAT_SCHEMA)
    root = tempfile.mkdtemp(prefix="c06r-", dir=cs.fast_tmp())
    try:
        for n, (files, main) in enumerate(REPEATS):
            sub = os.path.join(root, "r%d" % n)
            for name, lines in files.items():
                path = os.path.join(sub, name)
                os.makedirs(os.path.dirname(path), exist_ok=True)
                with open(path, "w", encoding="utf-8") as f:
                    f.write("".join(l + "\n" for l in lines))
            text = "".join(l + "\n" for l in _inline(files, main))
            inl = cs.load_text(schema, text)
            if n >= 5:
                # the statement: a fragment that closes a section it did not open or leaves one open is
                # rejected - whatever the inlined text would do
                inl = ("rejected", ValueError("fragment not balanced"))
            got = cs.outcome(ZConfig.loadConfig, schema, os.path.join(sub, main))
            col.case(("repeat", n), {"files": files, "outcome": cs.brief(got)} if n == 0 else None)
            if not cs.same_outcome(got, inl):
                col.violation("C06:repeated-include-differs-from-inlining",
                              "a resource included more than once (without a cycle) does not behave like its "
                              "text written out at each place", {"files": files},
                              cs.brief(inl) if inl[0] != "ok" else ["ok", repr(inl[1])],
                              cs.brief(got).replace(sub, "<root>") if got[0] != "ok" else ["ok", repr(got[1])])
    finally:
        shutil.rmtree(root, ignore_errors=True)


def run(tier, seed):
    use_repo()
    quick = tier == "quick"
    nseeds = 12 if quick else 60
    budget = 100 if quick else 300
    items = []
    for si in range(len(cs.SCHEMAS)):
        for s in range(nseeds):
            items.append(("valid", si, seed * 1000 + s, budget))
            items.append(("invalid", si, seed * 1000 + s, budget))
            items.append(("unbalanced", si, seed * 1000 + s, 25))
    nsh = 16
    for di in range(len(DIRECTED)):
        for sh in range(nsh):
            items.append(("directed", di, (sh, nsh), 15 if quick else 150))
    col = Collector()
    repeats(col)
    for part in pmap(work, items, chunksize=1):
        col.merge(part)
    return col.result(
        bound="10 corpus schemas x %d generated valid texts and as many "
              "line-mutated (mostly invalid) texts: every single balanced "
              "cut x 3 placements (same dir / sub dir / parent dir) plus %d "
              "random plans of 1..3 cuts (nested allowed, include refs also "
              "written './x', '$ZZ/x', with trailing blanks); %d directed "
              "tiny texts about definition flow: all plans of <=2 cuts "
              "exhaustively + sampled 3-cut plans; unbalanced cuts (also "
              "nested) must be rejected; a decoy file sits wherever a "
              "nested reference would land if resolved against the top URL; "
              "%d directed file sets that include one resource several times without a cycle"
              % (nseeds, budget, len(DIRECTED), len(REPEATS)),
        rule="case = (text, file set); distinct = distinct (schema, set of "
             "written files incl. contents); non-trivial: every case loads "
             "at least one included resource")


if __name__ == "__main__":
    import json
    print(json.dumps(run("quick", 0), indent=1, default=repr)[:3000])
