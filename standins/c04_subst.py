"""C04: ZConfig.substitution.substitute / isname against the reference.

Bound: every string up to length N (quick 6, thorough 7) over
{'$','{','}','(',')','a','B','_','1','-'}; for each string with a '$' every
defined/undefined assignment of the names it references (mapping values and
environment values themselves contain '$' constructs), a decoy assignment
(every substring that is a name, in both spellings, bound to a distinct
value), a wrong-case-only assignment and an all-empty assignment; plus seeded
random Unicode strings up to length 200.
"""
import itertools
import os
import random

from standins.common import Collector, pmap, use_repo
from standins.refmodel import textmodel as T

PROPERTY = "C04"

ALPHA = ['$', '{', '}', '(', ')', 'a', 'B', '_', '1', '-']


# -------------------------------------------------------------------------
# observation

def _real(s, mapping):
    ZConfig = use_repo()
    from ZConfig.substitution import substitute
    try:
        r = substitute(s, mapping)
    except Exception as e:
        if type(e) is ZConfig.SubstitutionSyntaxError:
            return ("subst-syntax",)
        if type(e) is ZConfig.SubstitutionReplacementError:
            return ("replacement", e.name, e.source)
        return ("other", type(e).__name__)
    return ("ok", r, r is s)


def _ref(s, mapping, env):
    try:
        r = T.subst(s, mapping, env)
    except T.RefSubstSyntax:
        return ("subst-syntax",)
    except T.RefReplacement as e:
        return ("replacement", e.name, e.source)
    return ("ok", r, r is s)


def _compare(col, s, mapping, env, exp, obs):
    inp = {"s": s, "mapping": mapping, "env": env}
    if obs[0] == "other":
        col.violation("C04:unexpected-exception:" + obs[1],
                      "substitute raised a foreign exception", inp, exp, obs)
        return
    if exp[0] != obs[0]:
        if exp[0] == "subst-syntax" and obs[0] == "ok":
            sig = "C04:accepts-malformed"
        elif exp[0] == "ok":
            sig = "C04:rejects-wellformed:" + obs[0]
        elif obs[0] == "ok":
            sig = "C04:missing-name-not-reported"
        else:
            sig = "C04:wrong-error-class"
        col.violation(sig, "outcome kind differs", inp, exp, obs)
        return
    if exp[0] == "ok":
        if exp[1] != obs[1]:
            col.violation("C04:value-mismatch", "replacement text differs",
                          inp, exp, obs)
        elif "$" not in s and not obs[2]:
            col.violation("C04:no-dollar-not-returned-as-is",
                          "string without '$' is not returned as is", inp,
                          exp, obs)
    elif exp[0] == "replacement":
        if not isinstance(obs[1], str) or exp[1].lower() != obs[1].lower():
            col.violation("C04:replacement-error-name",
                          "replacement error carries another name", inp, exp,
                          obs)
        elif exp[2] != obs[2]:
            col.violation("C04:replacement-error-source",
                          "replacement error carries another source", inp,
                          exp, obs)


def _check_isname(col, s):
    from ZConfig.substitution import isname
    try:
        obs = isname(s)
    except Exception as e:
        obs = "raised " + type(e).__name__
    exp = T.isname(s)
    col.evaluations += 1
    if obs is not exp:
        col.violation("C04:isname", "isname differs", s, exp, obs)


class EnvGuard:
    """Sets exactly the given variables among `candidates` in os.environ."""

    def __init__(self, candidates):
        self.candidates = list(candidates)
        self.saved = {}

    def __enter__(self):
        for n in self.candidates:
            if n in os.environ:
                self.saved[n] = os.environ[n]
                del os.environ[n]
        return self

    def set(self, env):
        for n in self.candidates:
            if n in env:
                os.environ[n] = env[n]
            elif n in os.environ:
                del os.environ[n]

    def __exit__(self, *exc):
        for n in self.candidates:
            if n in os.environ:
                del os.environ[n]
        for n, v in self.saved.items():
            os.environ[n] = v


def _mval(name):
    return "<m:" + name + ">$" + name + "${" + name + "}$$$(" + name + ")$"


def _eval_(name):
    return "<e:" + name + ">$(" + name + ")$$${" + name + "}"


def _name_substrings(s):
    out = set()
    n = len(s)
    for i in range(n):
        if not T._name_start(s[i]):
            continue
        j = i + 1
        out.add(s[i:j])
        while j < n and T._name_char(s[j]):
            j += 1
            out.add(s[i:j])
    return out


def _configs(s):
    """(mapping, env) pairs for one string containing '$'."""
    items, _err = T.scan_refs(s)
    dnames = []
    enames = []
    for kind, v in items:
        if kind == "define" and v.lower() not in dnames:
            dnames.append(v.lower())
        if kind == "env" and v not in enames:
            enames.append(v)
    # the scan stops at a malformed construct; also take names after it so
    # that a splitter that wrongly continues finds them defined
    subs = _name_substrings(s)
    out = []
    refs = [("d", n) for n in dnames] + [("e", n) for n in enames]
    for mask in range(1 << len(refs)):
        m, e = {}, {}
        for bit, (k, n) in enumerate(refs):
            if mask >> bit & 1:
                if k == "d":
                    m[n] = _mval(n)
                else:
                    e[n] = _eval_(n)
        out.append((m, e))
    # decoys: every substring that is a name, both spellings, distinct values
    m, e = {}, {}
    for n in subs:
        for sp in (n, n.lower(), n.swapcase(), n.upper()):
            m[sp] = "<dm:" + sp + ">$" + sp
            e[sp] = "<de:" + sp + ">$(" + sp + ")"
    out.append((m, e))
    # wrong-case only
    m, e = {}, {}
    for n in subs:
        if n != n.lower():
            m[n] = "<wm:" + n + ">"
        if n != n.swapcase():
            e[n.swapcase()] = "<we:" + n + ">"
    if m or e:
        out.append((m, e))
    # empty values are values
    if refs:
        out.append(({n: "" for n in dnames}, {n: "" for n in enames}))
    return out, subs


def _one_string(col, s):
    _check_isname(col, s)
    if "$" not in s:
        col.evaluations += 1
        _compare(col, s, {}, {}, _ref(s, {}, {}), _real(s, {}))
        return 0
    configs, subs = _configs(s)
    cands = set()
    for n in subs:
        cands.update((n, n.lower(), n.swapcase(), n.upper()))
    with EnvGuard(sorted(cands)) as g:
        for m, e in configs:
            g.set(e)
            col.evaluations += 1
            _compare(col, s, m, e, _ref(s, m, e), _real(s, m))
    if len(col.samples) < 2 and len(configs) > 4 and s[:3] == "$a$":
        m, e = configs[1]
        col.samples.append({"s": s, "mapping": m, "env": e,
                            "outcome": list(_ref(s, m, e))})
    return 1


def _enum_chunk(arg):
    prefix, maxlen = arg
    use_repo()
    col = Collector()
    nontriv = 0
    if prefix is None:
        # strings shorter than the chunk prefix length
        for n in range(0, 2):
            for t in itertools.product(ALPHA, repeat=n):
                nontriv += _one_string(col, "".join(t))
    else:
        for n in range(0, maxlen - len(prefix) + 1):
            for t in itertools.product(ALPHA, repeat=n):
                nontriv += _one_string(col, prefix + "".join(t))
    p = col.partial()
    p["nontriv"] = nontriv
    return p


# -------------------------------------------------------------------------
# random Unicode strings

_POOLS = [
    "abcxyzABCXYZ_0189-./: ",
    "éßÅİıKſ",           # é ß Å İ ı K ſ
    "ΑΣςσАя",                   # Greek, Cyrillic
    "ａＡ１＿＄｛｝（）",  # fullwidth a A 1 _ $ { } ( )
    "١१²Ⅰ",                               # digits, numerics
    " \t\r\x0b\x0c\x1c\x85\xa0 　",
    "\U0001d44e\U0001f600\U00010400",                         # astral
    "{}()",
]


def _rand_name(rnd):
    first = rnd.choice("abcxyzABCXYZ_")
    return first + "".join(rnd.choice("abcXYZ_019")
                           for _ in range(rnd.randrange(0, 6)))


def _rand_text(rnd, n):
    pool = rnd.choice(_POOLS) + rnd.choice(_POOLS)
    return "".join(rnd.choice(pool) for _ in range(n))


def _rand_case(rnd, names, envnames, maxlen=200):
    parts = []
    total = 0
    target = rnd.randrange(1, maxlen + 1)
    bad = rnd.random() < 0.25
    while total < target:
        r = rnd.random()
        if r < 0.35:
            p = _rand_text(rnd, rnd.randrange(1, 12))
        elif r < 0.45:
            p = "$$"
        elif r < 0.60:
            p = "$" + rnd.choice(names)
            if rnd.random() < 0.5:
                # what follows a name immediately is not part of it
                p += rnd.choice(["é", "\u212a", "ａ", "١", "-", "{",
                                 "}", "$$", " ", "("])
        elif r < 0.75:
            p = "${" + rnd.choice(names) + "}"
        elif r < 0.90:
            p = "$(" + rnd.choice(envnames) + ")"
        elif bad:
            p = rnd.choice(["$", "${", "$(", "$-", "$é", "${é}",
                            "$ａ", "$1", "${1a}", "${a", "$(a", "${a-}",
                            "$(a b)", "${}", "$()", "$ ", "${a }", "${ a}",
                            "$K", "$١"])
        else:
            p = ""
        parts.append(p)
        total += len(p)
    s = "".join(parts)[:maxlen]
    # cutting may leave a trailing construct broken: that is a case too
    mapping = {}
    for n in names:
        r = rnd.random()
        if r < 0.7:
            mapping[n.lower()] = rnd.choice(
                ["", "$" + n, "${zz}", "$$", _rand_text(rnd, 5), "$(HOME)"])
        elif r < 0.8:
            mapping[n] = "<as-written:" + n + ">"
    env = {}
    for n in envnames:
        if rnd.random() < 0.6:
            env[n] = rnd.choice(["", "$(" + n + ")", "$x",
                                 _rand_text(rnd, 4)])
    return s, mapping, env


def _rand_chunk(arg):
    seed, block, count = arg
    use_repo()
    rnd = random.Random(seed * 1000003 + block)
    col = Collector()
    nontriv = 0
    tag = "ZC04V%d_%d_" % (seed, block)
    seen = set()
    for _ in range(count):
        names = [_rand_name(rnd) for _ in range(rnd.randrange(1, 5))]
        envnames = [tag + str(i) for i in range(3)]
        envnames.append(envnames[0].lower())      # case matters here
        s, mapping, env = _rand_case(rnd, names, envnames)
        with EnvGuard(envnames) as g:
            g.set(env)
            col.evaluations += 1
            _compare(col, s, mapping, env, _ref(s, mapping, env),
                     _real(s, mapping))
        _check_isname(col, s[:rnd.randrange(0, 9)])
        if "$" in s and s not in seen:
            seen.add(s)
            nontriv += 1
        if len(col.samples) < 1 and len(s) < 60 and "$(" in s:
            col.samples.append({"s": s, "mapping": mapping, "env": env,
                                "outcome": list(_ref(s, mapping, env))})
    p = col.partial()
    p["nontriv"] = nontriv
    return p


ISNAME_PROBES = ["", "a", "_", "1", "a1", "1a", "a-", "-a", "a b", "a\n",
                 "\na", "é", "aé", "K", "ａ", "a١",
                 "A_9", "__", "a$", "$a", "a" * 300, "a" * 300 + "-"]


def run(tier, seed):
    use_repo()
    maxlen = 6 if tier == "quick" else 7
    nrand = 40000 if tier == "quick" else 600000
    col = Collector()
    nontriv = 0
    jobs = [(None, maxlen)] + [(a + b, maxlen) for a in ALPHA for b in ALPHA]
    if tier != "quick":
        jobs = [(None, maxlen)] + [(a + b + c, maxlen) for a in ALPHA
                                   for b in ALPHA for c in ALPHA] \
            + [(a + b, 2) for a in ALPHA for b in ALPHA]
    for p in pmap(_enum_chunk, jobs, chunksize=1):
        col.merge(p)
        nontriv += p["nontriv"]
    per = 2000
    rjobs = [(seed, b, per) for b in range(nrand // per)]
    for p in pmap(_rand_chunk, rjobs, chunksize=1):
        col.merge(p)
        nontriv += p["nontriv"]
    for s in ISNAME_PROBES:
        _check_isname(col, s)
    res = col.result(
        bound="all strings of length <= %d over %s with every "
              "defined/undefined assignment of the referenced mapping and "
              "environment names (+ decoy, wrong-case-only and empty-value "
              "assignments); %d seeded random Unicode strings of length "
              "<= 200" % (maxlen, "".join(ALPHA), nrand),
        rule="exhaustive product of the alphabet; a case is one (string, "
             "mapping, environment) triple; non-trivial = distinct strings "
             "containing '$' (strings without '$' only exercise the "
             "returned-as-is clause and isname)")
    res["distinct_nontrivial"] = nontriv
    return res
