"""C15 stand-in: the result of a load does not depend on the layout.

Relational (real code vs real code): a text and the same text after a
composition of up to 5 of the rewrites listed in the statement, applied at
random positions, must have the same outcome (equal value tree, or both
rejected).  Texts: the small corpus (valid texts and tree-mutated, mostly
invalid, texts), hand-written texts for the shipped logger component and for
the basic mapping component.
"""
import io
import random

from standins.common import Collector, pmap, use_repo
from standins.refmodel import corpus_small as cs

PROPERTY = "C15"

LOGGER_SCHEMA = """\
<schema>
  <import package="ZConfig.components.logger"/>
  <section type="eventlog" name="*" attribute="eventlog"/>
  <multisection type="logger" name="*" attribute="loggers"/>
</schema>
"""

LOGGER_TEXTS = ["""\
%define INSTANCE /var/tmp/inst
%define lvl info
<eventlog>
  level $lvl
  <logfile>
    path $INSTANCE/event.log
    level debug
    max-size 5mb
    old-files 3
    format %(asctime)s %(message)s
  </logfile>
  <syslog>
    facility local3
    address localhost:514
  </syslog>
</eventlog>
# the access log
<logger access>
  name app.access
  level WARN
  propagate false
  <logfile>
    path STDOUT
    dateformat %Y
  </logfile>
  <email-notifier>
    from a@example.com
    to b@example.com
    to c@example.com
    subject Oops
    smtp-server mail.example.com:25
  </email-notifier>
  <http-logger>
    url http://example.com/log
    method POST
  </http-logger>
</logger>

<logger>
  name app.empty
</logger>
""", """\
%define dir /tmp/
<eventlog/>
<logger one>
  level 25
  <logfile main>
    path ${dir}x.log
    when D
    old-files 2
    interval 2
    delay on
    encoding utf-8
    arbitrary-fields true
    style safe-template
    format $${asctime} $${message}
  </logfile>
  <syslog>
  </syslog>
  <win32-eventlog>
    appname App
  </win32-eventlog>
</logger>
"""]

MAPPING_SCHEMA = """\
<schema>
  <import package="ZConfig.components.basic" file="mapping.xml" />
  <sectiontype name="dict" extends="ZConfig.basic.mapping" />
  <sectiontype name="intkeys" extends="ZConfig.basic.mapping"
               keytype="integer" />
  <section name="*" type="dict" attribute="simple_dict" />
  <section name="*" type="intkeys" attribute="int_dict" />
</schema>
"""

MAPPING_TEXTS = ["""\
%define v two
<dict foo>
  key-one value-one
  key-two value-$v
  Key.Three v3
  # comment
  k4
</dict>
<intkeys>
  1 foo
  2 bar

  42 question?
</intkeys>
""", """\
<dict/>
<intkeys bar>
  7 seven
</intkeys>
"""]


# ------------------------------------------------------------------ rewrites

def recase(s, rng):
    opts = [x for x in (s.upper(), s.lower(), s.swapcase(), s.capitalize(),
                        s.title()) if x != s]
    return rng.choice(opts) if opts else s


def ref_spans(value):
    """(start, end) of every name referenced as $name / ${name}."""
    out = []
    i = 0
    n = len(value)
    while i < n:
        if value[i] != "$":
            i += 1
            continue
        if value[i + 1:i + 2] == "$":
            i += 2
            continue
        j = i + 1
        if value[j:j + 1] == "{":
            j += 1
        k = j
        while k < n and (value[k].isalnum() and value[k].isascii()
                         or value[k] == "_"):
            k += 1
        if k > j:
            out.append((j, k))
        i = max(k, i + 1)
    return out


def all_nodes(root):
    out = []

    def walk(c):
        for n in c.children:
            out.append((n, c))
            if n.kind == "section":
                walk(n)
    walk(root)
    return out


def containers(root):
    return [root] + [n for n, _ in all_nodes(root)
                     if n.kind == "section" and not n.empty]


def defs_uses(n):
    d, u = set(), set()
    if n.kind == "define":
        d.add(n.name.lower())
    u.update(x.lower() for x in n.uses)
    for c in n.children:
        d2, u2 = defs_uses(c)
        d |= d2
        u |= u2
    return d, u


WS = ["", " ", "  ", "\t", "      ", " \t "]

REWRITES = ["indent", "trail", "blank", "comment", "type-case", "name-case",
            "define-case", "ref-case", "key-case", "empty-form", "reorder"]


def apply_rewrite(root, kind, rng):
    """Apply one rewrite in place; return a description or None."""
    nodes = all_nodes(root)
    if kind == "indent":
        if not nodes:
            return None
        n, _ = rng.choice(nodes)
        if n.kind == "blank":
            n.text = rng.choice(WS)
        elif n.kind == "section" and not n.empty and rng.random() < 0.5:
            n.indent2 = rng.choice(WS)
        else:
            n.indent = rng.choice(WS)
        return kind
    if kind == "trail":
        c = [n for n, _ in nodes if n.kind in ("key", "define", "section",
                                               "comment")]
        if not c:
            return None
        rng.choice(c).trail = rng.choice(WS[1:])
        return kind
    if kind in ("blank", "comment"):
        c = rng.choice(containers(root))
        new = cs.Node("blank", text=rng.choice(WS)) if kind == "blank" else \
            cs.Node("comment", text=rng.choice(
                ["#", "# note", "#<x>", "# %define a b", "#k v $nope"]))
        c.children.insert(rng.randrange(len(c.children) + 1), new)
        return kind
    if kind == "type-case":
        c = [n for n, _ in nodes if n.kind == "section"]
        if not c:
            return None
        n = rng.choice(c)
        if n.empty or rng.random() < 0.6:
            n.type = recase(n.type, rng)
        else:
            n.close_type = recase(getattr(n, "close_type", None) or n.type,
                                  rng)
        return kind
    if kind == "name-case":
        c = [n for n, _ in nodes if n.kind == "section" and n.name]
        if not c:
            return None
        n = rng.choice(c)
        n.name = recase(n.name, rng)
        return kind
    if kind == "define-case":
        c = [n for n, _ in nodes if n.kind == "define"]
        if not c:
            return None
        n = rng.choice(c)
        n.name = recase(n.name, rng)
        return kind
    if kind == "ref-case":
        c = [n for n, _ in nodes if n.kind in ("key", "define")
             and ref_spans(n.value)]
        if not c:
            return None
        n = rng.choice(c)
        a, b = rng.choice(ref_spans(n.value))
        n.value = n.value[:a] + recase(n.value[a:b], rng) + n.value[b:]
        return kind
    if kind == "key-case":
        c = [n for n, p in nodes if n.kind == "key" and p.ci_keys]
        if not c:
            return None
        n = rng.choice(c)
        n.key = recase(n.key, rng)
        return kind
    if kind == "empty-form":
        c = [n for n, _ in nodes if n.kind == "section" and not n.children]
        if not c:
            return None
        n = rng.choice(c)
        n.empty = not n.empty
        return kind
    if kind == "reorder":
        cands = []
        for c in [root] + [n for n, _ in nodes if n.kind == "section"]:
            ch = c.children
            for i in range(len(ch) - 1):
                a, b = ch[i], ch[i + 1]
                kinds = {a.kind, b.kind}
                if "raw" in kinds:
                    continue
                if not (kinds & {"key", "comment", "blank"}):
                    continue
                if a.kind == "key" and b.kind == "key":
                    ka, kb = a.key, b.key
                    if c.ci_keys:
                        ka, kb = ka.lower(), kb.lower()
                    if ka == kb:
                        continue
                da, ua = defs_uses(a)
                db, ub = defs_uses(b)
                if da & ub or db & ua or da & db:
                    continue
                cands.append((c, i))
        if not cands:
            return None
        c, i = rng.choice(cands)
        c.children[i], c.children[i + 1] = c.children[i + 1], c.children[i]
        return kind
    raise AssertionError(kind)


# ------------------------------------------------------------------ invalid trees

def damage(root, sch, rng):
    """One tree-level mutation that often makes the text invalid."""
    nodes = all_nodes(root)
    if not nodes:
        root.children.append(cs.Node("key", key="nosuchkey", value="1",
                                     item=None))
        return "add-unknown-key"
    op = rng.randrange(7)
    n, p = rng.choice(nodes)
    if op == 0:
        p.children.remove(n)
        return "remove-" + n.kind
    if op == 1:
        i = p.children.index(n)
        p.children.insert(rng.randrange(i, len(p.children)) + 1, n.copy())
        return "duplicate-" + n.kind
    if op == 2:
        keys = [x for x, _ in nodes if x.kind == "key"]
        if keys:
            k = rng.choice(keys)
            k.value = rng.choice(["zz zz", "-1x", "$nope_q", "maybe", ""])
            k.uses = ("nope_q",) if "nope_q" in k.value else ()
            return "bad-value"
    if op == 3:
        c = rng.choice(containers(root))
        c.children.insert(rng.randrange(len(c.children) + 1),
                          cs.Node("key", key="NoSuchKey", value="v",
                                  item=None))
        return "add-unknown-key"
    if op == 4:
        secs = [x for x, _ in nodes if x.kind == "section"]
        if secs:
            s = rng.choice(secs)
            s.type = rng.choice(["nosuchtype", s.type + "x"])
            return "unknown-type"
    if op == 5:
        secs = [x for x, _ in nodes if x.kind == "section"]
        if secs:
            s = rng.choice(secs)
            s.name = rng.choice([None, "zq", "main", "primary"])
            return "rename-section"
    c = rng.choice(containers(root))
    c.children.insert(rng.randrange(len(c.children) + 1),
                      cs.Node("define", name=rng.choice(["Word", "N", "q9"]),
                              value="clash"))
    return "add-define"


# ------------------------------------------------------------------ worker

def _load(ZConfig, schema, root):
    text = cs.tree_text(root)
    return cs.load_text(schema, text), text


def _how(o0, o1):
    if o0[0] == "ok" and o1[0] == "ok":
        return "value-differs"
    if o0[0] == "ok":
        return "rejected-after-rewrite:" + type(o1[1]).__name__
    return "accepted-after-rewrite"


def _show(o):
    return cs.brief(o) if o[0] != "ok" else ["ok", repr(o[1])]


def check_tree(col, ZConfig, schema, sname, base, rng, ncomp, tag):
    o0, t0 = _load(ZConfig, schema, base)
    for _ in range(ncomp):
        st = rng.getstate()
        k = rng.choice([1, 2, 3, 4, 5])
        tree = base.copy()
        steps = []
        for _ in range(k):
            r = apply_rewrite(tree, rng.choice(REWRITES), rng)
            if r:
                steps.append(r)
        if not steps:
            continue
        o1, t1 = _load(ZConfig, schema, tree)
        col.case(hash((sname, t0, t1)),
                 {"schema": sname, "kind": tag, "rewrites": steps,
                  "original": t0, "rewritten": t1,
                  "outcome": cs.brief(o0)}
                 if col.evaluations % 2003 == 0 or not col.samples
                 else None)
        if t1 == t0 or cs.same_outcome(o0, o1):
            continue
        # localise: replay the same composition step by step and report the
        # first single rewrite that changes the outcome
        end = rng.getstate()
        rng.setstate(st)
        k = rng.choice([1, 2, 3, 4, 5])
        tree = base.copy()
        prev_t, culprit, on, tn = t0, "composition", o1, t1
        for _ in range(k):
            r = apply_rewrite(tree, rng.choice(REWRITES), rng)
            if not r:
                continue
            o, t = _load(ZConfig, schema, tree)
            if not cs.same_outcome(o0, o):
                culprit, on, tn = r, o, t
                break
            prev_t = t
        rng.setstate(end)
        col.violation("C15:%s:%s" % (culprit, _how(o0, on)),
                      "outcome changed under the layout rewrite %r (last "
                      "step of a composition)" % culprit,
                      {"schema": sname, "original": prev_t, "rewritten": tn},
                      _show(o0), _show(on))


def single_rewrites(col, ZConfig, schema, sname, base, rng, tag, reps):
    """Every rewrite kind alone (gives single-cause signatures)."""
    o0, t0 = _load(ZConfig, schema, base)
    for kind in REWRITES:
        for _ in range(reps):
            tree = base.copy()
            if not apply_rewrite(tree, kind, rng):
                break
            o1, t1 = _load(ZConfig, schema, tree)
            col.case(hash((sname, t0, t1)), None)
            if t1 == t0 or cs.same_outcome(o0, o1):
                continue
            if o0[0] == "ok" and o1[0] == "ok":
                how = "value-differs"
            elif o0[0] == "ok":
                how = "rejected-after-rewrite:" + type(o1[1]).__name__
            else:
                how = "accepted-after-rewrite"
            col.violation("C15:%s:%s" % (kind, how),
                          "outcome changed under the single rewrite " + kind,
                          {"schema": sname, "original": t0, "rewritten": t1},
                          cs.brief(o0) if o0[0] != "ok"
                          else ["ok", repr(o0[1])],
                          cs.brief(o1) if o1[0] != "ok"
                          else ["ok", repr(o1[1])])


def work(item):
    ZConfig = use_repo()
    kind, idx, seed, ncomp = item
    col = Collector()
    rng = random.Random("c15:%s:%s:%s" % (kind, idx, seed))
    if kind == "corpus":
        sch = cs.SCHEMAS[idx]
        schema = cs.load_schema(sch)
        base = cs.gen_tree(sch, seed)
        bases = [("valid", base)]
        for k in range(2):
            t = base.copy()
            what = damage(t, sch, rng)
            if k == 1:
                what += "+" + damage(t, sch, rng)
            bases.append(("damaged:" + what, t))
        sname = sch.name
    else:
        if kind == "logger":
            schema = cs.load_schema(LOGGER_SCHEMA)
            text = LOGGER_TEXTS[idx]
            ci = lambda t: True                       # noqa: E731
        else:
            schema = cs.load_schema(MAPPING_SCHEMA)
            text = MAPPING_TEXTS[idx]
            ci = lambda t: t != "intkeys"             # noqa: E731
        sname = kind
        base = cs.parse_tree(text, ci)
        # (accepted on the unchanged tree; if a tree under test rejects it the
        # relation below is still meaningful, so no assertion here)
        bases = [("valid", base)]
        for k in range(3):
            t = base.copy()
            what = damage(t, None, rng)
            bases.append(("damaged:" + what, t))
    for tag, b in bases:
        single_rewrites(col, ZConfig, schema, sname, b, rng, tag, 2)
        check_tree(col, ZConfig, schema, sname, b, rng, ncomp, tag)
    return col.partial()


def run(tier, seed):
    use_repo()
    quick = tier == "quick"
    nseeds = 20 if quick else 80
    ncomp = 100 if quick else 200
    items = []
    for si in range(len(cs.SCHEMAS)):
        for s in range(nseeds):
            items.append(("corpus", si, seed * 1000 + s, ncomp))
    for s in range(8 if quick else 40):
        for i in range(len(LOGGER_TEXTS)):
            items.append(("logger", i, seed * 1000 + s, ncomp))
        for i in range(len(MAPPING_TEXTS)):
            items.append(("mapping", i, seed * 1000 + s, ncomp))
    col = Collector()
    for part in pmap(work, items, chunksize=1):
        col.merge(part)
    return col.result(
        bound="10 corpus schemas x %d generated valid texts, each also with "
              "1 and 2 tree-level damages (mostly rejected texts); 2 texts "
              "for the shipped logger component and 2 for the basic mapping "
              "component (+3 damaged variants each, several seeds); for every "
              "base text each of the %d rewrites alone (2 positions) and %d "
              "random compositions of 1..5 rewrites at random positions "
              "(indentation, trailing blanks, blank / comment lines, case of "
              "section types (opener and closer separately), section names, "
              "defined names, references, keys under basic-key, '<t/>' <-> "
              "'<t>''</t>', adjacent swaps of lines of different keys / "
              "keys with sections / keys with definitions they do not use)"
              % (nseeds, len(REWRITES), ncomp),
        rule="case = (original text, rewritten text) with rewritten != "
             "original counted as distinct by text pair; trivial cases "
             "(rewrite not applicable) are skipped, not counted")
