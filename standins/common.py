"""Shared helpers for the bounded stand-ins."""
import os
import sys
import time
import multiprocessing as mp


def repo_root():
    return os.environ.get("VERIF_REPO", "/repo")


def use_repo():
    """Put the tree under test first on sys.path and return the ZConfig package."""
    src = os.path.join(repo_root(), "src")
    if sys.path[0] != src:
        sys.path.insert(0, src)
    for name in list(sys.modules):
        if name == "ZConfig" or name.startswith("ZConfig."):
            mod = sys.modules[name]
            f = getattr(mod, "__file__", "") or ""
            if not f.startswith(src):
                del sys.modules[name]
    import ZConfig
    assert ZConfig.__file__.startswith(src), (ZConfig.__file__, src)
    return ZConfig


def _init():
    use_repo()


def pmap(fn, items, procs=None, chunksize=None):
    """Ordered parallel map over picklable items with a fork pool."""
    items = list(items)
    if not items:
        return []
    procs = procs or min(16, os.cpu_count() or 1)
    if procs <= 1 or len(items) < 4:
        return [fn(x) for x in items]
    if chunksize is None:
        chunksize = max(1, len(items) // (procs * 8))
    ctx = mp.get_context("fork")
    with ctx.Pool(procs, initializer=_init) as pool:
        return pool.map(fn, items, chunksize)


class Collector:
    """Collects violations keyed by signature, keeping the smallest input."""

    def __init__(self):
        self.by_sig = {}
        self.evaluations = 0
        self.distinct = set()
        self.samples = []
        self.t0 = time.time()

    def case(self, key=None, sample=None):
        self.evaluations += 1
        if key is not None:
            self.distinct.add(key)
        if sample is not None and len(self.samples) < 5:
            self.samples.append(sample)

    def violation(self, sig, what, input, expected, observed):
        size = len(repr(input))
        cur = self.by_sig.get(sig)
        if cur is None:
            self.by_sig[sig] = {"sig": sig, "what": what, "input": input,
                                "expected": expected, "observed": observed,
                                "count": 1, "_size": size}
        else:
            cur["count"] += 1
            if size < cur["_size"]:
                cur.update(what=what, input=input, expected=expected,
                           observed=observed, _size=size)

    def merge(self, other_dict):
        self.evaluations += other_dict.get("evaluations", 0)
        self.distinct.update(other_dict.get("distinct", ()))
        for s in other_dict.get("samples", ()):
            if len(self.samples) < 5:
                self.samples.append(s)
        for v in other_dict.get("violations", ()):
            for _ in range(1):
                self.violation(v["sig"], v["what"], v["input"], v["expected"],
                               v["observed"])
            self.by_sig[v["sig"]]["count"] += v.get("count", 1) - 1

    def partial(self):
        """Picklable summary for returning from a worker."""
        return {"evaluations": self.evaluations,
                "distinct": list(self.distinct),
                "samples": self.samples,
                "violations": [{k: v for k, v in d.items() if k != "_size"}
                               for d in self.by_sig.values()]}

    def result(self, bound, rule):
        return {"bound": bound, "rule": rule,
                "evaluations": self.evaluations,
                "distinct_nontrivial": len(self.distinct),
                "samples": self.samples,
                "violations": [{k: v for k, v in d.items() if k != "_size"}
                               for d in self.by_sig.values()],
                "wall_s": round(time.time() - self.t0, 2)}
