"""C10 stand-in: schema documents are accepted exactly when they obey the
static rules of the schema language.

A seeded generator renders rule-satisfying schema documents of the C01 family
(nesting depth <= 3; key / multikey / '+' key / '+' multikey with and without
defaults and 'required'; section and multisection slots named fixed / '*' /
'+'; abstract types with 0..3 implementers; derived types; key types basic-key
/ identifier / ipaddr-or-hostname).  Every such document must be accepted by
``ZConfig.loadSchemaFile``; every document obtained by one rule-violating edit
(at every applicable position), and sampled pairs of such edits, must raise
``ZConfig.SchemaError`` at schema load time.  The element nesting table is
taken from docs/schema.dtd.  Each document is additionally checked in a
"componentised" form (all type definitions moved to the component.xml of a
temporary package that the schema imports).
"""
import io
import os
import random
import re
import shutil
import sys
import tempfile

from standins.common import Collector, pmap, repo_root, use_repo
from standins.refmodel import datatypes_ref as DR

PROPERTY = "C10"

# --------------------------------------------------------------------- tree


class Node:
    __slots__ = ("tag", "attrs", "kids", "text", "id", "meta")
    _next = [0]

    def __init__(self, tag, attrs=None, kids=None, text=None, meta=None):
        self.tag = tag
        self.attrs = dict(attrs or {})
        self.kids = list(kids or [])
        self.text = text
        Node._next[0] += 1
        self.id = Node._next[0]
        self.meta = meta or {}

    def copy(self):
        n = Node.__new__(Node)
        n.tag, n.attrs, n.text = self.tag, dict(self.attrs), self.text
        n.id, n.meta = self.id, self.meta
        n.kids = [k.copy() for k in self.kids]
        return n

    def walk(self, parent=None):
        yield self, parent
        for k in self.kids:
            yield from k.walk(self)

    def find(self, id_):
        for n, p in self.walk():
            if n.id == id_:
                return n, p
        raise KeyError(id_)


def esc(s):
    return (s.replace("&", "&amp;").replace("<", "&lt;")
            .replace(">", "&gt;").replace('"', "&quot;"))


def render(node, indent=0):
    pad = "  " * indent
    attrs = "".join(' %s="%s"' % (k, esc(v)) for k, v in node.attrs.items())
    if not node.kids and node.text is None:
        return "%s<%s%s/>\n" % (pad, node.tag, attrs)
    out = ["%s<%s%s>" % (pad, node.tag, attrs)]
    if node.text is not None:
        out.append(esc(node.text))
    if node.kids:
        out.append("\n")
        for k in node.kids:
            out.append(render(k, indent + 1))
        out.append(pad)
    out.append("</%s>\n" % node.tag)
    return "".join(out)


# ---------------------------------------------------------------------- DTD

ALL_TAGS = ["schema", "component", "import", "description", "metadefault",
            "example", "sectiontype", "abstracttype", "default", "key",
            "multikey", "section", "multisection"]
PCDATA_TAGS = ("description", "metadefault", "example", "default")


def load_dtd():
    """{element: ordered list of allowed child elements} from schema.dtd."""
    for root in (repo_root(), "/repo"):      # (a scratch copy that holds only src/ uses the repository's DTD)
        for rel in ("docs/schema.dtd", "src/ZConfig/doc/schema.dtd",
                    "doc/schema.dtd"):
            path = os.path.join(root, rel)
            if os.path.exists(path):
                break
        else:
            continue
        break
    else:
        raise RuntimeError("schema.dtd not found")
    with open(path) as f:
        text = f.read()
    text = re.sub(r"<!--.*?-->", "", text, flags=re.S)
    model = {}
    for m in re.finditer(r"<!ELEMENT\s+(\w+)\s+([^>]*)>", text):
        names = [n for n in re.findall(r"[A-Za-z]+", m.group(2))
                 if n not in ("PCDATA", "EMPTY")]
        seen = []
        for n in names:
            if n not in seen:
                seen.append(n)
        model[m.group(1)] = seen
    return model


# ----------------------------------------------------------- key type model

KEYTYPES = ("basic-key", "identifier", "ipaddr-or-hostname")
VALUE_TYPES = (None, None, "integer", "boolean", "string", "float",
               "port-number", "identifier", "byte-size", "string-list")


def fold(keytype, name):
    """Normal form of an (already valid) key under a key type."""
    return name if keytype == "identifier" else name.lower()


def clash_variant(keytype, name):
    """A different spelling with the same normal form, else the same."""
    if keytype == "identifier":
        return name
    return name.swapcase()


def fresh_name(rnd, keytype, i):
    """(name, needs_explicit_attribute)."""
    if keytype == "basic-key":
        forms = [("k%d", False), ("Key-%d", False), ("k_%d", False),
                 ("k%d.x", True), ("K%dz", False)]
    elif keytype == "identifier":
        forms = [("k%d", False), ("Key_%d", False), ("_k%d", True),
                 ("camelK%d", False)]
    else:
        forms = [("host-%d", False), ("h%d.Example.com", True),
                 ("10.0.0.%d", True), ("_h%d", True), ("H%d", False)]
    f, needs = rnd.choice(forms)
    return f % i, needs


def implicit_attr(name):
    return name.lower().replace("-", "_")


# ----------------------------------------------------------------- generator

class Ctx:
    """Book-keeping of one container (schema or section type)."""

    def __init__(self, keytype, base=None):
        self.keytype = keytype
        self.names = []          # (spelling, inherited?, declaring key type)
        self.attrs = []          # (attribute, inherited?)
        self.has_wild = False
        self.wild_default_keys = []
        self.n = 0
        if base is not None:
            self.names = [(n, True, kt) for n, _, kt in base.names]
            self.attrs = [(a, True) for a, _ in base.attrs]
            self.has_wild = base.has_wild
            self.n = base.n + 50


class Gen:
    def __init__(self, rnd):
        self.rnd = rnd
        self.types = []      # dicts: name node abstract ctx chain depth
        self.uid = 0

    def attr_name(self):
        self.uid += 1
        return self.rnd.choice(["at%d", "a_%d", "At%dX"]) % self.uid

    def spell(self, name):
        """Type names are basic keys: references may differ in case."""
        return name.upper() if self.rnd.random() < 0.2 else name

    def concrete(self, maxdepth):
        return [t for t in self.types
                if not t["abstract"] and t["depth"] <= maxdepth]

    def slots(self, maxdepth):
        return [t for t in self.types if t["depth"] <= maxdepth]

    def children(self, node, ctx, maxdepth):
        """Append 0..5 rule-satisfying children; return the depth below."""
        rnd = self.rnd
        depth = 0
        for _ in range(rnd.randint(0, 5)):
            kind = rnd.choice(["key", "key", "multikey", "wkey", "wmultikey",
                               "section", "section", "multisection"])
            ctx.n += 1
            if kind in ("key", "multikey"):
                name, needs = fresh_name(rnd, ctx.keytype, ctx.n)
                attrs = {"name": name}
                if needs or rnd.random() < 0.3:
                    attrs["attribute"] = self.attr_name()
                dt = rnd.choice(VALUE_TYPES)
                if dt:
                    attrs["datatype"] = dt
                kids = []
                if kind == "key":
                    r = rnd.random()
                    if r < 0.35:
                        attrs["default"] = rnd.choice(["1", "on", "x y", ""])
                    elif r < 0.6:
                        attrs["required"] = "yes"
                    elif r < 0.7:
                        attrs["required"] = "no"
                else:
                    r = rnd.random()
                    if r < 0.4:
                        for j in range(rnd.randint(1, 2)):
                            kids.append(Node("default", text="v%d" % j))
                    elif r < 0.65:
                        attrs["required"] = "yes"
                if rnd.random() < 0.15:
                    kids.insert(0, Node("description", text="about"))
                node.kids.append(Node(kind, attrs, kids))
                ctx.names.append((name, False, ctx.keytype))
                ctx.attrs.append((attrs.get("attribute")
                                  or implicit_attr(name), False))
            elif kind in ("wkey", "wmultikey"):
                if ctx.has_wild:
                    continue
                ctx.has_wild = True
                attrs = {"name": "+", "attribute": self.attr_name()}
                kids = []
                r = rnd.random()
                if r < 0.5:
                    # keys valid (and distinct) under all three key types
                    for j in range(rnd.randint(1, 2)):
                        k = rnd.choice(["dk%d", "Dk%d"]) % (ctx.n * 10 + j)
                        kids.append(Node("default", {"key": k}, text="w"))
                        ctx.wild_default_keys.append(k)
                    if kind == "wmultikey" and rnd.random() < 0.5:
                        kids.append(Node("default",
                                         {"key": kids[0].attrs["key"]},
                                         text="again"))
                elif r < 0.7:
                    attrs["required"] = "yes"
                tag = "key" if kind == "wkey" else "multikey"
                node.kids.append(Node(tag, attrs, kids))
                ctx.names.append(("+", False, ctx.keytype))
                ctx.attrs.append((attrs["attribute"], False))
            else:
                cands = self.slots(maxdepth)
                if not cands:
                    continue
                t = rnd.choice(cands)
                depth = max(depth, t["depth"])
                attrs = {"type": self.spell(t["name"])}
                if kind == "section":
                    form = rnd.choice(["fixed", "fixed", "*", "+", "omit"])
                else:
                    form = rnd.choice(["*", "+", "omit"])
                if form == "fixed":
                    name, needs = fresh_name(rnd, ctx.keytype, ctx.n)
                    attrs["name"] = name
                    if needs or rnd.random() < 0.3:
                        attrs["attribute"] = self.attr_name()
                    ctx.names.append((name, False, ctx.keytype))
                    ctx.attrs.append((attrs.get("attribute")
                                      or implicit_attr(name), False))
                else:
                    if form != "omit":
                        attrs["name"] = form
                    attrs["attribute"] = self.attr_name()
                    ctx.attrs.append((attrs["attribute"], False))
                if rnd.random() < 0.3:
                    attrs["required"] = rnd.choice(["yes", "no"])
                node.kids.append(Node(kind, attrs))
        return depth

    def schema(self):
        rnd = self.rnd
        sattrs = {}
        skt = rnd.choice(KEYTYPES + ("basic-key", None, None))
        if skt:
            sattrs["keytype"] = skt
        root = Node("schema", sattrs)
        if rnd.random() < 0.3:
            root.kids.append(Node("description", text="generated schema"))
        for i in range(rnd.randint(0, 2)):
            name = "abs%d" % i
            n = Node("abstracttype", {"name": self.spell(name)})
            if rnd.random() < 0.3:
                n.kids.append(Node("description", text="abstract"))
            root.kids.append(n)
            self.types.append({"name": name, "node": n, "abstract": True,
                               "ctx": None, "chain": 0, "depth": 1,
                               "impl": 0})
        for i in range(rnd.randint(1, 6)):
            name = rnd.choice(["t%d", "Type-%d", "s.t%d"]) % i
            attrs = {"name": name}
            base = None
            bases = [t for t in self.types
                     if not t["abstract"] and t["chain"] < 2]
            if bases and rnd.random() < 0.45:
                base = rnd.choice(bases)
                attrs["extends"] = self.spell(base["name"])
            kt = base["ctx"].keytype if base else "basic-key"
            if rnd.random() < 0.45:
                kt = rnd.choice(KEYTYPES)
                attrs["keytype"] = kt
            abstracts = [t for t in self.types
                         if t["abstract"] and t["impl"] < 3]
            impl = None
            # implementers stay flat so that abstract slots have depth 1
            if abstracts and rnd.random() < 0.5 and (
                    base is None or base["depth"] == 1):
                impl = rnd.choice(abstracts)
                impl["impl"] += 1
                attrs["implements"] = self.spell(impl["name"])
            node = Node("sectiontype", attrs)
            ctx = Ctx(kt, base["ctx"] if base else None)
            if rnd.random() < 0.15:
                node.kids.append(Node("description", text="a type"))
            below = self.children(node, ctx, 0 if impl else 2)
            depth = 1 + below
            if base:
                depth = max(depth, base["depth"])
            node.meta = {"ctx": ctx}
            root.kids.append(node)
            self.types.append({"name": name.lower(), "node": node,
                               "abstract": False, "ctx": ctx,
                               "chain": base["chain"] + 1 if base else 0,
                               "depth": depth, "base": base})
        ctx = Ctx(skt or "basic-key")
        self.children(root, ctx, 3)
        root.meta = {"ctx": ctx}
        return root


def generate(seed):
    rnd = random.Random(seed)
    g = Gen(rnd)
    root = g.schema()
    return root, g


# --------------------------------------------------------------------- edits
# An edit is (rule, sub, [ops]).  ops:
#   ("set", id, attr, value) ("del", id, attr) ("text", id, s)
#   ("add", parent id, where, Node)   where: "end" | "dtd" | ("after", id)
#   ("after", id, ref id)   move a sibling behind another one
#   ("last", id)            move to the end of its parent

def apply_ops(root, ops, dtd):
    root = root.copy()
    for op in ops:
        if op[0] == "set":
            root.find(op[1])[0].attrs[op[2]] = op[3]
        elif op[0] == "del":
            root.find(op[1])[0].attrs.pop(op[2], None)
        elif op[0] == "text":
            root.find(op[1])[0].text = op[2]
        elif op[0] == "add":
            parent = root.find(op[1])[0]
            new = op[3].copy()
            where = op[2]
            if where == "end":
                parent.kids.append(new)
            elif where == "dtd":
                order = dtd.get(parent.tag, [])
                rank = order.index(new.tag) if new.tag in order else 99
                pos = len(parent.kids)
                for i, k in enumerate(parent.kids):
                    r = order.index(k.tag) if k.tag in order else 99
                    if r > rank:
                        pos = i
                        break
                parent.kids.insert(pos, new)
            else:
                ref = [i for i, k in enumerate(parent.kids)
                       if k.id == where[1]]
                parent.kids.insert(ref[0] + 1 if ref else len(parent.kids),
                                   new)
        elif op[0] == "after":
            n, p = root.find(op[1])
            p.kids.remove(n)
            idx = [i for i, k in enumerate(p.kids) if k.id == op[2]][0]
            p.kids.insert(idx + 1, n)
        elif op[0] == "last":
            n, p = root.find(op[1])
            p.kids.remove(n)
            p.kids.append(n)
    return root


NGROUPS = 61
CONTAINERS = ("schema", "sectiontype")
ITEMS = ("key", "multikey", "section", "multisection")
BAD_NAME = "bad name!"      # invalid under all three key types


def enumerate_edits(root, gen, dtd):
    """(violating, satisfying): lists of (rule, sub, ops, top_only)."""
    bad = []
    good = []
    uid = [0]

    def fresh(prefix):
        uid[0] += 1
        return "%s%d" % (prefix, 9000 + uid[0])

    def B(rule, sub, ops, top_only=False):
        bad.append((rule, sub, ops, top_only))

    type_nodes = [t["node"] for t in gen.types]
    by_node = {t["node"].id: t for t in gen.types}
    order = {n.id: i for i, n in enumerate(type_nodes)}

    def types_before(container):
        """Concrete and abstract types defined before a container."""
        if container.tag == "schema":
            idx = len(type_nodes)
        else:
            idx = order[container.id]
        ts = gen.types[:idx]
        return ([t for t in ts if not t["abstract"]],
                [t for t in ts if t["abstract"]])

    # 1. unique type names
    for t in gen.types:
        n = t["node"]
        for spelling in (n.attrs["name"], n.attrs["name"].swapcase()):
            for tag in ("sectiontype", "abstracttype"):
                B("unique-type-names", "duplicate-" + tag,
                  [("add", root.id, ("after", n.id),
                    Node(tag, {"name": spelling}))])

    for c, _p in root.walk():
        if c.tag not in CONTAINERS:
            continue
        ctx = c.meta["ctx"]
        conc, absts = types_before(c)
        # 2. unique key names / attribute names, inherited ones included
        for name, inherited, declared in ctx.names:
            inh = "inherited" if inherited else "own"
            if inherited and name != name.lower() and (
                    (declared == "identifier")
                    != (ctx.keytype == "identifier")):
                # the derived type overrides the key type with one of the
                # other folding behaviour: the inherited name has a
                # different normal form when written out in the derived type
                inh = "inherited-keytype-override"
            if name == "+":
                for tag in ("key", "multikey"):
                    B("unique-names", "second-wildcard-" + inh,
                      [("add", c.id, "end",
                        Node(tag, {"name": "+",
                                   "attribute": fresh("zz")}))])
                continue
            for spelling in {name, clash_variant(ctx.keytype, name)}:
                B("unique-names", "name-" + inh if inh.endswith("override")
                  else "key-name-" + inh,
                  [("add", c.id, "end",
                    Node("key", {"name": spelling,
                                 "attribute": fresh("zz")}))])
                if conc:
                    B("unique-names", "name-" + inh
                      if inh.endswith("override") else "section-name-" + inh,
                      [("add", c.id, "end",
                        Node("section", {"type": conc[0]["name"],
                                         "name": spelling,
                                         "attribute": fresh("zz")}))])
        for attr, inherited in ctx.attrs:
            inh = "inherited" if inherited else "own"
            B("unique-attributes", "key-" + inh,
              [("add", c.id, "end",
                Node("key", {"name": fresh("nk"), "attribute": attr}))])
            if conc:
                B("unique-attributes", "multisection-" + inh,
                  [("add", c.id, "end",
                    Node("multisection", {"type": conc[0]["name"],
                                          "name": "*",
                                          "attribute": attr}))])
        # 4. extends names a concrete type, implements an abstract one
        if c.tag == "sectiontype":
            for a in absts:
                B("extends-concrete", "extends-abstract",
                  [("set", c.id, "extends", a["name"])])
            for t in conc:
                B("implements-abstract", "implements-concrete",
                  [("set", c.id, "implements", t["name"])])
            B("extends-concrete", "extends-itself",
              [("set", c.id, "extends", c.attrs["name"])])
            # 3. defined before use
            for a in ("extends", "implements"):
                if a in c.attrs:
                    ref = [t for t in gen.types
                           if t["name"] == c.attrs[a].lower()][0]
                    B("defined-before-use", a + "-moved-behind",
                      [("after", ref["node"].id, c.id)])
                B("defined-before-use", a + "-undefined",
                  [("set", c.id, a, "nosuchtype")])
            # 9. well-formed type names and datatype names
            B("well-formed", "type-name-invalid",
              [("set", c.id, "name", "9bad!")])
            B("well-formed", "type-name-empty", [("set", c.id, "name", "")])
            B("well-formed", "type-name-missing", [("del", c.id, "name")])
        for a in ("datatype", "keytype"):
            B("well-formed", a + "-name-invalid", [("set", c.id, a, BAD_NAME)])
            B("well-formed", a + "-name-unknown",
              [("set", c.id, a, "no-such-type")])
            B("datatype-resolvable", a + "-unresolvable",
              [("set", c.id, a, "nosuchmodule.conv")])
        B("well-formed", "prefix-invalid", [("set", c.id, "prefix", "9.bad")])

        for n in c.kids:
            if n.tag not in ITEMS:
                continue
            name = n.attrs.get("name", "*")
            wild = name in ("*", "+")
            is_key = n.tag in ("key", "multikey")
            # 3. defined before use (sections)
            if not is_key:
                ref = [t for t in gen.types
                       if t["name"] == n.attrs["type"].lower()][0]
                if c.tag == "sectiontype":
                    B("defined-before-use", "section-type-moved-behind",
                      [("after", ref["node"].id, c.id)])
                else:
                    B("defined-before-use", "section-type-moved-to-end",
                      [("last", ref["node"].id)], True)
                B("defined-before-use", "section-type-undefined",
                  [("set", n.id, "type", "nosuchtype")])
                B("well-formed", "section-type-missing",
                  [("del", n.id, "type")])
                B("well-formed", "section-type-empty",
                  [("set", n.id, "type", "")])
            # 5. wildcard names carry an attribute; '*' is never a key name
            if wild:
                B("wildcard-attribute", n.tag + "-attribute-removed",
                  [("del", n.id, "attribute")])
                B("wildcard-attribute", n.tag + "-attribute-empty",
                  [("set", n.id, "attribute", "")])
            if is_key:
                ops = [("set", n.id, "name", "*")]
                if "attribute" not in n.attrs:
                    ops.append(("set", n.id, "attribute", fresh("zz")))
                B("star-key", n.tag, ops)
            # 6. multisections are named '*' or '+'
            if n.tag == "multisection":
                B("multisection-name", "fixed-name",
                  [("set", n.id, "name", fresh("nk"))])
            # 7. no default on a required key
            defaults = [k for k in n.kids if k.tag == "default"]
            if n.tag == "key" and "default" in n.attrs:
                B("required-default", "key-default-attribute",
                  [("set", n.id, "required", "yes")])
            if n.tag == "key" and n.attrs.get("required") == "yes" \
                    and not wild:
                B("required-default", "key-default-attribute",
                  [("set", n.id, "default", "x")])
            if defaults and n.attrs.get("required") != "yes":
                sub = n.tag + "-default-elements"
                B("required-default", sub, [("set", n.id, "required", "yes")])
            if is_key and n.attrs.get("required") == "yes" and (
                    wild or n.tag == "multikey"):
                sub = n.tag + "-default-elements"
                attrs = {"key": "dk1"} if wild else {}
                B("required-default", sub,
                  [("add", n.id, "end", Node("default", attrs, text="x"))])
            # 8. defaults keyed exactly when the key is a wildcard
            for d in defaults:
                if wild:
                    B("default-keying", "wildcard-default-unkeyed",
                      [("del", d.id, "key")])
                else:
                    B("default-keying", "plain-default-keyed",
                      [("set", d.id, "key", "dk1")])
            if is_key and wild:
                if n.tag == "key":
                    B("default-keying", "wildcard-default-attribute",
                      [("set", n.id, "default", "x")])
                    for d in defaults:
                        k = d.attrs["key"]
                        for spelling in {k, clash_variant(ctx.keytype, k)}:
                            B("default-collision", "same-container",
                              [("add", n.id, "end",
                                Node("default", {"key": spelling},
                                     text="y"))])
                    if ctx.keytype == "identifier" and defaults:
                        # collides only under a folding derived key type
                        for t in gen.types:
                            b = t.get("base")
                            if b and b["node"] is c and \
                                    t["ctx"].keytype != "identifier":
                                k = defaults[0].attrs["key"]
                                B("default-collision", "in-derived-type",
                                  [("add", n.id, "end",
                                    Node("default", {"key": k.swapcase()},
                                         text="y"))])
                                break
                if n.attrs.get("required") != "yes":
                    B("well-formed", "default-key-invalid",
                      [("add", n.id, "end",
                        Node("default", {"key": BAD_NAME}, text="y"))])
            if n.tag == "multikey":
                B("default-keying", "multikey-default-attribute",
                  [("set", n.id, "default", "x")])
            # 9. well-formed names, attributes, 'required', datatype names
            if not wild:
                B("well-formed", n.tag + "-name-invalid",
                  [("set", n.id, "name", BAD_NAME)])
                B("well-formed", n.tag + "-name-empty",
                  [("set", n.id, "name", "")])
                if is_key:
                    B("well-formed", n.tag + "-name-missing",
                      [("del", n.id, "name")])
                B("well-formed", "attribute-empty",
                  [("set", n.id, "attribute", "")])
                if "attribute" in n.attrs and not (
                        DR.basic_key(name).ok
                        and DR.ascii_identifier(implicit_attr(name))):
                    B("well-formed", "implicit-attribute-invalid",
                      [("del", n.id, "attribute")])
            B("well-formed", "attribute-invalid",
              [("set", n.id, "attribute", "9-bad")])
            B("well-formed", "attribute-reserved",
              [("set", n.id, "attribute", "getSectionX")])
            for v in ("maybe", "YES", "", "true"):
                B("well-formed", "required-value",
                  [("set", n.id, "required", v)])
            B("well-formed", "handler-invalid",
              [("set", n.id, "handler", "9 bad")])
            if is_key:
                B("well-formed", "datatype-name-invalid",
                  [("set", n.id, "datatype", BAD_NAME)])
                B("well-formed", "datatype-name-unknown",
                  [("set", n.id, "datatype", "no-such-type")])
                B("datatype-resolvable", "datatype-unresolvable",
                  [("set", n.id, "datatype", "nosuchmodule.conv")])

    for t in gen.types:
        if t["abstract"]:
            n = t["node"]
            B("well-formed", "type-name-invalid",
              [("set", n.id, "name", "9bad!")])
            B("well-formed", "type-name-empty", [("set", n.id, "name", "")])
            B("well-formed", "type-name-missing", [("del", n.id, "name")])

    # 10. element nesting as in the DTD, no stray text
    for p, gp in list(root.walk()):
        if p.tag not in PCDATA_TAGS:
            B("nesting", "stray-text-in-" + p.tag,
              [("text", p.id, "stray")])
        container = p if p.tag in CONTAINERS else None
        ctx = container.meta["ctx"] if container else None
        conc = types_before(container)[0] if container else []
        for tag in ALL_TAGS + ["foo"]:
            allowed = tag in dtd.get(p.tag, [])
            if tag in ("description", "metadefault", "example"):
                if allowed and any(k.tag == tag for k in p.kids):
                    continue        # '?' occurrence, not a nesting question
                new = Node(tag, text="words")
            elif tag == "default":
                if p.tag in ("key", "multikey"):
                    if p.attrs.get("required") == "yes":
                        continue
                    if p.tag == "key" and p.attrs.get("name") != "+":
                        continue    # see UNDECIDED in run()
                    if "default" in p.attrs:
                        continue
                new = Node("default", {"key": "dk77"} if p.attrs.get(
                    "name") == "+" else {}, text="v")
            elif tag == "import":
                new = Node("import", {"package": "ZConfig.components.basic",
                                      "file": "mapping.xml"})
                if any(k.tag == "import" for k in p.kids):
                    continue
            elif tag in ("sectiontype", "abstracttype"):
                new = Node(tag, {"name": fresh("nt")})
            elif tag in ("key", "multikey"):
                new = Node(tag, {"name": fresh("nk")})
            elif tag in ("section", "multisection"):
                if allowed and not conc:
                    continue
                tn = conc[0]["name"] if conc else "nosuch"
                new = Node(tag, {"type": tn, "name": "*",
                                 "attribute": fresh("zz")})
            else:
                new = Node(tag)
            ops = [("add", p.id, "dtd" if allowed else "end", new)]
            sub = "%s-in-%s" % (tag, p.tag)
            if allowed:
                good.append(("nesting", sub, ops, False))
            else:
                B("nesting", sub, ops)
    return bad, good


# ------------------------------------------------------------------ checking

def split_component(root, package):
    """(schema tree, component tree): type definitions moved to a component."""
    schema = root.copy()
    comp = Node("component")
    rest = []
    for k in schema.kids:
        if k.tag in ("sectiontype", "abstracttype"):
            comp.kids.append(k)
        else:
            rest.append(k)
    imp = Node("import", {"package": package})
    pos = 0
    while pos < len(rest) and rest[pos].tag in ("description", "metadefault",
                                                "example"):
        pos += 1
    rest.insert(pos, imp)
    schema.kids = rest
    return schema, comp


def load(xml):
    import ZConfig
    try:
        ZConfig.loadSchemaFile(io.StringIO(xml))
    except ZConfig.SchemaError as e:
        return "SchemaError", str(e)[:160]
    except Exception as e:      # noqa: BLE001
        return type(e).__name__, str(e)[:160]
    return "accepted", ""


class Work:
    def __init__(self, dtd, tmp):
        self.dtd = dtd
        self.tmp = tmp
        self.col = Collector()

    def outcomes(self, tree, idx, top_only, allow_component):
        """Outcome of the plain and, if applicable, the componentised form."""
        res = [("plain", load(render(tree)), render(tree))]
        if allow_component and not top_only:
            # sharded so that no directory on the import path grows large
            pkg = "c10r.g%d.p%d" % (idx % NGROUPS, idx)
            d = os.path.join(self.tmp, *pkg.split("."))
            if not os.path.isdir(d):
                os.mkdir(d)
                with open(os.path.join(d, "__init__.py"), "w"):
                    pass
            schema, comp = split_component(tree, pkg)
            # (moving the types ahead of the top-level items preserves the
            # document's meaning for every edit that is not top_only)
            with open(os.path.join(d, "component.xml"), "w") as f:
                f.write(render(comp))
            xml = render(schema)
            res.append(("component", load(xml),
                        xml + "<!-- component.xml -->\n" + render(comp)))
        return res

    def classify(self, tree, idx, rule, sub, top_only):
        """[(form, sig or None, what, xml, observed)] for an edited document
        that must raise SchemaError ('datatype-resolvable': any exception,
        because Registry.get documents an unspecified exception for a name
        that cannot be found)."""
        res = []
        for form, (out, msg), xml in self.outcomes(tree, idx, top_only, True):
            self.col.case()
            sig = what = None
            if out == "accepted":
                sig = "C10:accepted:%s:%s" % (rule, sub)
                what = ("document violating rule '%s' (%s) accepted [%s]"
                        % (rule, sub, form))
            elif out != "SchemaError" and rule != "datatype-resolvable":
                sig = "C10:%s:%s:%s" % (out, rule, sub)
                what = ("rule '%s' (%s) reported as %s, not SchemaError [%s]"
                        % (rule, sub, out, form))
            res.append((form, sig, what, xml,
                        out + (": " + msg if msg else "")))
        return res

    def expect_reject(self, tree, idx, rule, sub, top_only):
        res = self.classify(tree, idx, rule, sub, top_only)
        for form, sig, what, xml, observed in res:
            if sig:
                self.col.violation(sig, what, xml, "ZConfig.SchemaError",
                                   observed)
        return res

    def expect_accept(self, tree, idx, what_sig, top_only=False):
        for form, (out, msg), xml in self.outcomes(tree, idx, top_only, True):
            self.col.case()
            if out == "accepted":
                continue
            self.col.violation("C10:rejected:%s" % what_sig,
                               "rule-satisfying document rejected [%s]" % form,
                               xml, "accepted", "%s: %s" % (out, msg))


def work(item):
    seed, idx, tmp, npairs, part, nparts = item
    use_repo()
    if tmp not in sys.path:
        sys.path.insert(0, tmp)
    dtd = load_dtd()
    w = Work(dtd, tmp)
    pkg_idx = idx * nparts + part
    root, gen = generate("%d/%d" % (seed, idx))
    if part == 0:
        w.expect_accept(root, pkg_idx, "base-document")
    bad, good = enumerate_edits(root, gen, dtd)
    keys = set()
    for rule, sub, ops, top_only in good[part::nparts]:
        keys.add(("ok", rule, sub))
        w.expect_accept(apply_ops(root, ops, dtd), pkg_idx,
                        "%s:%s" % (rule, sub), top_only)
    single = {}

    def run_single(i, report):
        rule, sub, ops, top_only = bad[i]
        tree = apply_ops(root, ops, dtd)
        if report:
            res = w.expect_reject(tree, pkg_idx, rule, sub, top_only)
        else:
            res = w.classify(tree, pkg_idx, rule, sub, top_only)
        single[i] = {(form, sig) for form, sig, _w, _x, _o in res if sig}
        return single[i]

    for i in range(part, len(bad), nparts):
        keys.add(bad[i][:2])
        run_single(i, True)
    rnd = random.Random("pairs/%d/%d/%d" % (seed, idx, part))
    for _ in range(npairs if len(bad) > 1 else 0):
        ia, ib = rnd.sample(range(len(bad)), 2)
        a, b = bad[ia], bad[ib]
        try:
            tree = apply_ops(root, a[2] + b[2], dtd)
        except (KeyError, IndexError, ValueError):
            continue        # second edit's anchor was moved / is gone
        keys.add(("pair",) + tuple(sorted([a[0], b[0]])))
        pair_rule = "+".join(sorted([a[0], b[0]]))
        if "datatype-resolvable" in (a[0], b[0]):
            rule = "datatype-resolvable"
        else:
            rule = "pair"
        for form, sig, what, xml, observed in w.classify(
                tree, pkg_idx, rule, pair_rule, a[3] or b[3]):
            if not sig:
                continue
            # a pair that fails exactly like one of its members has that
            # member's root cause; only new failures get a pair signature
            kind = sig.split(":")[1]
            member = None
            for i in (ia, ib):
                got = single[i] if i in single else run_single(i, False)
                for f, s1 in got:
                    if s1.split(":")[1] == kind:
                        member = s1
            w.col.violation(member or sig, what, xml, "ZConfig.SchemaError",
                            observed)
    d = w.col.partial()
    d["distinct"] = ["%s|%s" % (idx, "|".join(k)) for k in keys]
    if idx < 2 and part == 0:
        d["samples"] = [{"schema": render(root)}]
    return d


def run(tier, seed):
    use_repo()
    col = Collector()
    ndocs = 1500 if tier == "thorough" else 110
    npairs = 120 if tier == "thorough" else 40
    tmp = tempfile.mkdtemp(prefix="c10_")
    try:
        for d in [os.path.join(tmp, "c10r")] + [
                os.path.join(tmp, "c10r", "g%d" % g) for g in range(NGROUPS)]:
            os.mkdir(d)
            with open(os.path.join(d, "__init__.py"), "w"):
                pass
        sys.path.insert(0, tmp)
        nparts = 4
        parts = pmap(work, [(seed, i, tmp, npairs // nparts, k, nparts)
                            for i in range(ndocs) for k in range(nparts)],
                     chunksize=1)
    finally:
        if tmp in sys.path:
            sys.path.remove(tmp)
        for name in [m for m in sys.modules if m.startswith("c10r")]:
            del sys.modules[name]
        shutil.rmtree(tmp, ignore_errors=True)
    for p in parts:
        col.merge(p)
    return col.result(
        bound="%d generated schema documents (<=2 abstract types, <=6 section"
              " types, extends chains <=3, nesting depth <=3, <=5 items per"
              " container), each loaded as one document and with its types"
              " moved to an imported component; every single rule-violating"
              " edit at every applicable node; %d sampled pairs of edits per"
              " document; DTD nesting table: every (parent node, child"
              " element) combination" % (ndocs, npairs),
        rule="a case is one loaded document; distinct/non-trivial = distinct"
             " (document, rule, sub-rule) combinations (positions of the same"
             " sub-rule in one document are not counted again). Expected:"
             " generated documents and DTD-conforming insertions are"
             " accepted; every edited document raises ZConfig.SchemaError"
             " from loadSchemaFile. Undecided and therefore not generated:"
             " a <default> element inside a non-wildcard <key> (the DTD"
             " allows it, the text documents it for multikey only, the code"
             " refuses it); element order and '?' occurrence counts of the"
             " DTD (the statement speaks of nesting only)")
