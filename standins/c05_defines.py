"""C05: the %define namespace over histories of defines, uses and includes.

A history is a sequence of items over three names:
  ('D', n, shape)  %define NAME VALUE, shape in SHAPES ("other" = the next
                   name cyclically, "self" = the name itself)
  ('U', n)         a key line whose value references NAME
  'E' / 'L'        %include of a fresh file / end of that file (nesting of E
                   at most 2; files still open at the end simply end)
  'A'              %include, again, of the file that ended most recently
Names are spelled in a case pattern that changes with the position, so every
definition / reference pair meets in different spellings.

Every history of up to N items is run (N: quick 5, thorough 6), modulo the
rotation symmetry of the three names, and without extending a history the
reference already rejects (nothing after the first rejected line is read).
Real code: a ConfigLoader whose openResource serves the generated resources
from memory, loaded twice with the same loader and schema object; a
deterministic sample (and every history of up to 2 items) is also written to
a temp directory and loaded twice with ZConfig.loadConfig(schema, path).  After the two loads a third text that only
uses the three names is loaded with the same loader: nothing may be left over.
Observation: the values of all keys, or exception class, resource and line.
"""
import io
import os
import shutil
import tempfile
import zlib

from standins.common import Collector, pmap, use_repo
from standins.refmodel import textmodel as T

PROPERTY = "C05"

SCHEMA = '<schema><multikey name="+" attribute="kv"/></schema>'
BASES = ["ab", "cd", "ef"]
SHAPES = ["lit", "empty", "ref", "esc", "brace", "pad", "self"]
ITEMS = ([("D", n, sh) for n in range(3) for sh in SHAPES]
         + [("U", n) for n in range(3)] + ["E", "L", "A"])
BASE_URL = "file:///c05/"


def spell(n, k):
    b = BASES[n]
    return (b, b.capitalize(), b[0] + b[1:].upper(), b.upper())[k % 4]


def build(seq):
    """Resources (name -> list of lines) of a history; main is main.conf."""
    files = {"main.conf": []}
    stack = ["main.conf"]
    nfiles = 0
    last = None
    for p, it in enumerate(seq):
        cur = files[stack[-1]]
        if it == "E":
            nfiles += 1
            name = "f%d.conf" % nfiles
            cur.append("%include " + name)
            files[name] = []
            stack.append(name)
        elif it == "L":
            last = stack.pop()
        elif it == "A":
            cur.append("%include " + last)
        elif it[0] == "U":
            x = spell(it[1], p + 3)
            ref = ("$" + x, "${" + x + "}", "<${" + x + "}>")[p % 3]
            cur.append("k%d %s" % (p, ref))
        else:
            _, n, sh = it
            o = spell((n + 1) % 3, p + 1)
            value = {"lit": "v", "empty": None, "ref": "$" + o,
                     "esc": "$$" + o, "brace": "${" + o + "}x",
                     "pad": " \t v\t ", "self": "$" + spell(n, p + 2)}[sh]
            line = "%define " + spell(n, p)
            if value is not None:
                line += " " + value
            cur.append(line)
    return files


def valid_next(seq):
    depth = 0
    closed = False
    for it in seq:
        if it == "E":
            depth += 1
        elif it == "L":
            depth -= 1
            closed = True
    named = any(isinstance(it, tuple) for it in seq)
    for it in ITEMS:
        if it == "E" and depth >= 2:
            continue
        if it == "L" and depth == 0:
            continue
        if it == "A" and not closed:
            continue
        if isinstance(it, tuple) and not named and it[1] != 0:
            continue        # rotation symmetry: the first name used is 0
        yield it


# -------------------------------------------------------------------------
# real code

_state = {}


def _schema():
    if "schema" not in _state:
        ZConfig = use_repo()
        _state["schema"] = ZConfig.loadSchemaFile(io.StringIO(SCHEMA))
    return _state["schema"]


def _mem_loader(files):
    ZConfig = use_repo()
    import ZConfig.loader

    if "cls" not in _state:
        class MemLoader(ZConfig.loader.ConfigLoader):
            def openResource(self, url):
                name = url[len(BASE_URL):]
                if not url.startswith(BASE_URL) or name not in self.files:
                    raise ZConfig.ConfigurationError("no such resource", url)
                return self.createResource(
                    io.StringIO("".join(l + "\n" for l in self.files[name])),
                    url)
        _state["cls"] = MemLoader
    ld = _state["cls"](_schema())
    ld.files = files
    return ld


def _outcome(fn):
    ZConfig = use_repo()
    try:
        cfg, _h = fn()
    except Exception as e:
        res = getattr(e, "url", None)
        res = res.rsplit("/", 1)[-1] if isinstance(res, str) else res
        lineno = getattr(e, "lineno", None)
        if type(e) is ZConfig.ConfigurationSyntaxError:
            return ("syntax", res, lineno)
        if type(e) is ZConfig.SubstitutionReplacementError:
            return ("replacement", res, lineno)
        if type(e) is ZConfig.SubstitutionSyntaxError:
            return ("subst-syntax", res, lineno)
        return ("other:" + type(e).__name__, res, lineno)
    return ("ok", {k: list(v) for k, v in cfg.kv.items()})


PROBE_NAME = "zz-probe.conf"
PROBE_LINES = ["p%d <$%s>" % (n, b) for n, b in enumerate(BASES)]


def real_memory(files):
    ld = _mem_loader(files)
    first = _outcome(lambda: ld.loadURL(BASE_URL + "main.conf"))
    second = _outcome(lambda: ld.loadURL(BASE_URL + "main.conf"))
    # a DIFFERENT text loaded with the same loader afterwards: it uses the three names and defines
    # none, so a namespace that survived the earlier loads would show (the statement: a new, empty
    # namespace per load)
    ld.files = dict(files)
    ld.files[PROBE_NAME] = PROBE_LINES
    third = _outcome(lambda: ld.loadURL(BASE_URL + PROBE_NAME))
    return first, second, third


def real_files(files, tmpdir):
    ZConfig = use_repo()
    for name, lines in files.items():
        with open(os.path.join(tmpdir, name), "w", encoding="utf-8") as f:
            f.write("".join(l + "\n" for l in lines))
    path = os.path.join(tmpdir, "main.conf")
    try:
        first = _outcome(lambda: ZConfig.loadConfig(_schema(), path))
        second = _outcome(lambda: ZConfig.loadConfig(_schema(), path))
    finally:
        for name in files:
            os.unlink(os.path.join(tmpdir, name))
    return first, second


# -------------------------------------------------------------------------
# comparison

def _reference(files):
    defs = []
    exp = T.run_defines(
        files, "main.conf", env=os.environ,
        on_define=lambda res, ln, nm, raw, ns: defs.append(
            (res, ln, nm, raw, ns)))
    return exp, defs


def _matches(exp, obs):
    if exp[0] == "ok":
        return obs[0] == "ok" and obs[1] == exp[1]
    _, tags, res, lineno, _why = exp
    return obs[0] in tags and obs[1] == res and obs[2] == lineno


def _is_known_defect(files, obs):
    """The observed behaviour is exactly that of the known defect model."""
    model = T.run_defines(files, "main.conf", env=os.environ,
                          define_step=T.define_step_compares_unexpanded)
    return _matches(model, obs)


def _slug(s):
    return "-".join(str(s).split())


def _line_kind(files, res, lineno, defs):
    try:
        line = files[res][lineno - 1]
    except Exception:
        return "nowhere"
    if line.startswith("%define"):
        for r, ln, nm, _raw, ns in defs:
            if r == res and ln == lineno and nm.lower() in ns:
                return "redefine"
        return "define"
    if line.startswith("%include"):
        return "include"
    return "use"


def compare(col, files, exp, defs, obs, route, inp):
    if _matches(exp, obs):
        return
    if _is_known_defect(files, obs):
        sig = "C05:redefine-compares-unexpanded"
    elif obs[0].startswith("other:"):
        sig = "C05:unexpected-exception:" + obs[0][6:]
    elif exp[0] == "ok":
        if obs[0] == "ok":
            sig = "C05:value-differs"
        else:
            sig = "C05:rejects-accepted:%s:%s-line" % (
                obs[0], _line_kind(files, obs[1], obs[2], defs))
    elif obs[0] == "ok":
        sig = "C05:accepts-rejected:" + _slug(exp[4])
    elif obs[0] not in exp[1]:
        sig = "C05:wrong-error-class:%s-for-%s" % (obs[0], _slug(exp[4]))
    else:
        sig = "C05:wrong-error-position:" + _slug(exp[4])
    if exp[0] == "ok":
        expected = ["ok", exp[1]]
    else:
        expected = ["error", list(exp[1]), exp[2], exp[3], exp[4]]
    col.violation(sig, route + ": outcome differs from the statement", inp,
                  expected, list(obs))


def evaluate(col, seq, tmpdir, seed, sample_mod, files=None):
    """Returns the reference outcome."""
    if files is None:
        files = build(seq)
    inp = {"history": [list(i) if isinstance(i, tuple) else i for i in seq]
           if seq is not None else None,
           "resources": files}
    exp, defs = _reference(files)
    first, second, third = real_memory(files)
    col.evaluations += 3
    compare(col, files, exp, defs, first, "memory", inp)
    if not all(b in os.environ for b in BASES):
        pexp = T.run_defines({PROBE_NAME: PROBE_LINES}, PROBE_NAME, env=os.environ)
        if not _matches(pexp, third):
            col.violation("C05:namespace-survives-the-load",
                          "a text that only USES the names, loaded afterwards with the same loader, does not "
                          "behave as it does with a new namespace", inp,
                          ["ok", pexp[1]] if pexp[0] == "ok" else ["error", list(pexp[1]), pexp[2], pexp[3], pexp[4]],
                          list(third))
    if second != first:
        col.violation("C05:second-load-differs",
                      "the same text loaded again with the same loader and "
                      "schema behaves differently", inp, list(first),
                      list(second))
    if tmpdir is not None and (
            seq is None or len(seq) <= 2 or
            zlib.crc32(repr((seed, seq)).encode()) % sample_mod == 0):
        f1, f2 = real_files(files, tmpdir)
        col.evaluations += 2
        compare(col, files, exp, defs, f1, "files", inp)
        if f2 != f1:
            col.violation("C05:second-load-differs",
                          "ZConfig.loadConfig of the same path and schema "
                          "twice behaves differently", inp, list(f1),
                          list(f2))
    return exp


def _nontrivial(seq):
    return any(isinstance(i, tuple) and i[0] == "D" for i in seq)


def _dfs(col, seq, maxlen, tmpdir, seed, sample_mod, counter):
    if seq and seq[-1] == "L":
        # same resources as without the trailing 'L': only a prefix
        exp = T.run_defines(build(seq), "main.conf", env=os.environ)
    else:
        exp = evaluate(col, seq, tmpdir, seed, sample_mod)
        if _nontrivial(seq):
            counter[0] += 1
        if len(col.samples) < 1 and len(seq) == 4 and exp[0] == "ok" \
                and "E" in seq and exp[1]:
            col.samples.append({"resources": build(seq),
                                "expected-keys": exp[1]})
    if exp[0] != "ok" or len(seq) >= maxlen:
        return
    for it in valid_next(seq):
        _dfs(col, seq + (it,), maxlen, tmpdir, seed, sample_mod, counter)


def _job(arg):
    prefix, maxlen, seed, sample_mod = arg
    use_repo()
    col = Collector()
    counter = [0]
    tmpdir = tempfile.mkdtemp(prefix="c05-")
    try:
        _dfs(col, prefix, maxlen, tmpdir, seed, sample_mod, counter)
    finally:
        shutil.rmtree(tmpdir, ignore_errors=True)
    p = col.partial()
    p["nontriv"] = counter[0]
    return p


# hand-written histories, judged by the same reference
PROBES = [
    {"main.conf": ["%define a x", "%define A x", "k $a $A ${a}"]},
    {"main.conf": ["%define a x", "%define A y"]},
    {"main.conf": ["%define b x", "%define a $b", "%define a $b"]},
    {"main.conf": ["%define a $$", "%define a $$"]},
    {"main.conf": ["%define b x", "%define a $$b", "%define a $b", "k $a"]},
    {"main.conf": ["%define a", "%define a", "k <$a>"]},
    {"main.conf": ["%define a   x   y  ", "k $a"]},
    {"main.conf": ["%define _ x", "%define a1_ y", "k $_${a1_}"]},
    {"main.conf": ["%define 1a x"]},
    {"main.conf": ["%define a-b x"]},
    {"main.conf": ["%define é x"]},
    {"main.conf": ["%define a.b"]},
    {"main.conf": ["%define \u212a x", "k $k"]},      # KELVIN SIGN
    {"main.conf": ["%define ſ x"]},                  # LONG S
    {"main.conf": ["%define İ x"]},                  # I WITH DOT ABOVE
    {"main.conf": ["k $a", "%define a x"]},
    {"main.conf": ["%define a $a"]},
    {"main.conf": ["%define a x", "%define a $a", "k $a"]},
    {"main.conf": ["%define a $(ZC05_NOT_SET)"]},
    {"main.conf": ["%define a $", "k v"]},
    {"main.conf": ["%define a x", "%define a ${"]},
    {"main.conf": ["%include f1.conf", "k $a"], "f1.conf": ["%define A x"]},
    {"main.conf": ["%define a x", "%include f1.conf", "k $b"],
     "f1.conf": ["%define b <$A>", "%include f2.conf"],
     "f2.conf": ["k2 $a$b", "%define a x", "%define B <x>"]},
    {"main.conf": ["%include f1.conf", "%include f1.conf", "k $a"],
     "f1.conf": ["%define a x"]},
    {"main.conf": ["%define a x", "%include f1.conf"],
     "f1.conf": ["%define a y"]},
    {"main.conf": ["%define f f1", "%include $f.conf", "k $g"],
     "f1.conf": ["%define g ${f}${F}"]},
    {"main.conf": ["%define a x"]},
    {"main.conf": ["k $a"]},        # after the previous one: nothing leaks
]


def run(tier, seed):
    use_repo()
    quick = tier == "quick"
    maxlen = 5 if quick else 6
    sample_mod = 60 if quick else 400
    col = Collector()
    nontriv = 0
    # histories of up to 2 items here, the subtrees below them in workers
    tmpdir = tempfile.mkdtemp(prefix="c05-")
    try:
        jobs = []
        counter = [0]
        for a in [()] + [(i,) for i in valid_next(())]:
            exp = evaluate(col, a, tmpdir, seed, sample_mod)
            counter[0] += 1 if _nontrivial(a) else 0
            if not a or exp[0] != "ok":
                continue
            for b in valid_next(a):
                jobs.append((a + (b,), maxlen, seed, sample_mod))
        for files in PROBES:
            evaluate(col, None, tmpdir, seed, sample_mod, files=files)
            counter[0] += 1
        nontriv += counter[0]
    finally:
        shutil.rmtree(tmpdir, ignore_errors=True)
    for p in pmap(_job, jobs, chunksize=1):
        col.merge(p)
        nontriv += p["nontriv"]
    res = col.result(
        bound="every history of <= %d items over {define n <shape>, use n, "
              "include-fresh-file, end-of-file, include-last-file-again} "
              "with 3 names in 4 case spellings, shapes %s, include nesting "
              "<= 2, up to rotation of the names and not extended past the "
              "first rejected line; each loaded twice from memory, 1 in %d "
              "(and all of <= 2 items) also twice from files via "
              "ZConfig.loadConfig; %d hand-written histories"
              % (maxlen, "/".join(SHAPES), sample_mod, len(PROBES)),
        rule="depth-first product of the item vocabulary; an evaluation is "
             "one load; distinct non-trivial = distinct histories with at "
             "least one %define that were run")
    res["distinct_nontrivial"] = nontriv
    return res
