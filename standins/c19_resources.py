"""C19 stand-in: every resource opened during a load is closed, however the
load ends, and a failed load leaves nothing behind.

The loaders' documented override point ``createResource`` is overridden (and
``urllib.request.urlopen`` wrapped) to record every resource / raw stream and
to inject exactly ONE failure per run: an exception on the i-th read step of
resource j, in the k-th value / key conversion (counting datatypes of
``standins.refmodel.dt_faulty``), in the n-th section (or schema) datatype
call, on opening the j-th URL, or on reading its raw stream.  After the call
(returned or raised): every resource created is closed, every raw stream is
closed and was closed before the resource built from it was created; then the
same loader / schema objects must still produce the fault-free result, and a
SchemaLoader's cache must hold only schemas equal to freshly loaded ones.
"""
import importlib
import io
import os
import shutil
import sys
import tempfile
import urllib.error
import urllib.request

from standins.common import Collector, pmap, use_repo
from standins.refmodel import corpus_small as cs
from standins.refmodel import dt_faulty
from standins.c07_escape import zconfig_frames

PROPERTY = "C19"

DT = "standins.refmodel.dt_faulty."


class Boom(Exception):
    """An exception ZConfig knows nothing about."""


# ------------------------------------------------------------------ tracking

class Tracker:
    def __init__(self):
        self.reset(None)

    def reset(self, fail):
        self.fail = fail            # None or (kind, j, i, exc)
        self.resources = []         # [(j, url, resource, proxy)]
        self.streams = []           # [StreamProxy]
        self.reads = {}             # j -> number of read steps
        self.nres = 0
        self.nopen = 0
        self.late_stream = []       # urls whose stream was open at create
        self.fired = False

    def hit(self, kind, j, i):
        f = self.fail
        if f and f[0] == kind and f[1] == j and (f[2] is None or f[2] == i):
            self.fired = True
            raise f[3]


class FileProxy:
    def __init__(self, file, tracker, j):
        self._f = file
        self._t = tracker
        self._j = j
        self.closed_calls = 0

    def _step(self):
        t = self._t
        t.reads[self._j] = t.reads.get(self._j, 0) + 1
        t.hit("read", self._j, t.reads[self._j])

    def readline(self, *a):
        self._step()
        return self._f.readline(*a)

    def read(self, *a):
        self._step()
        return self._f.read(*a)

    def close(self):
        self.closed_calls += 1
        return self._f.close()

    @property
    def closed(self):
        return self._f.closed

    def __iter__(self):
        return iter(self.readline, "")

    def __getattr__(self, name):
        return getattr(self._f, name)


class StreamProxy:
    def __init__(self, real, tracker, idx, url):
        self._r = real
        self._t = tracker
        self._idx = idx
        self.url = url
        self.is_closed = False

    def read(self, *a):
        self._t.hit("stream-read", self._idx, None)
        return self._r.read(*a)

    def close(self):
        self.is_closed = True
        return self._r.close()

    def __getattr__(self, name):
        return getattr(self._r, name)


def instrument(ZConfig, tracker):
    """Recording loader subclasses + urlopen wrapper.  Returns (ConfigLoader
    subclass, SchemaLoader subclass, undo())."""
    import ZConfig.loader as zl

    class RecMixin:
        def createResource(self, file, url):
            tracker.nres += 1
            j = tracker.nres
            for s in tracker.streams:
                if not s.is_closed:
                    tracker.late_stream.append(s.url)
            tracker.hit("create", j, None)
            proxy = FileProxy(file, tracker, j)
            r = super().createResource(proxy, url)
            tracker.resources.append((j, url, r, proxy))
            return r

    class RecConfigLoader(RecMixin, zl.ConfigLoader):
        pass

    orig_schema_loader = zl.SchemaLoader

    class RecSchemaLoader(RecMixin, orig_schema_loader):
        pass

    orig_urlopen = urllib.request.urlopen

    def urlopen(url, *a, **kw):
        tracker.nopen += 1
        idx = tracker.nopen
        tracker.hit("open", idx, None)
        real = orig_urlopen(url, *a, **kw)
        s = StreamProxy(real, tracker, idx, url)
        tracker.streams.append(s)
        return s

    urllib.request.urlopen = urlopen
    zl.SchemaLoader = RecSchemaLoader      # used by ConfigLoader for %import

    def undo():
        urllib.request.urlopen = orig_urlopen
        zl.SchemaLoader = orig_schema_loader
    return RecConfigLoader, RecSchemaLoader, undo


# ------------------------------------------------------------------ scenarios

APP_SCHEMA = """\
<schema datatype="%(dt)ssection_dt">
  <abstracttype name="ext"/>
  <sectiontype name="sec" datatype="%(dt)ssection_dt">
    <key name="k" datatype="%(dt)scounting"/>
    <multikey name="m" datatype="%(dt)scounting"/>
    <multisection type="sec" name="*" attribute="subs"/>
  </sectiontype>
  <key name="a" datatype="%(dt)scounting"/>
  <multikey name="b" datatype="%(dt)scounting"/>
  <multisection type="sec" name="*" attribute="secs"/>
  <multisection type="ext" name="*" attribute="exts"/>
</schema>
""" % {"dt": DT}

COMPONENT = """\
<component>
  <import package="%(pkg)s" file="extra.xml"/>
  <sectiontype name="imp" implements="ext" extends="impbase"
               datatype="%(dt)ssection_dt">
    <key name="x" datatype="%(dt)scounting" default="dx"/>
  </sectiontype>
</component>
"""

EXTRA = """\
<component>
  <sectiontype name="impbase" keytype="%(dt)scounting_key">
    <key name="y" datatype="%(dt)scounting" default="dy"/>
    <key name="z"/>
  </sectiontype>
</component>
"""


EXTRA2 = """\
<component>
  <import package="%(pkg)s" file="extra.xml"/>
  <sectiontype name="imp2" extends="impbase">
    <key name="w" default="dw"/>
  </sectiontype>
</component>
"""


def tree_shapes(n):
    """All rooted ordered trees with n nodes as nested tuples of children."""
    if n == 1:
        return [()]
    out = []

    def forests(k):
        # ordered forests with k nodes in total
        if k == 0:
            return [()]
        res = []
        for first in range(1, k + 1):
            for t in tree_shapes(first):
                for rest in forests(k - first):
                    res.append((t,) + rest)
        return res
    for f in forests(n - 1):
        out.append(f)
    return out


def shape_name(t):
    return "(" + "".join(shape_name(c) for c in t) + ")"


def tree_files(shape):
    """Include tree -> files.  The first child of a node is included inside
    the node's <sec> section, the others after it at the node's own level."""
    files = {}
    counter = [0]

    def path(i):
        if i == 0:
            return "main.conf"
        return ("sub/" if i % 2 else "") + "n%d.conf" % i

    def build(t, ctx):
        i = counter[0]
        counter[0] += 1
        me = path(i)
        key = "b" if ctx == "top" else "m"
        here = os.path.dirname(me)
        lines = ["%s v%d" % (key, i), "<sec>", "  k k%d" % i]
        after = []
        for n, c in enumerate(t):
            child = build(c, "sec" if n == 0 else ctx)
            ref = os.path.relpath(child, here or ".")
            if n == 0:
                lines.append("  %include " + ref)
            else:
                after.append("%include " + ref)
        lines.append("</sec>")
        lines += after
        lines.append("%s w%d" % (key, i))
        files[me] = "".join(x + "\n" for x in lines)
        return me
    build(shape, "top")
    return files


def config_scenarios(pkg, max_nodes=5):
    """name -> {relative path: text}; 'main.conf' is loaded."""
    out = _fixed_config_scenarios(pkg)
    for n in range(2, max_nodes + 1):
        for sh in tree_shapes(n):
            out["tree" + shape_name(sh)] = tree_files(sh)
    return out


def _fixed_config_scenarios(pkg):
    return {
        "chain5": {
            "main.conf": "a 1\n%include i1.conf\nb 2\n<sec>\n  k 3\n"
                         "  %include sub/i3.conf\n</sec>\nb 9\n",
            "i1.conf": "b 4\n%include sub/i2.conf\nb 5\n",
            "sub/i2.conf": "<sec two>\n m 6\n m 7\n</sec>\n",
            "sub/i3.conf": "m 8\n%include ../i4.conf\n",
            "i4.conf": "<sec four>\n  k 10\n</sec>\n",
        },
        "twice": {
            "main.conf": "%include i1.conf\n<sec>\n%include i1.conf\n</sec>\n"
                         "a 1\n",
            "i1.conf": "%define x 7\n<sec>\nk $x\n</sec>\n",
        },
        "import": {
            "main.conf": "%%import %s\na 1\n<imp>\n x 2\n y 3\n Z 4\n</imp>\n"
                         "%%include i1.conf\n" % pkg,
            "i1.conf": "<imp second/>\n%%import %s\nb 5\n" % pkg,
        },
        "single": {
            "main.conf": "a 1\nb 2\n<sec>\nk 3\n</sec>\n",
        },
    }


def schema_scenarios(pkg):
    """name -> {relative path: text}; 'top.xml' is loaded."""
    kt = DT + "counting_key"
    return {
        "extends+src+package": {
            "top.xml": "<schema extends='base.xml'>\n"
                       " <import src='sub/types.xml'/>\n"
                       " <section type='t1' name='*' attribute='s1'/>\n"
                       " <section type='impbase' name='*' attribute='s2'/>\n"
                       " <key name='own' default='o'/>\n</schema>\n",
            "base.xml": "<schema keytype='%s'>\n <key name='FromBase' "
                        "default='b'/>\n <key name='other'/>\n</schema>\n" % kt,
            "sub/types.xml": "<schema>\n <import package='%s' "
                             "file='extra2.xml'/>\n"
                             " <sectiontype name='t1' keytype='%s'>\n"
                             "  <key name='kx' default='1'/>\n"
                             "  <key name='ky'/>\n </sectiontype>\n"
                             "</schema>\n" % (pkg, kt),
        },
        "two-bases": {
            "top.xml": "<schema extends='b1.xml sub/b2.xml' keytype='%s'>\n"
                       " <key name='k0'/>\n</schema>\n" % kt,
            "b1.xml": "<schema keytype='%s'><key name='k1'/>"
                      "<import src='sub/more.xml'/></schema>" % kt,
            "sub/b2.xml": "<schema keytype='%s'><key name='k2'/>"
                          "<key name='k3' default='d'/></schema>" % kt,
            "sub/more.xml": "<schema><sectiontype name='mt' keytype='%s'>"
                            "<key name='mk'/></sectiontype></schema>" % kt,
        },
        "single": {
            "top.xml": "<schema keytype='%s'><key name='k0'/>"
                       "<key name='k1'/></schema>" % kt,
        },
        "extends-chain4": {
            "top.xml": "<schema extends='sub/b1.xml' keytype='%s'>"
                       "<key name='k0'/></schema>" % kt,
            "sub/b1.xml": "<schema extends='../b2.xml' keytype='%s'>"
                          "<key name='k1'/></schema>" % kt,
            "b2.xml": "<schema extends='sub/b3.xml' keytype='%s'>"
                      "<key name='k2'/></schema>" % kt,
            "sub/b3.xml": "<schema keytype='%s'><key name='k3'/>"
                          "<key name='k4'/></schema>" % kt,
        },
        "src-chain4": {
            "top.xml": "<schema><import src='sub/t1.xml'/>"
                       "<section type='a1' name='*' attribute='s'/></schema>",
            "sub/t1.xml": "<schema><import src='../t2.xml'/><sectiontype "
                          "name='a1' keytype='%s'><key name='x'/>"
                          "<section type='a2' name='*' attribute='s'/>"
                          "</sectiontype></schema>" % kt,
            "t2.xml": "<schema><import src='sub/t3.xml'/><sectiontype "
                      "name='a2' keytype='%s'><key name='y'/><section "
                      "type='a3' name='*' attribute='s'/></sectiontype>"
                      "</schema>" % kt,
            "sub/t3.xml": "<schema><sectiontype name='a3' keytype='%s'>"
                          "<key name='z'/></sectiontype></schema>" % kt,
        },
        "mixed5": {
            "top.xml": "<schema extends='b1.xml'>"
                       "<import package='%s' file='extra2.xml'/>"
                       "<section type='imp2' name='*' attribute='i'/>"
                       "</schema>" % pkg,
            "b1.xml": "<schema keytype='%s'><import src='sub/t1.xml'/>"
                      "<key name='k1'/></schema>" % kt,
            "sub/t1.xml": "<schema extends='../b2.xml'><sectiontype "
                          "name='a1' keytype='%s'><key name='x'/>"
                          "</sectiontype></schema>" % kt,
            "b2.xml": "<schema keytype='%s'><key name='unused'/></schema>"
                      % kt,
        },
    }


def write_tree(root, files):
    for rel, text in files.items():
        p = os.path.join(root, rel)
        os.makedirs(os.path.dirname(p), exist_ok=True)
        with open(p, "w") as f:
            f.write(text)


def make_package(root, pkg):
    d = os.path.join(root, pkg)
    os.makedirs(d)
    with open(os.path.join(d, "__init__.py"), "w") as f:
        f.write("")
    with open(os.path.join(d, "component.xml"), "w") as f:
        f.write(COMPONENT % {"pkg": pkg, "dt": DT})
    with open(os.path.join(d, "extra.xml"), "w") as f:
        f.write(EXTRA % {"dt": DT})
    with open(os.path.join(d, "extra2.xml"), "w") as f:
        f.write(EXTRA2 % {"pkg": pkg})
    sys.path.insert(0, root)
    importlib.invalidate_caches()


def drop_package(root, pkg):
    if root in sys.path:
        sys.path.remove(root)
    sys.modules.pop(pkg, None)


# ------------------------------------------------------------------ images

def schema_image(s):
    def dtname(d):
        return getattr(d, "__name__", None) or type(d).__name__

    def defaults(ci):
        try:
            d = ci.getdefault()
        except Exception as e:      # noqa: BLE001
            return "err:" + type(e).__name__
        if d is None:
            return None
        if isinstance(d, dict):
            return sorted((str(k), [x.value for x in v] if isinstance(v, list)
                           else v.value) for k, v in d.items())
        if isinstance(d, list):
            return [getattr(x, "value", x) for x in d]
        return getattr(d, "value", d)

    def typ(t):
        if t.isabstract():
            return ("abstract", t.name, t.getsubtypenames())
        kids = []
        for key, ci in t:
            kids.append((key, type(ci).__name__, ci.name, ci.attribute,
                         ci.minOccurs, repr(ci.maxOccurs),
                         ci.sectiontype.name if ci.issection()
                         else dtname(ci.datatype), defaults(ci)))
        return ("type", t.name, dtname(t.keytype), dtname(t.datatype), kids)
    return (typ(s), [typ(s.gettype(n)) for n in sorted(s.gettypenames())])


# ------------------------------------------------------------------ checks

def closure_problems(tracker):
    out = []
    for j, url, r, proxy in tracker.resources:
        if not proxy.closed:
            out.append(("resource-left-open", j, url))
        elif not r.closed:
            out.append(("resource-not-marked-closed", j, url))
    for s in tracker.streams:
        if not s.is_closed:
            out.append(("stream-left-open", s._idx, s.url))
    for u in tracker.late_stream:
        out.append(("stream-open-while-parsing", None, u))
    return out


def role(url):
    """How the leaked resource entered the load (from the scenario's file
    naming): one root cause per kind of edge."""
    u = str(url)
    if u.startswith("package:"):
        return "component"
    b = os.path.basename(u)
    if b in ("main.conf", "top.xml"):
        return "top"
    if b.endswith(".conf"):
        return "included"
    if b.startswith("b"):
        return "base-schema"
    return "imported-schema"


def short(url, root):
    return str(url).replace("file://" + root, "<root>").replace(root, "<root>")


def failure_points(counts, excs_read, kinds):
    """All single failure points for a baseline run."""
    pts = []
    if "read" in kinds:
        for j, n in sorted(counts["reads"].items()):
            for i in range(1, n + 1):
                for e in excs_read:
                    pts.append(("read", j, i, e))
    if "open" in kinds:
        for j in range(1, counts["nopen"] + 1):
            for e in (OSError(5, "injected I/O error"),
                      urllib.error.URLError("injected"), Boom("open")):
                pts.append(("open", j, None, e))
            for e in (OSError(5, "injected read error"), Boom("stream")):
                pts.append(("stream-read", j, None, e))
    for name in ("conv", "key", "sect"):
        if name in kinds:
            for k in range(1, counts[name] + 1):
                for e in (ValueError("injected"), Boom(name)):
                    pts.append((name, k, None, e))
    return pts


def arm(tracker, pt):
    dt_faulty.reset()
    if pt is None:
        tracker.reset(None)
    elif pt[0] in ("conv", "key", "sect"):
        tracker.reset(None)
        dt_faulty.reset(**{pt[0]: (pt[1], pt[3])})
    else:
        tracker.reset(pt)


def snapshot(tracker):
    return {"reads": dict(tracker.reads), "nopen": tracker.nopen,
            "nres": tracker.nres, "conv": dt_faulty.state["conv"],
            "key": dt_faulty.state["key"], "sect": dt_faulty.state["sect"]}


def attempt(fn):
    try:
        return ("ok", fn())
    except BaseException as e:      # noqa: BLE001
        if isinstance(e, (KeyboardInterrupt, SystemExit)):
            raise
        return ("exc", e)


def ptname(pt):
    return "%s#%s%s:%s" % (pt[0], pt[1], "" if pt[2] is None
                           else ".%d" % pt[2], type(pt[3]).__name__)


def run_config_scenario(col, ZConfig, tracker, RecCL, RecSL, root, name,
                        files, via):
    sdir = os.path.join(root, "cfg_" + name + "_" + via)
    write_tree(sdir, files)
    spath = os.path.join(sdir, "app-schema.xml")
    with open(spath, "w") as f:
        f.write(APP_SCHEMA)
    main = os.path.join(sdir, "main.conf")

    def load(loader):
        if via == "url":
            return cs.value_tree(loader.loadURL(main)[0])
        f = open(main)
        return cs.value_tree(loader.loadFile(f)[0])

    arm(tracker, None)
    schema = RecSL().loadURL(spath)
    arm(tracker, None)
    base = attempt(lambda: load(RecCL(schema)))
    counts = snapshot(tracker)
    inp0 = {"scenario": "config:" + name, "via": via,
            "files": dict(files, **{"app-schema.xml": APP_SCHEMA})}
    if base[0] != "ok":
        col.violation("C19:scenario-broken", "fault-free load fails", inp0,
                      "ok", repr(base[1]))
        return
    pb = closure_problems(tracker)
    col.case(("cfg", name, via, "no-fault"), None)
    for p in pb:
        col.violation("C19:%s:no-fault" % p[0], "after a successful load",
                      inp0, "closed", [p[0], short(p[2], root)])
    for pt in failure_points(counts, (Boom("read"), OSError(5, "injected")),
                             ("read", "open", "conv", "sect", "key")):
        arm(tracker, pt)
        loader = RecCL(schema)
        res = attempt(lambda: load(loader))
        fired = tracker.fired or pt[0] in ("conv", "key", "sect")
        # did the load end inside ConfigLoader.importSchemaComponent?
        in_import = res[0] != "ok" and any(
            (m, f) == ("loader", "importSchemaComponent")
            for m, f, _ in zconfig_frames(res[1]))
        inp = dict(inp0, failure=ptname(pt),
                   resources=[short(u, root) for _, u, _, _ in
                              tracker.resources])
        col.case(("cfg", name, via, ptname(pt)),
                 {"scenario": "config:" + name, "via": via,
                  "failure": ptname(pt), "result": res[0] if res[0] == "ok"
                  else type(res[1]).__name__}
                 if col.evaluations % 97 == 0 else None)
        if res[0] == "ok" and fired:
            # the injected failure was swallowed
            col.violation("C19:failure-swallowed:" + pt[0],
                          "an injected failure did not end the load", inp,
                          "exception", "returned")
        for p in closure_problems(tracker):
            col.violation("C19:%s:%s" % (p[0], role(p[2])),
                          "after a load that failed at %s" % ptname(pt), inp,
                          "everything opened is closed",
                          [p[0], short(p[2], root)])
        # later loads: same loader object, then a new loader on the same
        # schema object; both must give the fault-free result
        arm(tracker, None)
        again = attempt(lambda: load(loader))
        if again != base:
            col.violation("C19:configloader-reuse-after-failed-import"
                          if in_import else
                          "C19:later-load-differs:same-configloader:" + pt[0],
                          "a ConfigLoader that was used "
                          "for a failed load gives another result afterwards",
                          inp, "the fault-free result",
                          repr(again[1])[:300])
        arm(tracker, None)
        fresh = attempt(lambda: load(RecCL(schema)))
        if fresh != base:
            col.violation("C19:later-load-differs:same-schema:" + pt[0],
                          "the schema object gives another result after a "
                          "failed configuration load", inp,
                          "the fault-free result", repr(fresh[1])[:300])


def run_schema_scenario(col, ZConfig, tracker, RecCL, RecSL, root, name,
                        files, via):
    sdir = os.path.join(root, "sch_" + name + "_" + via)
    write_tree(sdir, files)
    top = os.path.join(sdir, "top.xml")

    def load(loader):
        if via == "url":
            return loader.loadURL(top)
        return loader.loadFile(open(top))

    arm(tracker, None)
    base = attempt(lambda: schema_image(load(RecSL())))
    counts = snapshot(tracker)
    inp0 = {"scenario": "schema:" + name, "via": via, "files": files}
    if base[0] != "ok":
        col.violation("C19:scenario-broken", "fault-free load fails", inp0,
                      "ok", repr(base[1]))
        return
    col.case(("sch", name, via, "no-fault"), None)
    for p in closure_problems(tracker):
        col.violation("C19:%s:no-fault" % p[0], "after a successful load",
                      inp0, "closed", [p[0], short(p[2], root)])
    fresh_images = {}

    def fresh_image(url):
        if url not in fresh_images:
            arm(tracker, None)
            fresh_images[url] = attempt(
                lambda: schema_image(ZConfig.loader.SchemaLoader()
                                     .loadURL(url)))
        return fresh_images[url]

    for pt in failure_points(counts, (Boom("read"), OSError(5, "injected")),
                             ("read", "open", "key")):
        arm(tracker, pt)
        loader = RecSL()
        res = attempt(lambda: load(loader))
        inp = dict(inp0, failure=ptname(pt),
                   resources=[short(u, root) for _, u, _, _ in
                              tracker.resources])
        col.case(("sch", name, via, ptname(pt)), None)
        fired = tracker.fired or pt[0] == "key"
        if res[0] == "ok" and fired:
            col.violation("C19:failure-swallowed:" + pt[0],
                          "an injected failure did not end the load", inp,
                          "exception", "returned")
        for p in closure_problems(tracker):
            col.violation("C19:%s:%s" % (p[0], role(p[2])),
                          "after a schema load that failed at %s" % ptname(pt),
                          inp, "everything opened is closed",
                          [p[0], short(p[2], root)])
        # the cache must hold no half-built schema
        if res[0] != "ok":
            for url, sch in list(loader._cache.items()):
                img = attempt(lambda: schema_image(sch))
                if url is None or img != fresh_image(url):
                    col.violation("C19:schemaloader-cache-half-built",
                                  "after a failed load the SchemaLoader cache "
                                  "holds a schema that differs from a fresh "
                                  "load of the same URL", inp,
                                  short(url, root), repr(img[1])[:300])
        arm(tracker, None)
        again = attempt(lambda: schema_image(load(loader)))
        if again != base:
            col.violation("C19:later-load-differs:same-schemaloader",
                          "a SchemaLoader that was used for a failed load "
                          "gives another schema afterwards", inp,
                          "the fault-free schema", repr(again[1])[:300])


def work(item):
    ZConfig = use_repo()
    kind, name, via = item
    col = Collector()
    tracker = Tracker()
    root = tempfile.mkdtemp(prefix="c19_", dir=cs.fast_tmp())
    pkg = "c19pkg_%d_%s" % (os.getpid(), abs(hash((kind, name, via))) % 9973)
    RecCL, RecSL, undo = instrument(ZConfig, tracker)
    try:
        make_package(root, pkg)
        if kind == "config":
            run_config_scenario(col, ZConfig, tracker, RecCL, RecSL, root,
                                name, config_scenarios(pkg)[name], via)
        else:
            run_schema_scenario(col, ZConfig, tracker, RecCL, RecSL, root,
                                name, schema_scenarios(pkg)[name], via)
        out = col.partial()
        out["distinct"] = [hash(x) for x in out["distinct"]]
        return out
    finally:
        undo()
        dt_faulty.reset()
        drop_package(root, pkg)
        shutil.rmtree(root, ignore_errors=True)


def run(tier, seed):
    use_repo()
    items = []
    quick = tier == "quick"
    for name in config_scenarios("p", 5):
        for via in ("url", "file"):
            if quick and name.startswith("tree") and \
                    (len(name) - 4) // 2 == 5 and via == "file":
                continue    # 5-node trees through loadFile: thorough only
            items.append(("config", name, via))
    for name in schema_scenarios("p"):
        for via in ("url", "file"):
            items.append(("schema", name, via))
    col = Collector()
    for part in pmap(work, items, chunksize=1):
        col.merge(part)
    return col.result(
        bound="configuration scenarios: ALL include trees (rooted ordered "
              "trees) over 2..5 resources, first child included inside a "
              "section, files alternating between the directory and sub/, "
              "plus 4 fixed ones (include chain over 5 resources with "
              "sub/parent directories and includes inside sections; one "
              "resource included twice; %%import of a 2-file component plus "
              "%%include; single file); 6 schema scenarios (extends chain of "
              "4; import-src chain of 4; extends + src + package mix; extends + "
              "import src + import package (2 files) over 5 resources; two "
              "bases, one importing a further schema; single file), each "
              "through "
              "loadURL and loadFile; for each EVERY single failure point: "
              "every read step of every resource (2 exception classes), every "
              "urlopen (3 classes), every raw stream read (2), every "
              "createResource, every value conversion and every section / "
              "schema datatype call (configs), every key-type conversion "
              "(schemas) (ValueError and an unknown exception each); "
              "exhaustive within the scenarios, independent of seed",
        rule="case = one load with one injected failure (plus the fault-free "
             "run); distinct by (scenario, entry point, failure point, "
             "exception class); each case also re-runs the fault-free load "
             "on the same loader and on a new loader")
