"""C20 stand-in: logger / eventlog sections produce exactly the configured
logging setup, once.

Four bounded families (all through ``ZConfig.loadConfigFile`` and the section
factories, checked against a reference written from the C20 statement, the
logger component's descriptions in handlers.xml / base-logger.xml and the
standard library's own ``logging`` formatting):

* levels   - every documented level name in several letter cases and the
             integers -2..52, as logger, eventlog and handler level
* handlers - {STDOUT, STDERR, temp file} x {plain, size rotation, timed
             rotation, inconsistent option sets} x delay x encoding
* formats  - field names x conversion types x escapes of the four styles,
             with and without arbitrary-fields
* histories- configurations with an optional eventlog and 1..2 loggers with
             0..3 logfile handlers each, driven by operation sequences of
             length <= 6 over {call factory, reopen, close all, drop}
"""
import gc
import io
import itertools
import logging
import logging.handlers
import os
import random
import shutil
import string
import sys
import tempfile
import time

from standins.common import Collector, pmap, use_repo

PROPERTY = "C20"

SCHEMA = ('<schema><import package="ZConfig.components.logger"/>'
          '<section type="eventlog" name="*" attribute="eventlog"/>'
          '<multisection type="logger" name="*" attribute="loggers"/>'
          '</schema>')

# documented: base-logger.xml (order list), handlers.xml (all=1, trace=5,
# blather=15), Python's standard level numbers for the standard names
LEVELS = {"critical": 50, "fatal": 50, "error": 40, "warn": 30,
          "warning": 30, "info": 20, "blather": 15, "debug": 10, "trace": 5,
          "all": 1, "notset": 0}
DEFAULT_DATEFMT = "%Y-%m-%dT%H:%M:%S"
DEFAULT_FORMAT = "------\n%(asctime)s %(levelname)s %(name)s %(message)s"

_schema = [None]


def schema():
    if _schema[0] is None:
        import ZConfig
        _schema[0] = ZConfig.loadSchemaFile(io.StringIO(SCHEMA))
    return _schema[0]


def ref_level(text):
    """Number for a level spelling, or None if it must be rejected."""
    low = text.lower()
    if low in LEVELS:
        return LEVELS[low]
    try:
        v = int(text)
    except ValueError:
        return None
    return v if 0 <= v <= 50 else None


def ref_bool(text):
    return {"yes": True, "true": True, "on": True,
            "no": False, "false": False, "off": False}.get(text.lower())


# ------------------------------------------------------------ configurations

class HSpec:
    """One <logfile> section."""

    def __init__(self, path, **kw):
        self.path = path            # STDOUT | STDERR | file path
        self.max_size = kw.get("max_size")      # text or None
        self.old_files = kw.get("old_files")
        self.when = kw.get("when")
        self.interval = kw.get("interval")
        self.delay = kw.get("delay")
        self.encoding = kw.get("encoding")
        self.level = kw.get("level")
        self.format = kw.get("format")
        self.style = kw.get("style")
        self.arbitrary = kw.get("arbitrary")

    def text(self, pad="  "):
        out = [pad + "<logfile>", pad + "  path " + self.path]
        for key, v in (("max-size", self.max_size),
                       ("old-files", self.old_files), ("when", self.when),
                       ("interval", self.interval), ("delay", self.delay),
                       ("encoding", self.encoding), ("level", self.level),
                       ("style", self.style),
                       ("arbitrary-fields", self.arbitrary)):
            if v is not None:
                out.append("%s  %s %s" % (pad, key, v))
        if self.format is not None:
            # '$' starts a substitution in configuration values
            out.append("%s  format %s" % (pad,
                                          self.format.replace("$", "$$")))
        out.append(pad + "</logfile>")
        return "\n".join(out)

    # reference ------------------------------------------------------------
    def num(self, v, table=None):
        if v is None:
            return 0
        low = v.lower()
        for suf, m in (("kb", 1024), ("mb", 1024 ** 2), ("gb", 1024 ** 3)):
            if table and low.endswith(suf):
                return int(low[:-2]) * m
        return int(v)

    def expected(self):
        """('reject'|'accept'|'either', kind) where kind is std / plain /
        size / timed."""
        max_size = self.num(self.max_size, True)
        old = self.num(self.old_files)
        interval = self.num(self.interval)
        delay = bool(self.delay and ref_bool(self.delay))
        if self.path in ("STDOUT", "STDERR"):
            if max_size or old or self.when or delay or self.encoding:
                return "reject", "std"
            return "accept", "std"
        if not (max_size or old or self.when or interval):
            return "accept", "plain"
        if not old:
            return "reject", None       # rotation needs old-files
        if self.when and max_size:
            return "either", "timed"    # not decided by statement or docs
        if self.when:
            return "accept", "timed"
        if max_size:
            return "accept", "size"
        return "either", "plain"        # old-files / interval without trigger


class LSpec:
    def __init__(self, kind, name=None, level=None, propagate=None,
                 handlers=()):
        self.kind = kind            # logger | eventlog
        self.name = name
        self.level = level
        self.propagate = propagate
        self.handlers = list(handlers)

    def text(self):
        out = ["<%s>" % self.kind]
        if self.name is not None:
            out.append("  name " + self.name)
        if self.level is not None:
            out.append("  level " + self.level)
        if self.propagate is not None:
            out.append("  propagate " + self.propagate)
        for h in self.handlers:
            out.append(h.text())
        out.append("</%s>" % self.kind)
        return "\n".join(out)


def config_text(lspecs):
    return "\n".join(s.text() for s in lspecs) + "\n"


# ------------------------------------------------------------------ formats

FIELDS = ["name", "levelno", "levelname", "pathname", "filename", "module",
          "lineno", "created", "asctime", "msecs", "relativeCreated",
          "thread", "message", "process", "funcName",
          # real LogRecord attributes that the component's table omits
          "threadName", "processName", "msg", "args", "exc_info",
          # not a LogRecord attribute
          "nosuch"]
CLASSIC_CONV = ["s", "r", "d", "5d", "05d", ".2f", "x", "-12s", "10.4s", "c",
                "a", "i", "e", "+d", " s"]
FORMAT_CONV = ["", "!r", "!s", ":>12", ":<5", ":d", ":05d", ":.2f", ":x",
               ":,", ":^9", ":e", "!a", ":%"]
CLASSIC_SPECIAL = ["%%", "100%%", "%", "%(name)", "%(name)s%%", "%s", "%d",
                   "plain text", "%(name)s\\t%(message)s\\n", "%(name)s\\x",
                   "%(asctime)s %(levelname)s %(name)s %(message)s",
                   "%(name)s %(nosuch)s", "%(message)s\\r\\f\\b|"]
FORMAT_SPECIAL = ["{{", "}}", "{{{name}}}", "{}", "{0}", "{name", "name}",
                  "{name!z}", "plain text", "{name}{message}", "{name.upper}",
                  "{args[0]}", "{created:%Y}", "{name}\\n{message}\\t|",
                  "{asctime} {levelname:>8} {message}", "{name} {nosuch}"]
TEMPLATE_FORMS = ["$%s", "${%s}", "$%s.x", "${%s}s"]
TEMPLATE_SPECIAL = ["$$", "$", "${name", "$1", "plain text", "$name $message",
                    "$$name", "$name\\n$message|", "${asctime} $levelname",
                    "$name $nosuch"]


def format_cases():
    out = []
    for f in FIELDS:
        for c in CLASSIC_CONV:
            out.append(("classic", "%%(%s)%s" % (f, c)))
        for c in FORMAT_CONV:
            out.append(("format", "{%s%s}" % (f, c)))
        for t in TEMPLATE_FORMS:
            out.append(("template", t % f))
            out.append(("safe-template", t % f))
    out += [("classic", s) for s in CLASSIC_SPECIAL]
    out += [("format", s) for s in FORMAT_SPECIAL]
    out += [("template", s) for s in TEMPLATE_SPECIAL]
    out += [("safe-template", s) for s in TEMPLATE_SPECIAL]
    return out


def unescape(fmt):
    r"""The documented escapes \b \f \n \r \t."""
    for a, b in (("\\n", "\n"), ("\\t", "\t"), ("\\b", "\b"), ("\\f", "\f"),
                 ("\\r", "\r")):
        fmt = fmt.replace(a, b)
    return fmt


def ordinary_record():
    r = logging.LogRecord("some.logger", logging.WARNING, "/srv/app/mod.py",
                          17, "hello %s", ("world",), None, func="fn")
    r.created = 1700000000.25
    r.msecs = 250.0
    return r


def reference_render(style, fmt, record):
    """Rendering of an ordinary record by the standard library alone."""
    d = dict(record.__dict__)
    d["message"] = record.getMessage()
    d["asctime"] = time.strftime(DEFAULT_DATEFMT,
                                 time.localtime(record.created))
    if style == "classic":
        return fmt % d
    if style == "format":
        return fmt.format_map(d)
    if style == "template":
        return string.Template(fmt).substitute(d)
    return string.Template(fmt).safe_substitute(d)


# ------------------------------------------------------------------- harness

class Env:
    """Isolation of one case: std streams, root logger, registry, names."""

    def __init__(self):
        from ZConfig.components.logger import loghandler
        self.loghandler = loghandler

    def __enter__(self):
        self.out, self.err = sys.stdout, sys.stderr
        self.fake_out, self.fake_err = io.StringIO(), io.StringIO()
        sys.stdout, sys.stderr = self.fake_out, self.fake_err
        root = logging.getLogger()
        self.root_level = root.level
        self.root_handlers = root.handlers[:]
        self.loghandler.closeFiles()
        self.loggers = []
        self.raise_exc = logging.raiseExceptions
        return self

    def __exit__(self, *exc):
        sys.stdout, sys.stderr = self.out, self.err
        root = logging.getLogger()
        for lg in self.loggers + [root]:
            for h in lg.handlers[:]:
                if lg is root and h in self.root_handlers:
                    continue
                lg.removeHandler(h)
                try:
                    h.close()
                except Exception:      # noqa: BLE001
                    pass
        root.setLevel(self.root_level)
        self.loghandler.closeFiles()
        for lg in self.loggers:
            if lg is not root:
                lg.setLevel(logging.NOTSET)
                lg.propagate = True
                logging.Logger.manager.loggerDict.pop(lg.name, None)
        logging.raiseExceptions = self.raise_exc
        gc.collect()
        return False


def load(text):
    import ZConfig
    try:
        cfg, _ = ZConfig.loadConfigFile(schema(), io.StringIO(text))
    except ZConfig.ConfigurationError as e:
        return None, "%s: %s" % (type(e).__name__, str(e)[:120])
    except Exception as e:      # noqa: BLE001
        return None, "raw %s: %s" % (type(e).__name__, str(e)[:120])
    return cfg, None


def factories(cfg, lspecs):
    """[(LSpec, factory)] in document order of each kind."""
    out = []
    loggers = list(cfg.loggers)
    for s in lspecs:
        if s.kind == "eventlog":
            out.append((s, cfg.eventlog))
        else:
            out.append((s, loggers.pop(0)))
    return out


_TMP = [None]


def clean(x):
    """Temp directory names must not leak into the (deterministic) report."""
    if _TMP[0] and isinstance(x, str):
        return x.replace(_TMP[0], "$TMP")
    if isinstance(x, (list, tuple)):
        return [clean(v) for v in x]
    return x


class Checker:
    def __init__(self, col, text):
        self.col = col
        self.text = clean(text)

    def bad(self, sig, what, expected, observed):
        self.col.violation(sig, what, self.text, clean(expected),
                           clean(observed))

    def check_handler(self, h, hs, kind, tmpfiles):
        lh = logging.handlers
        lvl = ref_level(hs.level) if hs.level is not None else 0
        if h.level != lvl:
            self.bad("C20:handler:level", "handler level", lvl, h.level)
        if kind == "std":
            want = sys.stdout if hs.path == "STDOUT" else sys.stderr
            if type(h) is not logging.StreamHandler or h.stream is not want:
                self.bad("C20:handler:class", "STDOUT/STDERR handler",
                         "StreamHandler on the standard stream", repr(h))
            return
        cls = {"plain": logging.FileHandler,
               "size": lh.RotatingFileHandler,
               "timed": lh.TimedRotatingFileHandler}[kind]
        ok = isinstance(h, cls)
        if kind == "plain" and isinstance(h, lh.BaseRotatingHandler):
            ok = False
        if not ok:
            self.bad("C20:handler:class", "handler class for " + kind,
                     cls.__name__, type(h).__name__)
            return
        if os.path.abspath(h.baseFilename) != os.path.abspath(hs.path):
            self.bad("C20:handler:path", "file name", hs.path, h.baseFilename)
        delay = bool(hs.delay and ref_bool(hs.delay))
        if bool(h.delay) != delay or (h.stream is None) != delay:
            self.bad("C20:handler:delay", "delayed opening",
                     "delay=%s" % delay,
                     "delay=%s stream=%r" % (h.delay, h.stream))
        if hs.encoding and h.encoding != hs.encoding:
            self.bad("C20:handler:encoding", "encoding", hs.encoding,
                     h.encoding)
        if kind == "size":
            want = (hs.num(hs.max_size, True), hs.num(hs.old_files))
            if (h.maxBytes, h.backupCount) != want:
                self.bad("C20:handler:rotation", "maxBytes/backupCount",
                         want, (h.maxBytes, h.backupCount))
        if kind == "timed":
            want = (hs.when.upper(), hs.num(hs.old_files))
            if (h.when, h.backupCount) != want:
                self.bad("C20:handler:rotation", "when/backupCount", want,
                         (h.when, h.backupCount))

    def check_format(self, h, hs):
        fmt = unescape(hs.format) if hs.format is not None else DEFAULT_FORMAT
        style = (hs.style or "classic").lower()
        rec = ordinary_record()
        arb = bool(hs.arbitrary and ref_bool(hs.arbitrary))
        try:
            want = reference_render(style, fmt, rec)
        except Exception as e:      # noqa: BLE001
            want = e
        if h.formatter is None:
            self.bad("C20:format:no-formatter", "handler without formatter",
                     "a formatter", None)
            return
        try:
            got = h.format(rec)
        except Exception as e:      # noqa: BLE001
            if not arb:
                self.bad("C20:format:raises-on-ordinary-record",
                         "format accepted at load time (arbitrary-fields off)"
                         " raises when an ordinary record is formatted",
                         "no exception", "%s: %s" % (type(e).__name__, e))
            return
        if isinstance(want, Exception):
            # the configured style cannot render this record at all
            self.bad("C20:format:rendering:" + style,
                     "the formatter renders a record that the configured"
                     " style cannot render",
                     "%s: %s" % (type(want).__name__, want), got)
        elif got != want:
            self.bad("C20:format:rendering:" + style,
                     "rendered text differs from the configured format",
                     want, got)


def call_first(ck, spec, factory, env, tmpfiles):
    """First call of a factory: every property C20 states.  Returns
    (logger, handlers) or None."""
    root = logging.getLogger()
    before = root.handlers[:] if spec.kind == "eventlog" else []
    try:
        logger = factory()
    except Exception as e:      # noqa: BLE001
        sig = "C20:factory:raises"
        what = "calling the factory of an accepted configuration raised"
        if isinstance(e, ValueError) and "format" in str(e).lower():
            sig = "C20:format:accepted-at-load-but-formatter-build-raises"
            what = ("format accepted at load time cannot be used to build"
                    " the formatter")
        ck.bad(sig, what, "a logger", "%s: %s" % (type(e).__name__, e))
        # handlers created before the failure are still registered
        return None
    env.loggers.append(logger)
    if spec.kind == "eventlog":
        if logger is not root:
            ck.bad("C20:logger:name", "eventlog is the root logger", "root",
                   logger.name)
    else:
        if logger.name != spec.name or logger is not logging.getLogger(
                spec.name):
            ck.bad("C20:logger:name", "logger name", spec.name, logger.name)
        want = True if spec.propagate is None else ref_bool(spec.propagate)
        if logger.propagate is not want and logger.propagate != want:
            ck.bad("C20:logger:propagate", "propagate flag", want,
                   logger.propagate)
    lvl = ref_level(spec.level) if spec.level is not None else LEVELS["info"]
    if logger.level != lvl:
        ck.bad("C20:logger:level", "numeric level of the logger", lvl,
               logger.level)
    handlers = [h for h in logger.handlers if h not in before]
    if not spec.handlers:
        # a do-nothing placeholder is not a handler for a section
        if not (handlers == [] or (len(handlers) == 1 and isinstance(
                handlers[0], logging.NullHandler))):
            ck.bad("C20:handlers:count", "no handler sections",
                   "no emitting handler", repr(handlers))
        return logger, []
    if len(handlers) != len(spec.handlers):
        ck.bad("C20:handlers:count", "one handler per handler section",
               len(spec.handlers), repr(handlers))
        return logger, handlers
    for h, hs in zip(handlers, spec.handlers):
        ck.check_handler(h, hs, hs.expected()[1], tmpfiles)
        ck.check_format(h, hs)
    return logger, handlers


def is_file_handler(h):
    return isinstance(h, logging.FileHandler)


# ------------------------------------------------------------- case families

def run_simple(col, lspecs, expect, tmpfiles=(), key=None):
    """Load, compare acceptance, call every factory twice."""
    text = config_text(lspecs)
    ck = Checker(col, text)
    col.case(key=key)
    with Env() as env:
        cfg, err = load(text)
        if cfg is None:
            if expect == "accept":
                sig = "C20:load:rejects-valid"
                if "level" in err.lower() and "range" in err.lower():
                    sig = "C20:level:rejects-valid"
                ck.bad(sig, "valid configuration rejected", "accepted", err)
            return "rejected"
        if expect == "reject":
            return "accepted-invalid"
        for spec, factory in factories(cfg, lspecs):
            res = call_first(ck, spec, factory, env, tmpfiles)
            if res is None:
                continue
            logger, handlers = res
            n = len(logger.handlers)
            again = factory()
            if again is not logger or len(logger.handlers) != n:
                ck.bad("C20:factory:second-call", "second factory call",
                       "same logger, %d handlers" % n,
                       "%r, %d handlers" % (again, len(logger.handlers)))
        del cfg
    return "accepted"


def level_cases(seed):
    rnd = random.Random("lv/%d" % seed)
    spellings = []
    for name in LEVELS:
        mixed = "".join(c.upper() if rnd.random() < 0.5 else c for c in name)
        for s in {name, name.upper(), name.capitalize(), mixed}:
            spellings.append(s)
    spellings += [str(i) for i in range(-2, 53)]
    spellings += ["warnx", "1.5", "0x10", "+7", "007", "5 0", "none"]
    return [("level", target, s) for target in ("logger", "eventlog",
                                                "handler")
            for s in spellings]


def do_level(col, item, uniq, tmp):
    _fam, target, s = item
    name = "c20.%s.lv" % uniq
    if target == "handler":
        spec = LSpec("logger", name=name,
                     handlers=[HSpec("STDERR", level=s,
                                     format="%(message)s")])
    elif target == "logger":
        spec = LSpec("logger", name=name, level=s)
    else:
        spec = LSpec("eventlog", level=s)
    want = ref_level(s)
    res = run_simple(col, [spec], "accept" if want is not None else "reject",
                     key="level|%s|%s" % (target, s))
    if res == "accepted-invalid":
        sig = "C20:level:accepts-out-of-range" if s.lstrip("+-").isdigit() \
            else "C20:level:accepts-unknown-name"
        col.violation(sig, "level spelling must be rejected",
                      clean(config_text([spec])), "rejected", "accepted")


WHENS = ["D", "h", "midnight", "W0", "S", "M"]


def handler_cases():
    out = []
    paths = ["STDOUT", "STDERR", "FILE"]
    option_sets = [
        ("plain", {}),
        ("size", {"max_size": "1kb", "old_files": "3"}),
        ("size-int", {"max_size": "500", "old_files": "1"}),
        ("timed", {"when": "D", "old_files": "2"}),
        ("timed-interval", {"when": "h", "old_files": "2", "interval": "3"}),
        ("timed-midnight", {"when": "midnight", "old_files": "7"}),
        ("timed-w0", {"when": "W0", "old_files": "1"}),
        ("max-size-only", {"max_size": "1kb"}),
        ("when-only", {"when": "D"}),
        ("old-files-only", {"old_files": "2"}),
        ("interval-only", {"interval": "2"}),
        ("both", {"max_size": "1kb", "when": "D", "old_files": "2"}),
        ("explicit-zero", {"max_size": "0", "old_files": "0"}),
    ]
    for p in paths:
        for oname, opts in option_sets:
            if p != "FILE" and "interval" in opts:
                continue        # 'interval' is not named by the statement
            for delay in (None, "true", "false", "On"):
                for enc in (None, "utf-8", "latin-1"):
                    out.append(("handler", p, oname, opts, delay, enc))
    return out


def do_handler(col, item, uniq, tmp):
    _fam, p, oname, opts, delay, enc = item
    path = p if p != "FILE" else os.path.join(tmp, "h_%s.log" % uniq)
    hs = HSpec(path, delay=delay, encoding=enc, format="%(message)s", **opts)
    spec = LSpec("logger", name="c20.%s.h" % uniq, handlers=[hs])
    verdict, _kind = hs.expected()
    res = run_simple(col, [spec], verdict if verdict != "either" else "any",
                     key="handler|%s|%s|%s|%s" % (p, oname, delay, enc))
    if res == "accepted-invalid":
        if p != "FILE":
            sig = "C20:stdstream:accepts-file-option"
            what = ("max-size / old-files / when / delay / encoding must be"
                    " refused for STDOUT/STDERR")
        else:
            sig = "C20:rotation:accepts-without-old-files"
            what = "rotation of a file requires old-files"
        col.violation(sig, what, clean(config_text([spec])), "rejected",
                      "accepted")


def do_format(col, item, uniq, tmp):
    _fam, style, fmt, arb = item
    hs = HSpec("STDERR", format=fmt, style=style,
               arbitrary="true" if arb else None)
    spec = LSpec("logger", name="c20.%s.f" % uniq, handlers=[hs])
    # acceptance is not prescribed; an accepted format must work
    run_simple(col, [spec], "any", key="format|%s|%s|%s" % (style, fmt, arb))


# ----------------------------------------------------------------- histories

def random_handler(rnd, tmp, uniq, k):
    p = rnd.choice(["STDOUT", "STDERR", "FILE", "FILE", "FILE"])
    if p != "FILE":
        return HSpec(p, level=rnd.choice([None, "warn", "10"]),
                     format=rnd.choice([None, "%(name)s:%(message)s"]))
    path = os.path.join(tmp, "s_%s_%d.log" % (uniq, k))
    kind = rnd.choice(["plain", "plain", "size", "timed"])
    kw = {"delay": rnd.choice([None, "true", "false"]),
          "encoding": rnd.choice([None, "utf-8"]),
          "level": rnd.choice([None, "ERROR", "trace", "33"]),
          "format": rnd.choice([None, "%(levelname)s %(message)s",
                                "{name}|{message}", "$name $message"])}
    if kw["format"] and kw["format"].startswith("{"):
        kw["style"] = "format"
    if kw["format"] and kw["format"].startswith("$"):
        kw["style"] = rnd.choice(["template", "safe-template"])
    if kind == "size":
        kw.update(max_size=rnd.choice(["1kb", "2MB", "100"]),
                  old_files=rnd.choice(["1", "3"]))
    if kind == "timed":
        kw.update(when=rnd.choice(WHENS), old_files=rnd.choice(["1", "4"]))
        if rnd.random() < 0.4:
            kw["interval"] = rnd.choice(["1", "2"])
    return HSpec(path, **kw)


def history_case(seed, i, tmp, uniq):
    rnd = random.Random("hist/%d/%d" % (seed, i))
    lspecs = []
    if rnd.random() < 0.4:
        lspecs.append(LSpec("eventlog", level=rnd.choice([None, "debug",
                                                          "WARN", "12"]),
                            handlers=[random_handler(rnd, tmp, uniq, 90 + k)
                                      for k in range(rnd.randint(0, 2))]))
    for j in range(rnd.randint(1, 2)):
        lspecs.append(LSpec(
            "logger", name="c20.%s.l%d" % (uniq, j),
            level=rnd.choice([None, "Info", "all", "0", "50"]),
            propagate=rnd.choice([None, "no", "yes", "Off", "TRUE"]),
            handlers=[random_handler(rnd, tmp, uniq, j * 10 + k)
                      for k in range(rnd.randint(0, 3))]))
    rnd.shuffle(lspecs)
    if i < 40:
        # exhaustive short sequences on the first configurations
        seqs = list(itertools.product("crxd", repeat=3))
        ops = seqs[(i * 7) % len(seqs)] + tuple(
            rnd.choice("crxd") for _ in range(3))
    else:
        ops = tuple(rnd.choice("ccrxd") for _ in range(rnd.randint(1, 6)))
    return lspecs, ops, rnd


def do_history(col, item, uniq, tmp):
    _fam, seed, i = item
    lspecs, ops, rnd = history_case(seed, i, tmp, uniq)
    text = config_text(lspecs) + "# ops: " + "".join(ops) + "\n"
    ck = Checker(col, text)
    col.case(key="history|%d" % i)
    with Env() as env:
        lh = env.loghandler
        cfg, err = load(config_text(lspecs))
        if cfg is None:
            ck.bad("C20:load:rejects-valid", "valid configuration rejected",
                   "accepted", err)
            return
        facs = factories(cfg, lspecs)
        del cfg
        created = {}        # index -> (logger, handlers)
        dropped = set()
        alive = []          # file handlers expected in the registry
        closed = set()      # ids of file handlers closed by closeFiles

        def registry():
            return [wr() for wr in lh._reopenable_handlers]

        def check_registry(after):
            col.evaluations += 1
            got = registry()
            if any(h is None for h in got) and after != "reopen-pending":
                pass
            live = [h for h in got if h is not None]
            if sorted(map(id, live)) != sorted(id(h) for h in alive
                                               if id(h) not in closed):
                ck.bad("C20:registry:after-" + after,
                       "registry of reopenable handlers differs from the"
                       " file handlers still alive",
                       [h.baseFilename for h in alive
                        if id(h) not in closed],
                       [h.baseFilename for h in live])

        # every operation runs in its own frame so that no local variable
        # keeps a handler alive after a drop
        def op_call():
            k = rnd.randrange(len(facs))
            if k in dropped:
                return True
            spec, factory = facs[k]
            if k not in created:
                res = call_first(ck, spec, factory, env, ())
                if res is None:
                    return False
                created[k] = res
                alive.extend(h for h in res[1] if is_file_handler(h))
                if rnd.random() < 0.5:
                    rec = ordinary_record()
                    for h in res[1]:
                        h.handle(rec)
            else:
                logger, handlers = created[k]
                n = len(logger.handlers)
                again = factory()
                if again is not logger or len(logger.handlers) != n:
                    ck.bad("C20:factory:second-call",
                           "second factory call",
                           "same logger, %d handlers" % n,
                           "%r, %d handlers" % (again, len(logger.handlers)))
            return True

        def op_reopen():
            snap = [(h, h.stream) for h in alive]
            try:
                lh.reopenFiles()
            except Exception as e:      # noqa: BLE001
                ck.bad("C20:reopen:raises", "reopenFiles raised",
                       "no exception", "%s: %s" % (type(e).__name__, e))
                return False
            for h, old in snap:
                if id(h) in closed:
                    if h.stream is not None and not h.stream.closed:
                        ck.bad("C20:reopen:touches-closed-handler",
                               "reopen acted on a closed handler",
                               "stream stays closed", repr(h.stream))
                    continue
                if old is None:
                    want_open = False
                    if isinstance(h, logging.handlers.BaseRotatingHandler):
                        want_open = not h.delay
                    if (h.stream is not None) != want_open:
                        ck.bad("C20:reopen:unopened-handler",
                               "reopen of a handler without stream",
                               "open=%s" % want_open, repr(h.stream))
                    continue
                if not old.closed:
                    ck.bad("C20:reopen:old-stream-left-open",
                           "reopen must close the old stream", "closed",
                           repr(old))
                if h.delay:
                    ok = h.stream is None
                else:
                    ok = (h.stream is not None and h.stream is not old
                          and not h.stream.closed)
                if not ok:
                    ck.bad("C20:reopen:stream", "stream after reopen",
                           "None (delay)" if h.delay else "new open file",
                           repr(h.stream))
            return True

        def op_close():
            try:
                lh.closeFiles()
            except Exception as e:      # noqa: BLE001
                ck.bad("C20:close:raises", "closeFiles raised",
                       "no exception", "%s: %s" % (type(e).__name__, e))
                return False
            for h in alive:
                closed.add(id(h))
                if h.stream is not None and not h.stream.closed:
                    ck.bad("C20:close:stream-left-open",
                           "closeFiles left a file open", "closed",
                           repr(h.stream))
            return True

        def op_drop():
            cands = [k for k in created if k not in dropped]
            if not cands:
                return True
            k = rnd.choice(cands)
            logger, handlers = created[k]
            for h in handlers:
                logger.removeHandler(h)
            gone = [id(h) for h in handlers]
            alive[:] = [h for h in alive if id(h) not in gone]
            closed.difference_update(gone)      # ids may be reused
            dropped.add(k)
            facs[k] = (facs[k][0], None)    # the factory caches its product
            created[k] = (logger, [])
            del handlers[:]
            return True

        table = {"c": (op_call, "call"), "r": (op_reopen, "reopen"),
                 "x": (op_close, "close"), "d": (op_drop, "drop")}
        for op in ops:
            fn, label = table[op]
            if not fn():
                break
            gc.collect()
            check_registry(label)
            if env.fake_out.closed or env.fake_err.closed:
                ck.bad("C20:stdstream:closed", "a standard stream was closed",
                       "open", "closed")
                break
        del alive[:]
        created.clear()


# --------------------------------------------------------------------- run

FAMILIES = {"level": do_level, "handler": do_handler, "format": do_format,
            "history": do_history}


def work(chunk):
    use_repo()
    tmp, seed, start, items = chunk
    _TMP[0] = tmp
    col = Collector()
    logging.raiseExceptions = False
    for n, item in enumerate(items):
        uniq = "s%d.n%d" % (seed, start + n)
        FAMILIES[item[0]](col, item, uniq.replace(".", "_"), tmp)
    return col.partial()


def run(tier, seed):
    use_repo()
    col = Collector()
    nhist = 20000 if tier == "thorough" else 2500
    items = level_cases(seed) + handler_cases()
    for arb in (False, True):
        items += [("format", s, f, arb) for s, f in format_cases()]
    items += [("history", seed, i) for i in range(nhist)]
    counts = {}
    for it in items:
        counts[it[0]] = counts.get(it[0], 0) + 1
    tmp = tempfile.mkdtemp(prefix="c20_")
    try:
        size = 40
        chunks = [(tmp, seed, i, items[i:i + size])
                  for i in range(0, len(items), size)]
        parts = pmap(work, chunks, chunksize=1)
    finally:
        shutil.rmtree(tmp, ignore_errors=True)
    for p in parts:
        col.merge(p)
    return col.result(
        bound="levels: %(level)d configurations (11 documented names x up to"
              " 4 letter cases, integers -2..52, 7 malformed spellings; as"
              " logger, eventlog and handler level); handlers: %(handler)d"
              " single-handler configurations ({STDOUT, STDERR, temp file} x"
              " 13 option sets x 4 delay spellings x 3 encodings); formats:"
              " %(format)d configurations (21 field names x 15/14/4"
              " conversions of the four styles + escapes, arbitrary-fields"
              " off and on); histories: %(history)d configurations (0..1"
              " eventlog, 1..2 loggers, 0..3 logfile handlers each) with"
              " operation sequences of length <= 6 over {call, reopen, close"
              " all, drop}" % counts,
        rule="a case is one loaded configuration (plus one evaluation per"
             " registry comparison in a history); all generated"
             " configurations are distinct. Checked: logger identity / name,"
             " numeric level, propagate, one handler per section in order"
             " (class, target, level, delay, encoding, rotation parameters),"
             " formatter output equal to the standard library's rendering of"
             " the configured format, second factory call, rejection of"
             " levels outside 0..50 and of file options on STDOUT/STDERR,"
             " rotation without old-files, registry and streams after"
             " reopen / close / drop. Not decided by statement or docs and"
             " therefore accepted either way: a single NullHandler"
             " placeholder for a logger without handler sections; when +"
             " max-size together; old-files or interval without a rotation"
             " trigger; explicit 'delay false', 'max-size 0', 'old-files 0'"
             " on STDOUT/STDERR count as not specifying the option; the"
             " exception class of a rejected configuration")
