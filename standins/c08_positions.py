"""C08 stand-in: a rejected configuration names the resource and line that
caused the rejection.

For accepted corpus texts exactly ONE fault of each kind listed in the
statement is injected at every applicable line position, so the culprit line
is known by construction; the text is then loaded (a) as one file, (b) with
the culprit moved into an included file (which counts its own lines), (c)
with an include in front of the culprit, (d) through two include levels.  The
raised error must be a ConfigurationError with ``.lineno`` == culprit line
(1-based within its resource) and ``.url`` == URL of that resource; a
DataConversionError additionally carries ``.value`` (the offending text) and
``.exception`` (the original ValueError).
"""
import os
import pathlib
import random
import shutil
import tempfile

from standins.common import Collector, pmap, use_repo
from standins.refmodel import corpus_small as cs
from standins.c06_include import Doc, Inc, apply_cut, render, MAIN

PROPERTY = "C08"


class L(str):
    """A line of text carrying its role; identity is used to find the
    culprit again after lines were moved into included files."""
    role = "other"

    def __new__(cls, text, role="other"):
        o = str.__new__(cls, text)
        o.role = role
        return o


def role_of(l):
    return "other" if isinstance(l, Inc) else l.role


def balanced(lines):
    """All (i, j) balanced w.r.t. the roles open/close."""
    n = len(lines)
    out = []
    for i in range(n):
        d = 0
        for j in range(i, n):
            r = role_of(lines[j])
            if r == "open":
                d += 1
            elif r == "close":
                d -= 1
                if d < 0:
                    break
            if d == 0:
                out.append((i, j + 1))
    return out


# ------------------------------------------------------------------ faults

class Fault:
    def __init__(self, kind, form, lines, culprit, value=None, dce=False,
                 emptyform=False):
        self.kind = kind
        self.form = form
        self.lines = lines          # list[L]
        self.culprit = culprit      # the L object that is the culprit
        self.value = value          # expected .value of a DataConversionError
        self.dce = dce
        self.emptyform = emptyform


def container_at(lines, p, root):
    if p >= len(lines):
        return root
    l = lines[p]
    return l.node if l.role == "close" else l.container


def accepts(sch, container, tname, name):
    """Does some slot of the container accept a <tname name> section
    (docs: fixed name -> that name; '*' -> any or none; '+' -> named)?"""
    tm = container.tmodel
    for it in sch.items_of(tm):
        if it.is_key:
            continue
        conc = [t.name for t in sch.concrete(it.type)]
        if tname not in conc:
            continue
        if it.name == "*":
            return True
        if it.name == "+":
            if name:
                return True
        elif name and name.lower() == it.name:
            return True
    return False


def has_wildcard(sch, container):
    return any(it.is_key and it.name == "+"
               for it in sch.items_of(container.tmodel))


def _mk(lines):
    return [L(l.text, l.role if l.role in ("open", "close") else "other")
            for l in lines]


def _ins(base, p, texts, roles=None):
    """copy of base with new lines inserted before index p."""
    new = [L(t, (roles[k] if roles else "other"))
           for k, t in enumerate(texts)]
    out = list(base)
    out[p:p] = new
    return out, new


def _ind(lines, p):
    if p < len(lines):
        t = lines[p].text
        d = lines[p].depth + (1 if lines[p].role == "close" else 0)
    else:
        d = 0
    return "  " * d


def faults_for(sch, lines, root, rng, per_kind):
    """Yield Fault objects for the valid text ``lines`` (list of cs.Line)."""
    n = len(lines)
    base = _mk(lines)
    positions = list(range(n + 1))

    def some(seq, k):
        seq = list(seq)
        if len(seq) <= k:
            return seq
        return rng.sample(seq, k)

    # defined names in reading order
    defined_before = []
    cur = []
    for l in lines:
        defined_before.append(list(cur))
        if l.role == "define":
            cur.append(l.node.name)
    defined_before.append(list(cur))

    # K1 malformed syntax line ------------------------------------------
    forms = ["<bogus", "</bogus", "<>", "(x y", "<a b c>", "</nosuch>",
             ")k v", "<a(b>"]
    for p in positions:
        for f in some(forms, per_kind):
            new, ins = _ins(base, p, [_ind(lines, p) + f])
            yield Fault("syntax", f, new, ins[0])
    # K2 bad directive ----------------------------------------------------
    forms = ["%foo bar", "%", "%define", "%include", "%import",
             "%define 1x v", "% define a b", "%DEFINE a b"]
    for p in positions:
        for f in some(forms, per_kind):
            new, ins = _ins(base, p, [_ind(lines, p) + f])
            yield Fault("directive", f, new, ins[0])
        if defined_before[p]:
            nm = rng.choice(defined_before[p])
            f = "%%define %s zz-other-value" % rng.choice([nm, nm.upper()])
            new, ins = _ins(base, p, [f])
            yield Fault("directive", "redefine", new, ins[0])
    # K3 undefined $name --------------------------------------------------
    for p in positions:
        for f in some(["%define zz9 a$nope_x", "%include $nope_x",
                       "%include ${nope_x}/f.conf"], per_kind):
            new, ins = _ins(base, p, [f])
            yield Fault("undefined-name", f.split()[0], new, ins[0])
    for i, l in enumerate(lines):
        if l.role == "key":
            for v in some(["$nope_x", "a ${NOPE_X} b", "$$ $nope_x"],
                          per_kind):
                new = list(base)
                new[i] = L(l.text[:len(l.text) - len(l.text.lstrip())]
                           + l.node.key + " " + v)
                yield Fault("undefined-name", "key-value", new, new[i])
    # K4 malformed substitution -------------------------------------------
    bad = ["$", "${a", "$(", "x ${1}", "$-", "a $", "${}", "$(a"]
    for i, l in enumerate(lines):
        if l.role == "key":
            for v in some(bad, per_kind):
                new = list(base)
                new[i] = L(l.node.key + " " + v)
                yield Fault("subst-syntax", "key-value " + v, new, new[i])
    for p in some(positions, 3):
        for v in some(bad, per_kind):
            new, ins = _ins(base, p, ["%define zz9 " + v])
            yield Fault("subst-syntax", "define " + v, new, ins[0])
    # K5 unknown key --------------------------------------------------------
    for p in positions:
        c = container_at(lines, p, root)
        if not has_wildcard(sch, c):
            for f in some(["nosuchkey v", "nosuchkey", "NoSuchKey 1 2"],
                          per_kind):
                new, ins = _ins(base, p, [_ind(lines, p) + f])
                yield Fault("unknown-key", "insert", new, ins[0])
    # K6 repeated single key --------------------------------------------------
    for i, l in enumerate(lines):
        if l.role != "key" or l.node.item is None or l.node.item.multi:
            continue
        # (a copy placed ahead of a definition it uses would be a second,
        # different fault)
        gaps = [q for q in positions
                if container_at(lines, q, root) is l.container
                and set(l.node.uses) <= {x.lower()
                                         for x in defined_before[q]}]
        for q in some(gaps, max(3, per_kind)):
            key = l.node.key
            if l.container.ci_keys and rng.random() < 0.5:
                key = key.upper()
            val = l.node.value
            new, ins = _ins(base, q, [_ind(lines, q) + key +
                                       (" " + val if val else "")])
            culprit = ins[0] if q > i else base[i]
            yield Fault("repeated-key", "copy", new, culprit)
    # K7 unconvertible key (identifier key type) -----------------------------
    for p in positions:
        c = container_at(lines, p, root)
        if sch.keytype_of(c.tmodel) == "identifier":
            for k in some(["bad-key", "9x", "a.b", "k:v"], per_kind):
                new, ins = _ins(base, p, [_ind(lines, p) + k + " v"])
                yield Fault("bad-key", k, new, ins[0], value=k, dce=True)
    # K8 unconvertible value ---------------------------------------------------
    for i, l in enumerate(lines):
        if l.role == "key" and l.node.item is not None \
                and l.node.item.dt in cs.BAD_VALUES:
            for v in some(cs.BAD_VALUES[l.node.item.dt], per_kind):
                new = list(base)
                new[i] = L("\t" + l.node.key + "   " + v + "  ")
                yield Fault("bad-value", l.node.item.dt, new, new[i],
                            value=v, dce=True)
    # K9 unknown section header --------------------------------------------------
    for p in positions:
        ind = _ind(lines, p)
        for f in some([0, 1, 2], per_kind):
            if f == 0:
                new, ins = _ins(base, p, [ind + "<nosuchtype>",
                                          ind + "</nosuchtype>"],
                                ["open", "close"])
            elif f == 1:
                new, ins = _ins(base, p, [ind + "<nosuchtype/>"])
            else:
                new, ins = _ins(base, p, [ind + "<NoSuchType nm>",
                                          ind + "  k v",
                                          ind + "</NoSuchType>"],
                                ["open", "other", "close"])
            yield Fault("unknown-section", "form%d" % f, new, ins[0])
    # K10 misplaced section header ---------------------------------------------------
    tnames = [t.name for t in sch.types]
    for p in positions:
        c = container_at(lines, p, root)
        ind = _ind(lines, p)
        cands = []
        for tn in tnames:
            for nm in (None, "zq1", "main", "primary"):
                t = sch.type(tn)
                if t.abstract or not accepts(sch, c, tn, nm):
                    cands.append((tn, nm))
        for tn, nm in some(cands, max(2, per_kind)):
            hdr = tn + (" " + nm if nm else "")
            if rng.random() < 0.5:
                new, ins = _ins(base, p, [ind + "<%s>" % hdr,
                                          ind + "</%s>" % tn],
                                ["open", "close"])
            else:
                new, ins = _ins(base, p, [ind + "<%s/>" % hdr])
            yield Fault("misplaced-section",
                        "abstract" if sch.type(tn).abstract else "slot",
                        new, ins[0])
    # K11 closing line reveals a missing required item ---------------------------------
    for i, l in enumerate(lines):
        if l.role not in ("open", "empty"):
            continue
        sec = l.node
        req = [it for it in sch.items_of(sec.tmodel) if it.required]
        if not req:
            continue
        # the '<t/>' spelling: replace the whole section by one line
        j = i
        if l.role == "open":
            j = next(k for k in range(i, n)
                     if lines[k].role == "close" and lines[k].node is sec)
        hdr = sec.type + (" " + sec.name if sec.name else "")
        new = list(base)
        new[i:j + 1] = [L(l.text[:len(l.text) - len(l.text.lstrip())]
                          + "<%s/>" % hdr)]
        yield Fault("missing-required", "emptyform", new, new[i],
                    emptyform=True)
        # '<t>' + '</t>' with nothing in between
        new = list(base)
        new[i:j + 1] = [L("<%s>" % hdr, "open"),
                        L("</%s>" % sec.type, "close")]
        yield Fault("missing-required", "open-close", new, new[i + 1])
        if l.role != "open":
            continue
        # remove the lines of one required item only
        for it in req:
            drop = set()
            k = i + 1
            while k < j:
                lk = lines[k]
                if lk.container is sec:
                    if it.is_key and lk.role == "key" and lk.node.item is it:
                        drop.add(k)
                    if (not it.is_key and lk.role in ("open", "empty")
                            and lk.node.slot is it):
                        e = k
                        if lk.role == "open":
                            e = next(m for m in range(k, n)
                                     if lines[m].role == "close"
                                     and lines[m].node is lk.node)
                        # definitions inside the dropped section stay (they
                        # are global and may be used further down)
                        drop.update(m for m in range(k, e + 1)
                                    if lines[m].role != "define")
                        k = e
                k += 1
            if not drop:
                continue
            new = [x for k, x in enumerate(base) if k not in drop]
            yield Fault("missing-required",
                        "key" if it.is_key else "section", new, base[j])
    # K12 closing line reveals a surplus item ----------------------------------------------
    for i, l in enumerate(lines):
        if l.role not in ("open", "empty"):
            continue
        sec = l.node
        slot = sec.slot
        j = i
        if l.role == "open":
            j = next(k for k in range(i, n)
                     if lines[k].role == "close" and lines[k].node is sec)
        copy = [L(x.text, x.role if x.role in ("open", "close") else "other")
                for x in lines[i:j + 1] if x.role != "define"]
        if slot.multi and not sec.name:
            continue       # a second unnamed member of a multisection is fine
        if not slot.multi and slot.name == "*" and sec.name:
            # single '*' slot: give the copy another name -> "too many"
            copy[0] = L("<%s zq9>" % sec.type if l.role == "open"
                        else "<%s zq9/>" % sec.type, copy[0].role)
        new = list(base)
        new[j + 1:j + 1] = copy
        yield Fault("surplus-item",
                    "emptyform" if l.role == "empty" else "open-close",
                    new, copy[-1], emptyform=(l.role == "empty"))


# ------------------------------------------------------------------ variants

def variants(f, rng):
    """Yield (name, docs) placing the culprit in main / included files."""
    lines = f.lines
    c = next(k for k, x in enumerate(lines) if x is f.culprit)
    yield "main", [Doc(MAIN, list(lines))]
    rs = balanced(lines)
    cont = [(i, j) for (i, j) in rs if i <= c < j]
    before = [(i, j) for (i, j) in rs if j <= c]
    pl = lambda: rng.choice(["same", "sub", "parent"])   # noqa: E731
    if cont:
        small = min(cont, key=lambda r: r[1] - r[0])
        docs = [Doc(MAIN, list(lines))]
        apply_cut(docs, 0, small[0], small[1], pl(), 1, 0)
        yield "included-smallest", docs
        i, j = rng.choice(cont)
        docs = [Doc(MAIN, list(lines))]
        apply_cut(docs, 0, i, j, pl(), 1, 0)
        yield "included", docs
        # two levels
        big = [r for r in cont if r[1] - r[0] >= 2]
        if big:
            i, j = rng.choice(big)
            docs = [Doc(MAIN, list(lines))]
            apply_cut(docs, 0, i, j, pl(), 1, 0)
            inner = balanced(docs[1].lines)
            if inner:
                a, b = rng.choice(inner)
                apply_cut(docs, 1, a, b, pl(), 2, 0)
                yield "nested", docs
    if before:
        i, j = rng.choice(before)
        docs = [Doc(MAIN, list(lines))]
        apply_cut(docs, 0, i, j, pl(), 1, 0)
        yield "after-include", docs


def locate(docs, culprit):
    for d in docs:
        for k, x in enumerate(d.lines):
            if x is culprit:
                return d, k + 1
    raise AssertionError("culprit lost")


def check(col, ZConfig, schema, sname, root, n, f, vname, docs):
    sub = os.path.join(root, "p%d" % n)
    for d in docs:
        p = os.path.join(sub, d.relpath)
        os.makedirs(os.path.dirname(p), exist_ok=True)
        with open(p, "w", encoding="utf-8") as fh:
            fh.write(render(d))
    doc, lineno = locate(docs, f.culprit)
    url = pathlib.Path(os.path.abspath(os.path.join(sub, doc.relpath))).as_uri()
    err = None
    try:
        try:
            ZConfig.loadConfig(schema, os.path.join(sub, MAIN))
        except Exception as e:      # noqa: BLE001
            err = e
    finally:
        shutil.rmtree(sub, ignore_errors=True)
    files = {d.relpath: render(d) for d in docs}
    inp = {"schema": sname, "fault": f.kind, "form": f.form,
           "variant": vname, "files": files,
           "culprit": [doc.relpath, lineno]}
    key = (sname, f.kind, f.form, vname, hash(tuple(sorted(files.items()))))
    col.case(key, inp if col.evaluations % 1499 == 0 else None)
    inc = "" if doc.relpath == MAIN and len(docs) == 1 else ":with-include"
    exp = {"lineno": lineno, "url": "<url of %s>" % doc.relpath}

    def viol(sig, what, observed):
        col.violation(sig, what, inp, exp, observed)

    if err is None:
        viol("C08:%s:accepted" % f.kind,
             "text with an injected fault was accepted", "accepted")
        return
    if not isinstance(err, ZConfig.ConfigurationError):
        viol("C08:%s:escaped-%s" % (f.kind, type(err).__name__),
             "not a ConfigurationError", repr(err))
        return
    got_line = getattr(err, "lineno", None)
    got_url = getattr(err, "url", None)
    obs = {"class": type(err).__name__, "lineno": got_line,
           "url": (got_url.replace(pathlib.Path(os.path.abspath(sub)).as_uri(), "<root>")
                   if isinstance(got_url, str) else got_url),
           "message": str(err.message)[:120]}
    if got_line is None or (isinstance(got_line, int) and got_line < 0):
        if f.kind == "subst-syntax":
            sig = "C08:subst-syntax-no-position"
        elif f.emptyform:
            sig = "C08:emptyform-no-lineno"
        else:
            sig = "C08:%s:no-lineno" % f.kind
        viol(sig, "error carries no line number", obs)
        return
    if got_line != lineno:
        viol("C08:%s:lineno-wrong%s" % (f.kind, inc),
             "error names another line than the culprit", obs)
        return
    if not got_url:
        viol("C08:%s:url-missing%s" % (f.kind, inc),
             "error carries no URL", obs)
        return
    if got_url != url:
        viol("C08:%s:url-wrong%s" % (f.kind, inc),
             "error names another resource than the culprit's", obs)
        return
    if f.dce:
        if not isinstance(err, ZConfig.DataConversionError):
            viol("C08:%s:not-DataConversionError" % f.kind,
                 "conversion failure not reported as DataConversionError",
                 obs)
            return
        if getattr(err, "value", None) != f.value:
            obs["value"] = repr(getattr(err, "value", None))
            exp["value"] = f.value
            viol("C08:%s:value-wrong" % f.kind,
                 "DataConversionError.value is not the offending text", obs)
            return
        ex = getattr(err, "exception", None)
        if not isinstance(ex, ValueError) or ex is err:
            obs["exception"] = repr(ex)
            viol("C08:%s:exception-missing" % f.kind,
                 "DataConversionError.exception is not the original "
                 "ValueError", obs)


def work(item):
    ZConfig = use_repo()
    si, seed, per_kind = item
    sch = cs.SCHEMAS[si]
    schema = cs.load_schema(sch)
    rng = random.Random("c08:%d:%d" % (si, seed))
    col = Collector()
    root = tempfile.mkdtemp(prefix="c08_", dir=cs.fast_tmp())
    n = 0
    try:
        text, lines, tree = cs.gen_text(sch, seed, rich=(seed % 3 != 2))
        for f in faults_for(sch, lines, tree, rng, per_kind):
            for vname, docs in variants(f, rng):
                n += 1
                check(col, ZConfig, schema, sch.name, root, n, f, vname, docs)
        return col.partial()
    finally:
        shutil.rmtree(root, ignore_errors=True)


# characters that str.splitlines() treats as line boundaries but a text file's readline() does not:
# the statement counts LINES OF THE RESOURCE, i.e. what '\n' separates
ODD_BREAKS = ["\x0b", "\x0c", "\x1c", "\x1d", "\x1e", "\x85", "\u2028", "\u2029"]
ODD_SCHEMA = '<schema><key name="a"/><key name="b" datatype="integer"/><multikey name="c"/></schema>'


def odd_linebreaks(col):
    """Directed: a value containing a character of ODD_BREAKS on an earlier line does not shift the
    line number reported for a fault on a later line (and the value keeps the character)."""
    import io
    ZConfig = use_repo()
    schema = cs.load_schema(ODD_SCHEMA)
    for ch in ODD_BREAKS:
        for k in (1, 2, 3):
            head = "".join("c x%sy%s\n" % (ch, ch if i % 2 else "") for i in range(k))
            for fault, want_cls in (("b notint\n", "DataConversionError"), ("zz 1\n", "ConfigurationError"),
                                    ("a $undefined\n", "SubstitutionReplacementError"), ("<nosuch>\n", "ConfigurationError")):
                text = head + fault
                col.case(("odd", ch, k, fault))
                try:
                    ZConfig.loadConfigFile(schema, io.StringIO(text), url="file:///odd.conf")
                    got = ("accepted", None, None)
                except ZConfig.ConfigurationError as e:
                    got = (type(e).__name__, getattr(e, "lineno", None), getattr(e, "url", None))
                except Exception as e:                                        # noqa: BLE001
                    got = ("escaped:" + type(e).__name__, None, None)
                if got[1] != k + 1 or got[2] != "file:///odd.conf" or got[0].startswith("escaped") or got[0] == "accepted":
                    col.violation("C08:line-count-shifted-by-unusual-line-boundary-characters",
                                  "a fault on line %d (after %d lines whose values contain %r) is not reported at that line"
                                  % (k + 1, k, ch), {"text": text, "url": "file:///odd.conf"},
                                  [want_cls, k + 1, "file:///odd.conf"], list(got))
        # and the value itself is not cut at the character
        try:
            cfg, _ = ZConfig.loadConfigFile(schema, io.StringIO("a x%sy\n" % ch))
            if cfg.a != "x%sy" % ch:
                col.violation("C08:value-cut-at-unusual-line-boundary-character", "value differs",
                              {"text": "a x%sy\n" % ch}, "x%sy" % ch, cfg.a)
        except Exception as e:                                            # noqa: BLE001
            col.violation("C08:value-cut-at-unusual-line-boundary-character", "rejected",
                          {"text": "a x%sy\n" % ch}, "accepted", type(e).__name__)


def run(tier, seed):
    use_repo()
    quick = tier == "quick"
    nseeds = 6 if quick else 30
    per_kind = 2 if quick else 8
    items = [(si, seed * 1000 + s, per_kind)
             for si in range(len(cs.SCHEMAS)) for s in range(nseeds)]
    col = Collector()
    odd_linebreaks(col)
    for part in pmap(work, items, chunksize=1):
        col.merge(part)
    return col.result(
        bound="directed: 4 fault kinds after 1..3 lines whose values contain one of the 8 characters that "
              "str.splitlines() (but not readline()) treats as a line boundary; "
              "10 corpus schemas x %d accepted texts; 12 fault kinds "
              "(malformed line, bad directive, undefined $name, malformed "
              "substitution, unknown key, repeated single key, unconvertible "
              "key under identifier key type, unconvertible value, unknown "
              "section, misplaced section, missing required item revealed "
              "by the closing line, surplus item revealed by the closing "
              "line; '<t/>' and '<t>'+'</t>' spellings) at EVERY applicable "
              "line position with %d forms per position; each loaded as one "
              "file, with the culprit in an included file (smallest and a "
              "random enclosing balanced range), behind an include, and "
              "through two include levels" % (nseeds, per_kind),
        rule="case = (faulty text, file split); culprit known by "
             "construction (object identity of the injected line); distinct "
             "= distinct (schema, fault kind, form, variant, file contents)")
