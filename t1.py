import sys, time
sys.path.insert(0, '/verif')
from pyvc.executor import Executor
from pyvc import backend
import contracts.errors, contracts.substitution
ex = Executor()
t0=time.time()
rep = ex.generate(sys.argv[1] if len(sys.argv)>1 else 'substitution._split')
print(rep.status, rep.reason, 'paths', rep.paths, 'obls', len(rep.obligations), 'gen %.1fs'%(time.time()-t0))
t0=time.time()
backend.solve_all(rep.obligations, timeout_ms=20000)
for ob in rep.obligations:
    print(ob.result['status'], ob.result.get('backend'), '%.2f'%ob.result['time'], ob.id, '|', ob.info.get('claim','')[:70])
    if ob.result['status']=='sat': print('   MODEL', (ob.result.get('model') or '')[:400])
print('solve %.1fs'%(time.time()-t0))
