"""replay for D13 (fixed by a8dc912): an empty <default></default> whose conversion fails must give a
DataConversionError when a configuration is loaded, not a TypeError.  usage: PYTHONPATH=/repo/src /venv/bin/python findings/C07_empty_default.py"""
import ZConfig, io
for xml in ['<schema><multikey name="a" datatype="integer"><default></default></multikey></schema>',
            '<schema><key name="+" attribute="m" datatype="integer"><default key="x"></default></key></schema>']:
    try:
        s = ZConfig.loadSchemaFile(io.StringIO(xml))
        try:
            c,_ = ZConfig.loadConfigFile(s, io.StringIO(''))
            print('loaded', getattr(c,'a',None), getattr(c,'m',None))
        except ZConfig.ConfigurationError as e:
            print('cfgerr', type(e).__name__, e)
        except Exception as e:
            print('ESCAPED at load', type(e).__name__, e)
    except ZConfig.ConfigurationError as e:
        print('schemaerr', type(e).__name__, e)
    except Exception as e:
        print('ESCAPED at schema', type(e).__name__, e)
