"""Replay of known finding KF-C14-override-imported-type against the real code.

An override that addresses a section whose TYPE was contributed by a `%import` line of the
configuration being read is rejected ('unknown type name'), although the same text edited by hand
is accepted: cmdline.OptionBag.get_section_info looks the type up in the schema the options were
cooked with (the application schema), not in the private schema of this load.
(The repository's own test test_zip_import_component_from_config asserts this behaviour, so it is
recorded, not repaired.)   usage: PYTHONPATH=<tree>/src python findings/C14_override_imported_type.py
exit 1 = the finding reproduces, 0 = it does not."""
import io
import os
import shutil
import sys
import tempfile

d = tempfile.mkdtemp(prefix='zc_kf_')
try:
    os.mkdir(os.path.join(d, 'vpkgkf'))
    open(os.path.join(d, 'vpkgkf', '__init__.py'), 'w').close()
    with open(os.path.join(d, 'vpkgkf', 'component.xml'), 'w') as f:
        f.write("<component><sectiontype name='impl1' implements='abs'><key name='k' default='d'/></sectiontype></component>")
    sys.path.insert(0, d)
    import ZConfig
    schema = ZConfig.loadSchemaFile(io.StringIO(
        "<schema><abstracttype name='abs'/><multisection type='abs' name='*' attribute='things'/></schema>"))
    edited = "%import vpkgkf\n<impl1 a>\n k 9\n</impl1>\n"
    text = "%import vpkgkf\n<impl1 a>\n k 1\n</impl1>\n"
    c1, _ = ZConfig.loadConfigFile(schema, io.StringIO(edited))
    try:
        c2, _ = ZConfig.loadConfigFile(schema, io.StringIO(text), overrides=['a/k=9'])
        same = [s.k for s in c1.things] == [s.k for s in c2.things]
        print('override accepted; equal to the edited text:', same)
        sys.exit(0 if same else 1)
    except ZConfig.ConfigurationError as e:
        print('edited text accepted, override rejected:', type(e).__name__, e)
        sys.exit(1)
finally:
    shutil.rmtree(d)
