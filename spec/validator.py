"""Specification functions for validator.main (C07)."""
from pyvc.specapi import recursive


def checked_files(argv_files, stdin_is_tty, stdin):
    """the files the validator examines: those named; standard input when none is named and it is not a terminal"""
    return argv_files if len(argv_files) > 0 else ([] if stdin_is_tty else [stdin])


@recursive(['Seq[Ref[File]]', 'int'], 'int')
def count_bad(files, i):
    """number of invalid files among files[i:]"""
    if i >= len(files):
        return 0
    return (1 if files[i].cfg_bad else 0) + count_bad(files, i + 1)
