from pyvc.specapi import opaque, recursive

"""Specification side of schema objects and matching (properties C01, C02, C10, C12).

Child kinds (from the statement): a child of a section type is a key, a
multikey, a wildcard key ('+'), a wildcard multikey, a section slot or a
multisection slot."""


def allowed_name(slot_name, name):
    """C01 name rule for a section header name against a slot named slot_name:
    never '*' or '+' themselves; '+' = name mandatory; '*' = name optional;
    otherwise the fixed name."""
    if name == '*' or name == '+':
        return False
    if slot_name == '+':
        return name is not None and name != ''
    if slot_name == '*':
        return True
    return name == slot_name


@opaque(['Opt[str]', 'Ref[info.BaseInfo]', 'str', 'Opt[str]'], 'int', reveal=['info.SectionType.getsectioninfo'])
def slot_case(key, info, type_, name):
    """How one child of a section type reacts to a section header (type_, name) -
    C01/C12: 0 = not this child, 1 = this child takes the section, 2 = the header is
    rejected.  A keyed child (fixed name) claims its NAME and then the type must
    fit; an unkeyed slot ('*' / '+') claims by TYPE: the slot's own type, or - for
    an abstract slot - a type registered as implementing it (never the abstract
    type itself, never a type that is merely derived from an implementer)."""
    if key is not None and key != '':
        if key != name:
            return 0
        if not isa(info, 'info.SectionInfo'):
            return 2                               # the name is a key's name
        st = cast(info, 'info.SectionInfo').sectiontype
        if isa(st, 'info.AbstractType'):
            subs = cast(st, 'info.AbstractType')._subtypes
            if type_ not in subs:
                return 2
            return 1 if subs[type_].name == type_ else 2
        return 1 if st.name == type_ else 2
    st = cast(info, 'info.SectionInfo').sectiontype
    if st.name == type_:
        # (a header naming an ABSTRACT type never gets here: the loader refuses abstract
        # types before it looks for a slot - contract of ConfigLoader.startSection)
        if (name is not None and name != '') or cast(info, 'info.SectionInfo').name == '*':
            return 1
        return 2                                   # '+' slot: sections must be named
    if isa(st, 'info.AbstractType'):
        return 1 if type_ in cast(st, 'info.AbstractType')._subtypes else 0
    return 0


@recursive(['Ref[info.SectionType]', 'int', 'str', 'Opt[str]'], 'int')
def slot_search(t, i, type_, name):
    """Index of the child that takes the section header (type_, name), searching the
    children in schema order from index i: the first child whose slot_case is not 0
    decides; -2 if it rejects the header, -1 if no child reacts."""
    if i >= len(t._children):
        return -1
    c = slot_case(t._children[i][0], t._children[i][1], type_, name)
    if c == 1:
        return i
    if c == 2:
        return -2
    return slot_search(t, i + 1, type_, name)


@recursive(['Ref[info.SectionType]', 'int'], 'bool')
def children_wf(t, i):
    """Representation invariant of a section type, from child i on: a child without a
    key is a section slot (only sections may be unnamed), and every child has an attribute."""
    if i >= len(t._children):
        return True
    k = t._children[i][0]
    c = t._children[i][1]
    ok = ((k is not None and k != '') or isa(c, 'info.SectionInfo')) and c.attribute is not None
    return ok and children_wf(t, i + 1)
