from pyvc.specapi import opaque, recursive

"""Specification side of schema objects and matching (properties C01, C02, C10, C12).

Child kinds (from the statement): a child of a section type is a key, a
multikey, a wildcard key ('+'), a wildcard multikey, a section slot or a
multisection slot."""


def allowed_name(slot_name, name):
    """C01 name rule for a section header name against a slot named slot_name:
    never '*' or '+' themselves; '+' = name mandatory; '*' = name optional;
    otherwise the fixed name."""
    if name == '*' or name == '+':
        return False
    if slot_name == '+':
        return name is not None and name != ''
    if slot_name == '*':
        return True
    return name == slot_name


@opaque(['Opt[str]', 'Ref[info.BaseInfo]', 'str', 'Opt[str]'], 'int', reveal=['info.SectionType.getsectioninfo'])
def slot_case(key, info, type_, name):
    """How one child of a section type reacts to a section header (type_, name) -
    C01/C12: 0 = not this child, 1 = this child takes the section, 2 = the header is
    rejected.  A keyed child (fixed name) claims its NAME and then the type must
    fit; an unkeyed slot ('*' / '+') claims by TYPE: the slot's own type, or - for
    an abstract slot - a type registered as implementing it (never the abstract
    type itself, never a type that is merely derived from an implementer)."""
    if key is not None and key != '':
        if key != name:
            return 0
        if not isa(info, 'info.SectionInfo'):
            return 2                               # the name is a key's name
        st = cast(info, 'info.SectionInfo').sectiontype
        if isa(st, 'info.AbstractType'):
            subs = cast(st, 'info.AbstractType')._subtypes
            if type_ not in subs:
                return 2
            return 1 if subs[type_].name == type_ else 2
        return 1 if st.name == type_ else 2
    st = cast(info, 'info.SectionInfo').sectiontype
    if st.name == type_:
        # (a header naming an ABSTRACT type never gets here: the loader refuses abstract
        # types before it looks for a slot - contract of ConfigLoader.startSection)
        if (name is not None and name != '') or cast(info, 'info.SectionInfo').name == '*':
            return 1
        return 2                                   # '+' slot: sections must be named
    if isa(st, 'info.AbstractType'):
        return 1 if type_ in cast(st, 'info.AbstractType')._subtypes else 0
    return 0


@recursive(['Ref[info.SectionType]', 'int', 'str', 'Opt[str]'], 'int')
def slot_search(t, i, type_, name):
    """Index of the child that takes the section header (type_, name), searching the
    children in schema order from index i: the first child whose slot_case is not 0
    decides; -2 if it rejects the header, -1 if no child reacts."""
    if i >= len(t._children):
        return -1
    c = slot_case(t._children[i][0], t._children[i][1], type_, name)
    if c == 1:
        return i
    if c == 2:
        return -2
    return slot_search(t, i + 1, type_, name)


def is_wildcard_key(ci):
    """A '+' key or multikey (a wildcard: any key name not otherwise declared)."""
    return ci.name == '+' and not isa(ci, 'info.SectionInfo')


def child_wf(key, ci):
    """Representation invariant of one child (key, info) of a section type: it has an
    attribute; a child without a key is a section slot (only sections may be unnamed); a key
    child is filed under its own name ('+' for a wildcard key)."""
    return (ci.attribute is not None and ((key is not None and key != '') or isa(ci, 'info.SectionInfo'))
            and (isa(ci, 'info.SectionInfo') or key == ci.name)
            and ci.name is not None and ci.name != '' and default_wf(ci) and ci.minOccurs >= 0)


def slot_ok(ci, values):
    """Matcher invariant for one child: the slot of its attribute exists and has the
    shape the kind of child demands (wildcard key -> mapping, multi -> list, else single)."""
    if ci.attribute is None:
        return False
    a = val(ci.attribute)
    if a not in values:
        return False
    s = values[a]
    if is_wildcard_key(ci):
        return is_alt(s, 'kmap')
    if ci.maxOccurs > 1:
        return is_alt(s, 'lst')
    return is_alt(s, 'none') or is_alt(s, 'vi') or is_alt(s, 'sv') or is_alt(s, 'pv')


def slot_empty(ci, values):
    """The slot of child ci as a fresh matcher has it: an empty mapping for a wildcard key,
    an empty list for a multikey / multisection, nothing for a single key / section."""
    if ci.attribute is None:
        return False
    a = val(ci.attribute)
    if a not in values:
        return False
    s = values[a]
    if is_wildcard_key(ci):
        return is_alt(s, 'kmap') and len(alt(s, 'kmap')) == 0
    if ci.maxOccurs > 1:
        return is_alt(s, 'lst') and len(alt(s, 'lst')) == 0
    return is_alt(s, 'none')


@recursive(['Ref[info.SectionType]', 'int', 'str', 'Opt[Tuple[Opt[str], Ref[info.BaseInfo]]]'],
           'Opt[Tuple[Opt[str], Ref[info.BaseInfo]]]')
def key_search(t, i, rk, arb):
    """C01 key routing: the child of section type t that takes the (normalised) key rk,
    searching the children from index i on: the first child whose key is rk; failing that,
    the wildcard key ('+' key or multikey) - arb is the wildcard met so far; None if neither."""
    if i >= len(t._children):
        return arb
    if t._children[i][0] == rk:
        return t._children[i]
    if is_wildcard_key(t._children[i][1]):
        return key_search(t, i + 1, rk, t._children[i])
    return key_search(t, i + 1, rk, arb)


def key_rejected(k, ci, slot, rk):
    """C01: the key line is refused although a child takes the key: the name is a
    section's name, a single-valued key already has a value, a multikey is full, or a
    single-valued wildcard key already has this key."""
    if isa(ci, 'info.SectionInfo'):
        return True
    if is_alt(slot, 'none'):
        return False
    if not (ci.maxOccurs > 1):
        if k != '+':
            return True
        return rk in alt(slot, 'kmap')
    return len_slot(slot) == ci.maxOccurs


def len_slot(slot):
    if is_alt(slot, 'lst'):
        return len(alt(slot, 'lst'))
    if is_alt(slot, 'kmap'):
        return len(alt(slot, 'kmap'))
    return 0


def slot_after_add(old, new, k, ci, rk, value, position):
    """C01/C02/C08: what the slot of the receiving child holds after a key line: a new
    ValueInfo with exactly the value text and the position of the line - as the single
    value, appended to the list (file order), or under the normalised key in the mapping
    (appended to that key's list for a wildcard multikey)."""
    if k == '+':
        m0 = alt(old, 'kmap')
        m1 = alt(new, 'kmap')
        if ci.maxOccurs > 1:
            e = m1[rk]
            if rk in m0:
                o = alt(m0[rk], 'lst')
                n = alt(e, 'lst')
                return (is_alt(new, 'kmap') and is_alt(e, 'lst') and len(n) == len(o) + 1 and n[:-1] == o
                        and is_alt(n[-1], 'vi') and alt(n[-1], 'vi').value == value
                        and alt(n[-1], 'vi').position == position and m1 == updated(m0, rk, e))
            n = alt(e, 'lst')
            return (is_alt(new, 'kmap') and is_alt(e, 'lst') and len(n) == 1
                    and is_alt(n[0], 'vi') and alt(n[0], 'vi').value == value
                    and alt(n[0], 'vi').position == position and m1 == updated(m0, rk, e))
        e = m1[rk]
        return (is_alt(new, 'kmap') and is_alt(e, 'vi') and alt(e, 'vi').value == value
                and alt(e, 'vi').position == position and m1 == updated(m0, rk, e))
    if ci.maxOccurs > 1:
        o = alt(old, 'lst')
        n = alt(new, 'lst')
        return (is_alt(new, 'lst') and len(n) == len(o) + 1 and n[:-1] == o and is_alt(n[-1], 'vi')
                and alt(n[-1], 'vi').value == value and alt(n[-1], 'vi').position == position)
    return is_alt(new, 'vi') and alt(new, 'vi').value == value and alt(new, 'vi').position == position


def entry_ok(ci, values, x):
    """Matcher invariant for the entries of a wildcard key's mapping: under key x a
    wildcard multikey keeps a list, a wildcard key a single value."""
    if not is_wildcard_key(ci) or ci.attribute is None:
        return True
    a = val(ci.attribute)
    if a not in values or not is_alt(values[a], 'kmap'):
        return True
    m = alt(values[a], 'kmap')
    if x not in m:
        return True
    if ci.maxOccurs > 1:
        return is_alt(m[x], 'lst')
    return not is_alt(m[x], 'lst')


def section_added(old, new, ci, sectvalue):
    """C01/C02: a multisection slot gets the section value appended (file order); a
    single section slot, which must be empty, holds it."""
    if ci.maxOccurs > 1:
        o = alt(old, 'lst')
        n = alt(new, 'lst')
        return (is_alt(new, 'lst') and len(n) == len(o) + 1 and n[:-1] == o and is_alt(n[-1], 'sv')
                and alt(n[-1], 'sv') == sectvalue)
    return is_alt(old, 'none') and is_alt(new, 'sv') and alt(new, 'sv') == sectvalue


def default_of(ci):
    """The defaults a child carries: what its schema element declared (single value, list,
    or mapping for a wildcard key); section slots have none (an empty list for a multisection)."""
    if isa(ci, 'info.BaseKeyInfo'):
        return cast(ci, 'info.BaseKeyInfo')._default
    if ci.maxOccurs > 1:
        return empty_list_slot()
    return none_slot()


def default_wf(ci):
    """Shape of the stored defaults (representation invariant): a mapping for a wildcard
    key, a list for a multikey, a single value or nothing for a key; a required single
    key has no default."""
    d = default_of(ci)
    if is_wildcard_key(ci):
        return is_alt(d, 'kmap')
    if ci.maxOccurs > 1:
        return is_alt(d, 'lst')
    if isa(ci, 'info.SectionInfo'):
        return is_alt(d, 'none')
    return (is_alt(d, 'none') or is_alt(d, 'vi')) and (ci.minOccurs == 0 or is_alt(d, 'none'))


def complete_ok(ci, slot):
    """C01 completion of one child when its container is closed: a wildcard key needs at
    least minOccurs keys FROM THE TEXT; a multikey / multisection needs minOccurs values,
    the schema defaults standing in when the text gives none; a required single key or
    section must have been given."""
    d = default_of(ci)
    if is_wildcard_key(ci):
        if len(alt(slot, 'kmap')) < ci.minOccurs:
            return False
        if ci.maxOccurs > 1 and len(alt(slot, 'kmap')) == 0:
            return len(alt(d, 'kmap')) >= ci.minOccurs
        return True
    if ci.maxOccurs > 1:
        if len(alt(slot, 'lst')) == 0:
            return len(alt(d, 'lst')) >= ci.minOccurs
        return len(alt(slot, 'lst')) >= ci.minOccurs
    return not (is_alt(slot, 'none') and ci.minOccurs > 0 and is_alt(d, 'none'))


def complete_slot(ci, slot):
    """C02: what the slot holds once the container is closed - the schema defaults are
    filled in where the text gave nothing (copied, never the schema's own containers);
    for a wildcard KEY the defaults are applied later, all or nothing (see constuct)."""
    d = default_of(ci)
    if is_wildcard_key(ci):
        if ci.maxOccurs > 1 and len(alt(slot, 'kmap')) == 0:
            return d
        return slot
    if ci.maxOccurs > 1:
        if len(alt(slot, 'lst')) == 0:
            return d
        return slot
    if is_alt(slot, 'none') and not isa(ci, 'info.SectionInfo'):
        return d
    return slot


@recursive(['Ref[info.SectionType]', 'Map[str, Slot]', 'int'], 'int')
def first_incomplete(t, values, i):
    """Index of the first child (schema order, from i) that is not complete, or -1."""
    if i >= len(t._children):
        return -1
    ci = t._children[i][1]
    if not complete_ok(ci, values[val(ci.attribute)]):
        return i
    return first_incomplete(t, values, i + 1)


# ---- closing a container: conversion (C02) ---------------------------------------------------------------------
def item_conv(dt, b, a):
    """One collected value b (a ValueInfo) and its converted counterpart a."""
    return is_alt(b, 'vi') and is_alt(a, 'pv') and alt(a, 'pv') == dt_val(dt, alt(b, 'vi').value)


def vp_conv(dt, b, a):
    return is_alt(b, 'vi') and is_alt(a, 'pv') and alt(a, 'pv') == dt_val(dt, alt(b, 'vi').value)


def sect_conv(b, a):
    """A collected section value b and what the tree holds for it: the value passed through the
    datatype of the section's own type."""
    return (is_alt(b, 'sv') and is_alt(a, 'pv') and
            alt(a, 'pv') == sdt_val(val(alt(b, 'sv')._matcher.type.datatype), alt(b, 'sv')))


@opaque(['Ref[info.BaseInfo]', 'MItem', 'MItem'], 'bool', reveal=['matcher.BaseMatcher.constuct'])
def mitem_conv(ci, b, a):
    """Entry of a wildcard key's mapping: a single value, or (wildcard multikey) the list of values
    in file order."""
    if ci.maxOccurs > 1:
        return (is_alt(b, 'lst') and is_alt(a, 'lst') and len(alt(a, 'lst')) == len(alt(b, 'lst')) and
                forall(lambda j: implies(0 <= j and j < len(alt(b, 'lst')),
                                         vp_conv(val(ci.datatype), alt(b, 'lst')[j], alt(a, 'lst')[j]))))
    return is_alt(b, 'vi') and is_alt(a, 'pv') and alt(a, 'pv') == dt_val(val(ci.datatype), alt(b, 'vi').value)


def kmap_conv(ci, b, a):
    """Mapping of a wildcard key before / after conversion: the same keys in the same order, each
    entry converted."""
    return (keys(a) == keys(b) and
            forall('str', lambda x: implies(x in b, mitem_conv(ci, b[x], a[x]))))


@opaque(['Ref[info.BaseInfo]', 'Slot', 'Slot'], 'bool', reveal=['matcher.BaseMatcher.constuct'])
def conv_ok(ci, b, a):
    """C02: what the value tree holds for child ci (slot a) given what was collected and completed
    for it (slot b): a single key its converted value or None; a multikey its converted values in
    file order; a wildcard key the mapping from normalised key to converted value(s), the schema
    defaults being used only when the text supplied no key at all; a section slot the section's
    value passed through its section datatype, or None; a multisection the values in file order."""
    if isa(ci, 'info.SectionInfo'):
        if ci.maxOccurs > 1:
            return (is_alt(b, 'lst') and is_alt(a, 'lst') and len(alt(a, 'lst')) == len(alt(b, 'lst')) and
                    forall(lambda j: implies(0 <= j and j < len(alt(b, 'lst')),
                                             sect_conv(alt(b, 'lst')[j], alt(a, 'lst')[j]))))
        if is_alt(b, 'none'):
            return is_alt(a, 'none')
        return sect_conv(b, a)
    if is_wildcard_key(ci):
        if not is_alt(b, 'kmap') or not is_alt(a, 'kmap'):
            return False
        if len(alt(b, 'kmap')) == 0:
            return kmap_conv(ci, alt(default_of(ci), 'kmap'), alt(a, 'kmap'))
        return kmap_conv(ci, alt(b, 'kmap'), alt(a, 'kmap'))
    if ci.maxOccurs > 1:
        return (is_alt(b, 'lst') and is_alt(a, 'lst') and len(alt(a, 'lst')) == len(alt(b, 'lst')) and
                forall(lambda j: implies(0 <= j and j < len(alt(b, 'lst')),
                                         item_conv(val(ci.datatype), alt(b, 'lst')[j], alt(a, 'lst')[j]))))
    if is_alt(b, 'none'):
        return is_alt(a, 'none')
    return is_alt(b, 'vi') and is_alt(a, 'pv') and alt(a, 'pv') == dt_val(val(ci.datatype), alt(b, 'vi').value)


def kmap_kinds_ok(ci, m):
    """Entries of a wildcard key's mapping before conversion: one collected value per key, or
    (wildcard multikey) a list of collected values per key.  (Written as a conjunction of guarded
    clauses rather than if / else: the verifier skolemises and instantiates through `and` / `implies`.)"""
    return (implies(ci.maxOccurs > 1,
                    forall('str', lambda x: implies(x in m, is_alt(m[x], 'lst'))) and
                    forall('str', 'int', lambda x, j: implies(x in m and 0 <= j and j < len(alt(m[x], 'lst')),
                                                              is_alt(alt(m[x], 'lst')[j], 'vi')))) and
            implies(not (ci.maxOccurs > 1), forall('str', lambda x: implies(x in m, is_alt(m[x], 'vi')))))


def sv_ready(sv):
    """A section value can be converted: the type it was matched against has a section datatype."""
    return sv._matcher.type.datatype is not None


KEY_SLOT_WRITERS = ['matcher.BaseMatcher.__init__', 'matcher.BaseMatcher.addValue', 'matcher.SectionMatcher.__init__',
                    'cmdline.MatcherMixin.addValue',
                    'info.KeyInfo.__init__', 'info.KeyInfo.add_valueinfo', 'info.KeyInfo.computedefault',
                    'info.MultiKeyInfo.__init__', 'info.MultiKeyInfo.add_valueinfo', 'info.MultiKeyInfo.computedefault',
                    'info.BaseKeyInfo.adddefault', 'info.BaseKeyInfo.prepare_raw_defaults', 'info.BaseKeyInfo.finish',
                    'info.SchemaType.deriveSectionType']


@opaque(['Ref[info.BaseInfo]', 'Slot'], 'bool', reveal=['matcher.BaseMatcher.constuct'], inline_in=KEY_SLOT_WRITERS)
def key_kinds_ok(ci, slot):
    """What the slot of a KEY child (or the declared defaults of a key) holds before conversion (C02,
    C07): collected values (ValueInfo) only - one, a list, or a mapping to one / to lists - never an
    already converted value."""
    return (implies(is_wildcard_key(ci), is_alt(slot, 'kmap') and kmap_kinds_ok(ci, alt(slot, 'kmap'))) and
            implies(not is_wildcard_key(ci) and ci.maxOccurs > 1,
                    is_alt(slot, 'lst') and forall(lambda j: implies(0 <= j and j < len(alt(slot, 'lst')),
                                                                     is_alt(alt(slot, 'lst')[j], 'vi')))) and
            implies(not is_wildcard_key(ci) and not (ci.maxOccurs > 1), is_alt(slot, 'none') or is_alt(slot, 'vi')))


@opaque(['Ref[info.BaseInfo]', 'Slot'], 'bool', reveal=['matcher.BaseMatcher.constuct'],
        inline_in=['matcher.BaseMatcher.__init__', 'matcher.SectionMatcher.__init__', 'matcher.BaseMatcher.addSection'])
def sect_kinds_ok(ci, slot):
    """What the slot of a SECTION child holds before conversion: section values whose type has a
    section datatype - nothing, one, or a list of them in file order."""
    return (implies(ci.maxOccurs > 1,
                    is_alt(slot, 'lst') and forall(lambda j: implies(
                        0 <= j and j < len(alt(slot, 'lst')),
                        is_alt(alt(slot, 'lst')[j], 'sv') and sv_ready(alt(alt(slot, 'lst')[j], 'sv'))))) and
            implies(not (ci.maxOccurs > 1), is_alt(slot, 'none') or (is_alt(slot, 'sv') and sv_ready(alt(slot, 'sv')))))


def kinds_ok(ci, slot):
    """What a slot holds BEFORE its container is converted (C02, C07): collected values
    (ValueInfo) for keys, section values for section slots - never an already converted value."""
    return (implies(isa(ci, 'info.SectionInfo'), sect_kinds_ok(ci, slot)) and
            implies(not isa(ci, 'info.SectionInfo'), key_kinds_ok(ci, slot)))


@opaque(['Ref[info.BaseInfo]'], 'bool',
        reveal=['schema.BaseParser.start_key', 'schema.BaseParser.start_multikey', 'info.SectionType.addsection',
                'matcher.BaseMatcher.constuct'],
        inline_in=['matcher.BaseMatcher.finish', 'info.SchemaType.deriveSectionType'])
def child_ready(ci):
    """A child can have its collected values converted (C02, C07): a key has a datatype and its
    declared defaults are collected values (never converted ones)."""
    if isa(ci, 'info.SectionInfo'):
        return True
    return isa(ci, 'info.BaseKeyInfo') and ci.datatype is not None and key_kinds_ok(ci, default_of(ci))


@recursive(['Ref[info.SectionType]', 'int'], 'int')
def handler_count(t, i):
    """C16: the number of children of section type t, from index i on, that carry a handler name -
    each contributes exactly one entry to the handler list when a section of that type is closed."""
    if i >= len(t._children):
        return 0
    if t._children[i][1].handler is not None:
        return 1 + handler_count(t, i + 1)
    return handler_count(t, i + 1)


# ---- wildcard-key defaults re-normalised under a key type (C10, C11) -------------------------------------------------
@recursive(['Map[str, MItem]', 'Fun[kt]', 'int', 'Map[str, MItem]'], 'Tuple[int, Map[str, MItem]]')
def renorm_defaults(raw, kt, i, acc):
    """The defaults of a wildcard KEY as written (raw: key text -> default) filed under the keys
    normalised by key type kt, reading the entries from index i on with acc built so far:
    (0, map); (1, _) when two keys collide after normalisation; (2, _) when the key type refuses
    a key."""
    if i >= len(keys(raw)):
        return (0, acc)
    k = keys(raw)[i]
    if kt_raises(kt, k):
        return (2, acc)
    n = kt_val(kt, k)
    if n in acc:
        return (1, acc)
    return renorm_defaults(raw, kt, i + 1, updated(acc, n, raw[k]))


@recursive(['Map[str, MItem]', 'Fun[kt]', 'int', 'Map[str, MItem]'], 'Tuple[int, Map[str, MItem]]')
def renorm_multi_defaults(raw, kt, i, acc):
    """The defaults of a wildcard MULTIKEY (raw: key text -> list of defaults) filed under the
    normalised keys; lists of keys that normalise to the same key are concatenated in document
    order.  (2, _) when the key type refuses a key."""
    if i >= len(keys(raw)):
        return (0, acc)
    k = keys(raw)[i]
    if kt_raises(kt, k):
        return (2, acc)
    n = kt_val(kt, k)
    if n in acc:
        return renorm_multi_defaults(raw, kt, i + 1, updated(acc, n, lst_item(alt(acc[n], 'lst') + alt(raw[k], 'lst'))))
    return renorm_multi_defaults(raw, kt, i + 1, updated(acc, n, lst_item(alt(raw[k], 'lst'))))


def same_declaration(a, b):
    """Two info objects declare the same child: same kind (class), name, datatype, occurrence
    bounds, handler, attribute - and, for section slots, the same section type."""
    return (same_class(a, b) and a.name == b.name and a.datatype == b.datatype and a.minOccurs == b.minOccurs
            and a.maxOccurs == b.maxOccurs and a.handler == b.handler and a.attribute == b.attribute
            and (not isa(a, 'info.SectionInfo') or
                 cast(a, 'info.SectionInfo').sectiontype == cast(b, 'info.SectionInfo').sectiontype))


def raw_defaults_of(ci):
    """The defaults of a wildcard key AS WRITTEN in the schema (before key-type normalisation)."""
    k = cast(ci, 'info.BaseKeyInfo')
    if is_alt(k._rawdefaults, 'none'):
        return alt(k._default, 'kmap')
    return alt(k._rawdefaults, 'kmap')


def derived_child(t_key, t_info, b_key, b_info, kt):
    """C11 (extends): what the derived type holds for a child (b_key, b_info) of its base: the
    very same info object - except for a wildcard key, which is a NEW object declaring the same
    key whose defaults are the defaults as written, re-normalised under the derived key type kt."""
    if t_key != b_key:
        return False
    if not (isa(b_info, 'info.BaseKeyInfo') and b_info.name == '+'):
        return t_info == b_info
    if not same_declaration(t_info, b_info) or t_info == b_info:
        return False
    d = cast(t_info, 'info.BaseKeyInfo')._default
    if isa(b_info, 'info.KeyInfo'):
        return is_alt(d, 'kmap') and renorm_defaults(raw_defaults_of(b_info), kt, 0, {}) == (0, alt(d, 'kmap'))
    return is_alt(d, 'kmap') and renorm_multi_defaults(raw_defaults_of(b_info), kt, 0, {}) == (0, alt(d, 'kmap'))



def key_default_shape(ci):
    """Shape of the defaults a key info object keeps, by kind: a mapping for a wildcard key or
    multikey, a list for a multikey, at most one value for a key."""
    k = cast(ci, 'info.BaseKeyInfo')
    if ci.name == '+':
        return is_alt(k._default, 'kmap')
    if isa(ci, 'info.MultiKeyInfo'):
        return is_alt(k._default, 'lst')
    return is_alt(k._default, 'none') or is_alt(k._default, 'vi')
