"""Specification of the configuration line grammar (property C03), written
from the statement.  A *line* here is already stripped of surrounding
whitespace (the statement: "surrounding whitespace is ignored")."""
from spec.subst import name_len, orelse, subst_spec

K_SKIP = 0
K_CLOSE = 1
K_OPEN = 2
K_DIRECTIVE = 3
K_KV = 4


def line_class(line):
    """Which kind of line this is.  Blank lines and lines whose first character
    is '#' are skipped; '</' starts a closer, '<' an opener, '%' a directive; any
    other line is a key/value line."""
    if line == '' or line[0] == '#':
        return K_SKIP
    if line[:2] == '</':
        return K_CLOSE
    if line[0] == '<':
        return K_OPEN
    if line[0] == '%':
        return K_DIRECTIVE
    return K_KV


def is_keychar(c):
    """Characters of keys / section types / names: neither whitespace nor parentheses."""
    return not (c.isspace() or c == '(' or c == ')')


def kv_ok(t):
    """t starts with a key: a non-empty maximal run of key characters."""
    return t != '' and is_keychar(t[0])


def kv_key(t):
    n = 0
    while n < len(t) and is_keychar(t[n]):
        n += 1
    return t[:n]


def kv_value(t):
    """The value after the key and whitespace: None when absent."""
    rest = t[len(kv_key(t)):]
    i = 0
    while i < len(rest) and rest[i].isspace():
        i += 1
    return rest[i:] if i < len(rest) else None


def _names(t):
    """Split 'NAME' or 'NAME ws+ NAME' (exactly; nothing else) -> list or None."""
    k = kv_key(t)
    if k == '':
        return None
    rest = t[len(k):]
    if rest == '':
        return [k]
    i = 0
    while i < len(rest) and rest[i].isspace():
        i += 1
    if i == 0:
        return None
    k2 = kv_key(rest[i:])
    if k2 == '' or rest[i + len(k2):] != '':
        return None
    return [k, k2]


def sec_ok(t):
    return _names(t) is not None


def sec_type(t):
    n = _names(t)
    return n[0] if n else ''


def sec_name(t):
    n = _names(t)
    return n[1] if n and len(n) == 2 else None


DIRECTIVES = ('define', 'import', 'include')


def first_word(s):
    """First whitespace-delimited word of s ('' if none)."""
    i = 0
    while i < len(s) and s[i].isspace():
        i += 1
    j = i
    while j < len(s) and not s[j].isspace():
        j += 1
    return s[i:j]


def after_first_word(s):
    """What follows the first word and the whitespace after it; None if nothing does."""
    i = 0
    while i < len(s) and s[i].isspace():
        i += 1
    while i < len(s) and not s[i].isspace():
        i += 1
    while i < len(s) and s[i].isspace():
        i += 1
    return s[i:] if i < len(s) else None


def is_legal_name(n):
    return len(n) > 0 and name_len(n, 0) == len(n)


def define_name(rest):
    return first_word(rest).lower()


def define_text(rest):
    return orelse(after_first_word(rest), '')


def define_err(d, rest):
    """C05: a %define is rejected iff the name is not a legal substitution name, its value
    does not expand, or the name is already defined with a DIFFERENT EXPANDED value."""
    n = define_name(rest)
    r = subst_spec(define_text(rest), d)
    if not is_legal_name(n):
        return True
    if r[0] != 0:
        return True
    return n in d and d[n] != r[1]


def hdr_text(rest):
    """The inside of '<...>' minus one trailing '/' (the empty-section mark), right-stripped."""
    if rest[-1:] == '/':
        return rest[:-1].rstrip()
    return rest.rstrip()


def lower_opt(x):
    return None if x is None else x.lower()
