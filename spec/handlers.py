"""Specification of the composite handler (property C16), written from the statement.

A handler map is a mapping name -> callable-or-None; its names are matched after
basic-key normalisation (`kt_val(convert, name)`; `kt_raises` when a name is not a basic key).
"""
from pyvc.specapi import recursive


@recursive(['Map[str, Opt[Fun[handler]]]', 'Fun[kt]', 'int', 'Map[str, Opt[Fun[handler]]]'],
           'Tuple[int, Map[str, Opt[Fun[handler]]]]')
def norm_map(hm, convert, i, acc):
    """The handler map with normalised names, reading the supplied items from index i on with
    `acc` built so far: (0, map) when every name normalises to a key of its own; (1, _) as soon
    as two supplied names normalise to the same key; (2, _) when a name is not a basic key."""
    if i >= len(keys(hm)):
        return (0, acc)
    name = keys(hm)[i]
    if kt_raises(convert, name):
        return (2, acc)
    n = kt_val(convert, name)
    if n in acc:
        return (1, acc)
    return norm_map(hm, convert, i + 1, updated(acc, n, hm[name]))


@recursive(['Seq[Tuple[str, Opaque[PyVal]]]', 'Map[str, Opt[Fun[handler]]]', 'int'], 'bool')
def all_mapped(hs, d, i):
    """Every entry from index i on has its handler name in the normalised map."""
    if i >= len(hs):
        return True
    return hs[i][0] in d and all_mapped(hs, d, i + 1)


@recursive(['Seq[Tuple[str, Opaque[PyVal]]]', 'Map[str, Opt[Fun[handler]]]', 'int'],
           'Seq[Tuple[Fun[handler], Opaque[PyVal]]]')
def calls_from(hs, d, i):
    """The calls the composite handler makes for the entries from index i on, in entry order:
    (callable mapped to the entry's name, the entry's value) - entries mapped to None skipped."""
    if i >= len(hs):
        return []
    f = d[hs[i][0]]
    if f is None:
        return calls_from(hs, d, i + 1)
    return [(val(f), hs[i][1])] + calls_from(hs, d, i + 1)
