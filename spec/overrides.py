"""Specification side of command-line overrides (property C14), written from the statement.

An override item is (path components, value text, source position); `bk` is the basic-key
conversion (type names are basic keys) and `kt` the key type of the addressed section."""
from pyvc.specapi import recursive


def opt_of(spec):
    """The option path of 'path/to/key=value': the text before the first '='."""
    return spec[:spec.find('=')]


def val_of(spec):
    """The value of 'path/to/key=value': everything after the first '=', verbatim."""
    return spec[spec.find('=') + 1:]


def kp_get(kp, n):
    """The values supplied so far for the (normalised) key n."""
    if n in kp:
        return kp[n]
    return []


@recursive(['Seq[Tuple[Seq[str], str, Tuple[str, int, int]]]', 'Fun[kt]', 'int',
            'Map[str, Seq[Tuple[str, Tuple[str, int, int]]]]', 'Seq[Tuple[Seq[str], str, Tuple[str, int, int]]]'],
           'Tuple[int, Map[str, Seq[Tuple[str, Tuple[str, int, int]]]], Seq[Tuple[Seq[str], str, Tuple[str, int, int]]]]')
def bag_split(options, kt, i, kp, si):
    """How the override items addressed to one section are sorted (from index i on, with what has
    been sorted so far): an item whose path has ONE component is a value for that key of this
    section - filed under the key normalised by the section's key type, values in the order
    given; every other item is kept, in order, for a child section.  (1, ..) when a key name is
    refused by the key type."""
    if i >= len(options):
        return (0, kp, si)
    if len(options[i][0]) == 1:
        if kt_raises(kt, options[i][0][0]):
            return (1, kp, si)
        n = kt_val(kt, options[i][0][0])
        return bag_split(options, kt, i + 1, updated(kp, n, kp_get(kp, n) + [(options[i][1], options[i][2])]), si)
    return bag_split(options, kt, i + 1, kp, si + [options[i]])


def head_matches(s, bk, type_, name):
    """A path component selects a child section when it equals the section's NAME after case
    normalisation, or the section's TYPE name after basic-key normalisation."""
    return (name is not None and name != '' and s.lower() == name) or (not kt_raises(bk, s) and kt_val(bk, s) == type_)


@recursive(['Seq[Tuple[Seq[str], str, Tuple[str, int, int]]]', 'Fun[kt]', 'str', 'Opt[str]', 'int'],
           'Seq[Tuple[Seq[str], str, Tuple[str, int, int]]]')
def sect_taken(items, bk, type_, name, i):
    """The items (from index i on, in order) that address the child section (type_, name), each
    with its leading path component removed."""
    if i >= len(items):
        return []
    if head_matches(items[i][0][0], bk, type_, name):
        return [(items[i][0][1:], items[i][1], items[i][2])] + sect_taken(items, bk, type_, name, i + 1)
    return sect_taken(items, bk, type_, name, i + 1)


@recursive(['Seq[Tuple[Seq[str], str, Tuple[str, int, int]]]', 'Fun[kt]', 'str', 'Opt[str]', 'int'],
           'Seq[Tuple[Seq[str], str, Tuple[str, int, int]]]')
def sect_kept(items, bk, type_, name, i):
    """The items (from index i on, in order) that do NOT address the child section."""
    if i >= len(items):
        return []
    if head_matches(items[i][0][0], bk, type_, name):
        return sect_kept(items, bk, type_, name, i + 1)
    return [items[i]] + sect_kept(items, bk, type_, name, i + 1)
