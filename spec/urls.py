"""Specification side of the URL helpers (property C18), written from the statement: file URLs
are normalised to the 'file:///' form; everything else about URLs is urllib's (assumed)."""


def file3(url):
    """A URL whose scheme is 'file' (any letter case) and that is not yet in the 'file:///' form
    gets the empty host written out: 'file:/x' -> 'file:///x'; any other URL is unchanged."""
    if url.lower().startswith('file:/') and not url.lower().startswith('file:///'):
        return 'file://' + url[5:]
    return url


def defrag_of(url):
    """The URL without its fragment identifier, file URLs in the 'file:///' form."""
    return file3(raw_defrag(url))


def frag_of(url):
    return raw_frag(url)


def urljoin_val(base, relurl):
    """Reference resolution (RFC 3986, urllib) with file URLs in the 'file:///' form."""
    return file3(raw_join(base, relurl))
