"""Specification of $-substitution (property C04), written from the statement.

`name_len(s, pos)` is the length of the maximal substitution name starting at
position pos of s (0 if none): a letter or underscore followed by letters,
digits and underscores, ASCII only.  It is shared with the generated contract
of the regular expression `_name_match` (whose agreement with this definition
for strings of every length is an automaton obligation).
"""
from pyvc.specapi import opaque, recursive

NAME_START = 'abcdefghijklmnopqrstuvwxyzABCDEFGHIJKLMNOPQRSTUVWXYZ_'
NAME_CONT = NAME_START + '0123456789'


def name_len(s, pos):
    if pos < 0 or pos >= len(s) or s[pos] not in NAME_START:
        return 0
    n = 1
    while pos + n < len(s) and s[pos + n] in NAME_CONT:
        n += 1
    return n


@opaque(['str'], 'bool', reveal=['substitution._split'])
def split_err(s):
    """The first '$' of s starts a malformed construct."""
    i = s.find('$')
    if i < 0:
        return False
    c = s[i + 1:i + 2]
    if c == '':
        return True                      # trailing lone '$'
    if c == '$':
        return False
    if c == '{':
        n = name_len(s, i + 2)
        return n == 0 or s[i + 2 + n:i + 3 + n] != '}'
    if c == '(':
        n = name_len(s, i + 2)
        return n == 0 or s[i + 2 + n:i + 3 + n] != ')'
    return name_len(s, i + 1) == 0       # '$' followed by anything else


@opaque(['str'], 'Tuple[str, Opt[str], Opt[str], Opt[str], Opt[str]]', reveal=['substitution._split'])
def split_spec(s):
    """(literal prefix, lower-cased name, name as written, rest, kind) for the
    first '$' construct of s; meaningful when not split_err(s)."""
    i = s.find('$')
    if i < 0:
        return (s, None, None, None, None)
    c = s[i + 1:i + 2]
    if c == '$':
        return (s[:i + 1], None, None, s[i + 2:], None)
    if c == '{':
        n = name_len(s, i + 2)
        nm = s[i + 2:i + 2 + n]
        return (s[:i], nm.lower(), nm, s[i + 3 + n:], 'define')
    if c == '(':
        n = name_len(s, i + 2)
        nm = s[i + 2:i + 2 + n]
        return (s[:i], nm.lower(), nm, s[i + 3 + n:], 'env')
    n = name_len(s, i + 1)
    nm = s[i + 1:i + 1 + n]
    return (s[:i], nm.lower(), nm, s[i + 1 + n:], 'define')


def prepend(prefix, r):
    """Put literal text in front of the outcome of substituting the rest."""
    if r[0] == 0:
        return (0, prefix + r[1])
    return r


@recursive(['str', 'Map[str,str]'], 'Tuple[int, str]')
def subst_spec(s, d):
    """Outcome of substituting into s with definitions d (keys lower-cased) and
    the process environment: (0, text) | (1, '') syntax error | (2, name as
    written) no value for that name.  Constructs are handled left to right;
    replacement text is never rescanned."""
    if '$' not in s:
        return (0, s)
    if split_err(s):
        return (1, '')
    p, name, namecase, suffix, vtype = split_spec(s)
    if name is None:                     # '$$' -> '$' (already part of p)
        return prepend(p, subst_spec(val(suffix), d))
    if vtype == 'define':
        v = d.get(name)
    else:
        v = env_get(val(namecase))
    if v is None:
        return (2, val(namecase))
    return prepend(p + val(v), subst_spec(val(suffix), d))


def val(x):
    """Specification helper: the value of an optional that is known to be set."""
    assert x is not None
    return x


def orelse(x, d):
    return d if x is None else x


def env_get(name):
    import os
    return os.environ.get(name)
