"""Specification side of the schema language as read from element attributes (property C10),
from docs/writing-schema.rst and schema.dtd."""


def required_of(attrs):
    """'required' is "yes" or "no"; absent means no."""
    return 'required' in attrs and attrs['required'] == 'yes'


def required_bad(attrs):
    return 'required' in attrs and attrs['required'] != 'yes' and attrs['required'] != 'no'


def name_of(attrs, default):
    """The 'name' attribute (or the element's default name)."""
    if 'name' in attrs:
        return attrs['name']
    return default


def explicit_attr(attrs):
    """An 'attribute' attribute that is present and non-empty."""
    return 'attribute' in attrs and attrs['attribute'] != ''


def name_info_bad(attrs, default, ident, bk, kt):
    """C10, names: a name must be given and non-empty; an attribute name must be an identifier and
    must not start with 'getSection'; the wildcard names '*' and '+' need an attribute name; any
    other name must be accepted by the key type of the enclosing container, and when no attribute
    name is given one must be derivable from it (basic-key form, '-' -> '_', an identifier)."""
    n = name_of(attrs, default)
    if n is None or n == '':
        return True
    if explicit_attr(attrs):
        if kt_raises(ident, attrs['attribute']):
            return True
        if kt_val(ident, attrs['attribute']).startswith('getSection'):
            return True
    if n == '*' or n == '+':
        return not explicit_attr(attrs) or kt_val(ident, attrs['attribute']) == ''
    if kt_raises(kt, val(n)):
        return True
    if explicit_attr(attrs) and kt_val(ident, attrs['attribute']) != '':
        return False
    if kt_raises(bk, kt_val(kt, val(n))):
        return True
    return kt_raises(ident, dash_to_underscore(kt_val(bk, kt_val(kt, val(n)))))


def attribute_of(attrs, default, ident, bk, kt):
    """C02: the attribute a child is exposed under: the given attribute name, else the key name in
    basic-key form with hyphens turned into underscores."""
    if explicit_attr(attrs) and kt_val(ident, attrs['attribute']) != '':
        return kt_val(ident, attrs['attribute'])
    return kt_val(ident, dash_to_underscore(kt_val(bk, kt_val(kt, val(name_of(attrs, default))))))


def new_prefix(prefixes, name, conv):
    """C11: the class-name prefix in force inside an element carrying prefix=name: the name itself
    when it is absolute, the enclosing prefix + name when it starts with '.', the enclosing prefix
    when no prefix is given ('' at top level).  conv(name) is the validated spelling."""
    if name is not None and name != '':
        n = kt_val(conv, val(name))
        if n[:1] == '.':
            return prefixes[-1] + n
        return n
    if len(prefixes) > 0:
        return prefixes[-1]
    return ''
