"""Specification side of the standard datatypes (property C09)."""


def int_ok(s):
    try:
        int(s)
        return True
    except ValueError:
        return False


def int_of(s):
    try:
        return int(s)
    except ValueError:
        return 0


def bool_spec(low):
    """0: not a boolean word, 1: true word, 2: false word (argument already lower-cased)."""
    if low == 'yes' or low == 'true' or low == 'on':
        return 1
    if low == 'no' or low == 'false' or low == 'off':
        return 2
    return 0


def in_range(v, lo, hi):
    """Inclusive range check with optional bounds."""
    return (lo is None or v >= lo) and (hi is None or v <= hi)
