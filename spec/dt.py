"""Specification side of the standard datatypes (property C09)."""
from pyvc.specapi import recursive


def int_ok(s):
    try:
        int(s)
        return True
    except ValueError:
        return False


def int_of(s):
    try:
        return int(s)
    except ValueError:
        return 0


def bool_spec(low):
    """0: not a boolean word, 1: true word, 2: false word (argument already lower-cased)."""
    if low == 'yes' or low == 'true' or low == 'on':
        return 1
    if low == 'no' or low == 'false' or low == 'off':
        return 2
    return 0


def in_range(v, lo, hi):
    """Inclusive range check with optional bounds."""
    return (lo is None or v >= lo) and (hi is None or v <= hi)


def port_ok(p):
    """p is the text of an integer in 0..65535."""
    return int_ok(p) and 0 <= int_of(p) and int_of(p) <= 65535


def inet_spec(s, default_host):
    """inet-address family (docs/standard-datatypes.rst): 'host:port', host only or port only.
    The text after the LAST colon is the port, unless what precedes it still contains a colon and
    is not written in brackets - then the whole text is an (unbracketed IPv6) host.  Brackets
    around the host are removed; the host is lower-cased; an absent host is the default host; a
    port must be an integer in 0..65535.  -> (status, host, has_port, port); status 0 = ok,
    1 = ValueError."""
    if ':' in s:
        h = before_last(s, ':')
        p = after_last(s, ':')
        if h.startswith('[') and h.endswith(']'):
            h = h[1:-1]
        elif ':' in h:
            h = s
            p = ''
        if p != '' and not port_ok(p):
            return (1, '', False, 0)
        host = h.lower()
        if host == '':
            host = default_host
        return (0, host, p != '', int_of(p))
    if port_ok(s):
        return (0, default_host, True, int_of(s))
    if word_count(s) != 1:
        return (1, '', False, 0)
    host = s.lower()
    if host == '':
        host = default_host
    return (0, host, False, 0)


# ---- timedelta (C09): "<number><unit>" words, unit one of w d h m s; the LAST word of a unit wins ----
def td_unit_ok(part):
    u = part[-1:]
    return u == 'w' or u == 'd' or u == 'h' or u == 'm' or u == 's'


@recursive(['Seq[str]', 'int'], 'int')
def td_scan(parts, i):
    """Outcome of reading the words from index i on, in order: 0 = every word is a float followed by
    a known unit letter; 1 = the first offending word has a malformed number (ValueError);
    2 = the first offending word has an unknown unit letter (TypeError).  The number is looked at
    before the unit, as the statement's 'timedelta alone reports an unknown unit letter as
    TypeError' presupposes a well-formed number."""
    if i >= len(parts):
        return 0
    if not float_ok(parts[i][:-1]):
        return 1
    if not td_unit_ok(parts[i]):
        return 2
    return td_scan(parts, i + 1)


@recursive(['Seq[str]', 'int', 'str', 'Num'], 'Num')
def td_last(parts, i, unit, cur):
    """The amount given for `unit`: that of the last word with this unit letter from index i on,
    else cur (0 when the text gives none)."""
    if i >= len(parts):
        return cur
    if parts[i][-1:] == unit:
        return td_last(parts, i + 1, unit, float_of(parts[i][:-1]))
    return td_last(parts, i + 1, unit, cur)
