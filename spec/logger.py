"""Specification side of the logger component (property C20), written from the statement and
docs/ (logging level names and numbers as documented)."""


def level_of(low):
    """The documented number of a level name (argument already lower-cased), -1 if not a name."""
    if low == 'critical' or low == 'fatal':
        return 50
    if low == 'error':
        return 40
    if low == 'warn' or low == 'warning':
        return 30
    if low == 'info':
        return 20
    if low == 'blather':
        return 15
    if low == 'debug':
        return 10
    if low == 'trace':
        return 5
    if low == 'all':
        return 1
    if low == 'notset':
        return 0
    return -1


def std_stream(path):
    return path == 'STDERR' or path == 'STDOUT'


def logfile_refused(path, max_size, old_files, when, interval, encoding, delay):
    """C20: which <logfile> option combinations are refused: max-size, old-files, when, delay and
    encoding for STDOUT / STDERR; for a file, rotation (when / max-size / old-files / interval
    given) needs old-files, not both `when` and max-size, and one of them."""
    has_when = when is not None and when != ''
    has_enc = encoding is not None and encoding != ''
    if std_stream(path):
        return max_size != 0 or old_files != 0 or has_when or delay or has_enc
    if has_when or max_size != 0 or old_files != 0 or interval != 0:
        if old_files == 0:
            return True
        if has_when:
            return max_size != 0
        return max_size == 0
    return False
