"""Specification side of the logger component (property C20), written from the statement and
docs/ (logging level names and numbers as documented)."""


def level_of(low):
    """The documented number of a level name (argument already lower-cased), -1 if not a name."""
    if low == 'critical' or low == 'fatal':
        return 50
    if low == 'error':
        return 40
    if low == 'warn' or low == 'warning':
        return 30
    if low == 'info':
        return 20
    if low == 'blather':
        return 15
    if low == 'debug':
        return 10
    if low == 'trace':
        return 5
    if low == 'all':
        return 1
    if low == 'notset':
        return 0
    return -1


def std_stream(path):
    return path == 'STDERR' or path == 'STDOUT'


def logfile_refused(path, max_size, old_files, when, interval, encoding, delay):
    """C20: which <logfile> option combinations are refused: max-size, old-files, when, delay and
    encoding for STDOUT / STDERR; for a file, rotation (when / max-size / old-files / interval
    given) needs old-files, not both `when` and max-size, and one of them."""
    has_when = when is not None and when != ''
    has_enc = encoding is not None and encoding != ''
    if std_stream(path):
        return max_size != 0 or old_files != 0 or has_when or delay or has_enc
    if has_when or max_size != 0 or old_files != 0 or interval != 0:
        if old_files == 0:
            return True
        if has_when:
            return max_size != 0
        return max_size == 0
    return False


from pyvc.specapi import recursive


def without_first(lst, x):
    """lst with the first occurrence of x removed (lst itself when x does not occur)."""
    if x in lst:
        return lst[:lst.index(x)] + lst[lst.index(x) + 1:]
    return lst


@recursive(['Seq[Ref[WeakRef]]', 'int'], 'Seq[Ref[LogHandler]]')
def live_handlers(snap, i):
    """The handlers still alive among the registered weak references snap[i:], in order."""
    if i >= len(snap):
        return []
    if snap[i].target is None:
        return live_handlers(snap, i + 1)
    return [val(snap[i].target)] + live_handlers(snap, i + 1)


@recursive(['Seq[Ref[WeakRef]]', 'int'], 'Seq[Ref[WeakRef]]')
def live_refs(snap, i):
    """The weak references among snap[i:] whose handler is still alive, in order."""
    if i >= len(snap):
        return []
    if snap[i].target is None:
        return live_refs(snap, i + 1)
    return [snap[i]] + live_refs(snap, i + 1)


def add_handler(hs, h):
    """logging.Logger.addHandler: appended unless already present."""
    if h in hs:
        return hs
    return hs + [h]


@recursive(['Seq[Opaque[PyVal]]', 'Seq[Opaque[PyVal]]'], 'Seq[Opaque[PyVal]]')
def add_handlers(hs, new):
    """hs after addHandler of each element of new, in order."""
    if len(new) == 0:
        return hs
    return add_handler(add_handlers(hs, new[:-1]), new[-1])
